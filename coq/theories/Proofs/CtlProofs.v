(** Proofs/CtlProofs.v — the control skeletons GENERATED from the current source
    (Gen/Control.v, from pypyr/stepsrunner.py and pypyr/errors.py) are the hand-written model's
    functions (Model/Engine.v).  A change to a try/except ladder, to the order of handlers, to a
    default argument, to the class hierarchy of the instructions, ... changes the generated term
    and these equalities stop being provable. *)
From Coq Require Import ZArith List Bool String Lia.
From PV Require Import PyStr PyVal.
From PV.Model Require Import Engine Ctl.
From PV.Gen Require Import Control.
From PV.Proofs Require Import EngineProofs.
Import ListNotations.
Local Open Scope string_scope.
Local Open Scope list_scope.

(** ** classes of ordinary exceptions: whatever its name, an [RExn] is an Exception and none of the
    instruction classes — decided against the GENERATED class table by going through its rows *)
Lemma ordinary_class_cases t n :
  ordinary_class t n = "<ordinary>" \/
  (In (ordinary_class t n) (map fst t) /\
   existsb (String.eqb (ordinary_class t n)) instruction_classes = false).
Proof.
  unfold ordinary_class. destruct (String.prefix _ n); [|now left].
  cbv zeta. destruct (existsb (String.eqb _) instruction_classes) eqn:E; [now left|].
  destruct (existsb _ t) eqn:E2; [|now left]. right. split; [|exact E].
  apply existsb_exists in E2. destruct E2 as [p [I Q]]. apply String.eqb_eq in Q.
  rewrite <- Q. now apply in_map.
Qed.

Ltac class_cases n :=
  let H := fresh "H" in let HI := fresh "HI" in let HX := fresh "HX" in
  unfold isinst, class_of;
  destruct (ordinary_class_cases errors_classes n) as [H|[HI HX]];
  [rewrite H; vm_compute; reflexivity|];
  simpl in HI;
  repeat (destruct HI as [HI|HI];
          [rewrite <- HI in *; first [vm_compute in HX; discriminate HX | vm_compute; reflexivity]|]);
  contradiction.

Lemma isinst_exn_exception n m e : isinst errors_classes (ORaise (RExn n m e)) ["Exception"] = true.
Proof. class_cases n. Qed.
Lemma isinst_exn_cof_stop n m e :
  isinst errors_classes (ORaise (RExn n m e)) ["ControlOfFlowInstruction"; "Stop"] = false.
Proof. class_cases n. Qed.
Lemma isinst_exn_call n m e : isinst errors_classes (ORaise (RExn n m e)) ["Call"] = false.
Proof. class_cases n. Qed.
Lemma isinst_exn_jump n m e : isinst errors_classes (ORaise (RExn n m e)) ["Jump"] = false.
Proof. class_cases n. Qed.
Lemma isinst_exn_stop n m e : isinst errors_classes (ORaise (RExn n m e)) ["Stop"] = false.
Proof. class_cases n. Qed.
Lemma isinst_exn_stopstepgroup n m e : isinst errors_classes (ORaise (RExn n m e)) ["StopStepGroup"] = false.
Proof. class_cases n. Qed.
Lemma isinst_exn_stoppipeline n m e : isinst errors_classes (ORaise (RExn n m e)) ["StopPipeline"] = false.
Proof. class_cases n. Qed.
Lemma isinst_exn_handled n m e : isinst errors_classes (ORaise (RExn n m e)) ["HandledError"] = false.
Proof. class_cases n. Qed.

Ltac exn_simp :=
  rewrite ?isinst_exn_exception, ?isinst_exn_cof_stop, ?isinst_exn_call, ?isinst_exn_jump,
          ?isinst_exn_stop, ?isinst_exn_stopstepgroup, ?isinst_exn_stoppipeline, ?isinst_exn_handled.

Lemma andthen_ok_id (r : R) : andthen r (fun s => (OOk, s)) = r.
Proof. destruct r as [[| | |] s]; reflexivity. Qed.

Lemma for_each_ext {A} (f g : A -> st -> R) l s :
  (forall x s, f x s = g x s) -> for_each l f s = for_each l g s.
Proof.
  intros H. revert s. induction l as [|x l IH]; intros s; simpl; [reflexivity|].
  rewrite H. destruct (g x s) as [[| | |] s1]; simpl; auto.
Qed.

(** the pipeline body the StepsRunner was built with = the current pipeline of the state *)
Definition pipeline_of (lib : library) (s : st) : pipeline :=
  match find (fun p => String.eqb (fst p) (current_pipe s)) lib with
  | Some (_, pl) => pl
  | None => []
  end.

Definition steps_or_nil (o : option (list step)) : list step :=
  match o with Some l => l | None => [] end.

Lemma gen_get_pipeline_steps_is_model lib g s :
  steps_or_nil (gen_get_pipeline_steps (pipeline_of lib s) g) = get_steps lib g s.
Proof.
  unfold gen_get_pipeline_steps, get_steps, pipeline_of, assoc_mem, assoc_get.
  destruct (find _ lib) as [[cp pl]|]; [|reflexivity].
  destruct (find (fun g0 => String.eqb (fst g0) g) pl) as [[g' [steps|]]|] eqn:F.
  - assert (E : existsb (fun p => String.eqb (fst p) g) pl = true).
    { apply existsb_exists. apply find_some in F. destruct F as [I Q]. eexists; split; eauto. }
    rewrite E. reflexivity.
  - destruct (existsb _ pl); reflexivity.
  - destruct (existsb _ pl); reflexivity.
Qed.

Lemma source_class_table c :
  isinst errors_classes (ORaise (RSig SStop)) ["Stop"] = true /\
  isinst errors_classes (ORaise (RSig SStopPipeline)) ["Stop"] = true /\
  isinst errors_classes (ORaise (RSig SStopStepGroup)) ["Stop"] = true /\
  isinst errors_classes (ORaise (RSig SStopStepGroup)) ["StopPipeline"] = false /\
  isinst errors_classes (ORaise (RSig SStopPipeline)) ["StopStepGroup"] = false /\
  isinst errors_classes (ORaise (RSig SStop)) ["ControlOfFlowInstruction"] = false /\
  isinst errors_classes (ORaise (RSig (SCall c))) ["ControlOfFlowInstruction"] = true /\
  isinst errors_classes (ORaise (RSig (SJump c))) ["ControlOfFlowInstruction"] = true /\
  isinst errors_classes (ORaise (RSig (SCall c))) ["Stop"] = false /\
  isinst errors_classes (ORaise (RSig (SJump c))) ["Jump"] = true /\
  isinst errors_classes (ORaise (RSig (SCall c))) ["Jump"] = false /\
  isinst errors_classes (OHandled (RSig SStop)) ["ControlOfFlowInstruction"; "Stop"] = false /\
  isinst errors_classes (OHandled (RSig SStop)) ["Exception"] = true.
Proof. repeat split; reflexivity. Qed.

Section Skeletons.
  Variable lib : library.
  Variable rg : list val -> option string -> option string -> st -> R.
  Variable rp : string -> option (list string) -> option (list val) -> option string -> option string -> st -> R.

  Notation run_step := (run_step rg rp).
  Notation run_steps := (run_steps rg rp).
  Notation run_group := (run_group lib rg rp).
  Notation run_failure := (run_failure lib rg rp).
  Notation run_group_seq := (run_group_seq lib rg rp).
  Notation groups_body := (groups_body lib rg rp).

  Lemma for_each_run_steps l s : for_each l run_step s = run_steps l s.
  Proof. revert s. induction l as [|x l IH]; intros s; simpl; [reflexivity|].
         destruct (run_step x s) as [[| | |] s1]; simpl; auto. Qed.

  (** [StepsRunner.run_pipeline_steps] *)
  Lemma gen_run_pipeline_steps_is_model steps s :
    gen_run_pipeline_steps run_step steps s = run_steps (steps_or_nil steps) s.
  Proof.
    unfold gen_run_pipeline_steps. destruct steps as [l|]; [|reflexivity]. simpl.
    rewrite andthen_ok_id, <- for_each_run_steps. apply for_each_ext.
    intros x s1. apply andthen_ok_id.
  Qed.

  (** [StepsRunner.run_step_group] *)
  Lemma gen_run_step_group_is_model g raise_stop s :
    gen_run_step_group run_step rg (pipeline_of lib s) g raise_stop s = run_group g raise_stop s.
  Proof.
    unfold gen_run_step_group, run_group. cbv zeta.
    rewrite andthen_ok_id, gen_run_pipeline_steps_is_model, gen_get_pipeline_steps_is_model.
    destruct (run_steps (get_steps lib g s) s) as [[|[n m e|[| | |c|c]]|c|] s1];
      cbv beta iota; exn_simp; try reflexivity.
    (* Jump: [isinst] is decided by computation on the generated class table *)
    cbv beta iota. now rewrite andthen_ok_id.
  Qed.

  (** [StepsRunner.run_failure_step_group] *)
  Lemma gen_run_failure_step_group_is_model g s :
    gen_run_failure_step_group run_step rg (pipeline_of lib s) g s = run_failure g s.
  Proof.
    unfold gen_run_failure_step_group, run_failure.
    rewrite andthen_ok_id, gen_run_step_group_is_model.
    destruct (run_group g true s) as [[|[n m e|[| | |c|c]]|c|] s1];
      cbv beta iota; exn_simp; reflexivity.
  Qed.

  (** [StepsRunner.run_step_groups]: the state's current pipeline does not change while the
      groups of one runner execute (the call stack is balanced: invariant [ext]) *)
  Hypothesis Hrg : forall gs su fa, good (rg gs su fa).
  Hypothesis Hrp : forall n pr gs su fa, good (rp n pr gs su fa).

  Lemma pipeline_of_ext s0 s : ext s0 s -> pipeline_of lib s = pipeline_of lib s0.
  Proof. intros (S & _). unfold pipeline_of, current_pipe. now rewrite S. Qed.

  Lemma for_each_run_group_seq pl names s0 s :
    ext s0 s -> pl = pipeline_of lib s0 ->
    for_each names (fun g s3 => andthen (gen_run_step_group run_step rg pl g false s3)
                                         (fun s5 => (OOk, s5))) s
    = run_group_seq names s.
  Proof.
    intros H ->. revert s H. induction names as [|g names IH]; intros s H; simpl; [reflexivity|].
    rewrite andthen_ok_id.
    replace (gen_run_step_group run_step rg (pipeline_of lib s0) g false s) with (run_group g false s)
      by (rewrite <- (pipeline_of_ext s0 s H); symmetry; apply gen_run_step_group_is_model).
    pose proof (good_run_group lib rg rp Hrg Hrp g false s0 s H) as G.
    destruct (run_group g false s) as [[| | |] s1]; simpl in *; auto.
  Qed.

  Lemma gen_run_step_groups_is_model names groups success failure s :
    names_of groups = Some names ->
    gen_run_step_groups run_step rg (pipeline_of lib s) names success failure s
    = groups_body groups success failure s.
  Proof.
    intros Hn. unfold gen_run_step_groups.
    destruct groups as [|g gs].
    { simpl in Hn. injection Hn as <-. reflexivity. }
    assert (Hne : names <> []).
    { intros ->. unfold names_of in Hn. simpl in Hn. destruct g; try discriminate.
      destruct (opt_mapM _ gs); discriminate. }
    destruct names as [|n0 names']; [congruence|]. cbv beta iota.
    change (negb true) with false. cbv iota.
    rewrite (groups_body_unfold lib rg rp g gs (n0 :: names') success failure s Hn).
    unfold main_part.
    rewrite (for_each_run_group_seq (pipeline_of lib s) (n0 :: names') s s (ext_refl s) eq_refl).
    pose proof (good_run_group_seq lib rg rp Hrg Hrp (n0 :: names') s s (ext_refl s)) as G.
    destruct (run_group_seq (n0 :: names') s) as [o1 s1] eqn:E1. simpl in G.
    assert (P1 : pipeline_of lib s = pipeline_of lib s1) by (symmetry; now apply pipeline_of_ext).
    (* the success group *)
    assert (M : andthen (o1, s1)
                  (fun s4 => match success with
                             | Some sg => if negb (String.eqb sg "")
                                          then andthen (gen_run_step_group run_step rg (pipeline_of lib s) sg false s4)
                                                       (fun s7 => (OOk, s7))
                                          else (OOk, s4)
                             | None => (OOk, s4) end)
                = andthen (o1, s1)
                  (fun s1' => match success with
                              | Some sg => match sg with "" => (OOk, s1') | _ => run_group sg false s1' end
                              | None => (OOk, s1') end)).
    { destruct o1; try reflexivity. simpl. destruct success as [[|a sg]|]; try reflexivity.
      simpl. now rewrite andthen_ok_id, P1, gen_run_step_group_is_model. }
    rewrite M. clear M.
    set (main := andthen (o1, s1) _).
    assert (G2 : ext s (snd main)).
    { subst main. destruct o1; simpl; auto. destruct success as [[|a sg]|]; auto.
      now apply (good_run_group lib rg rp Hrg Hrp). }
    destruct main as [o2 s2]. simpl in G2.
    assert (P2 : pipeline_of lib s = pipeline_of lib s2) by (symmetry; now apply pipeline_of_ext).
    destruct o2 as [|[n m e|[| | |c|c]]|c|]; try reflexivity.
    - (* ordinary error *)
      cbv beta iota zeta. exn_simp. simpl is_error. cbv iota.
      destruct failure as [[|a fg]|]; try reflexivity.
      cbv beta iota. change (negb (String.eqb (String a fg) "")) with true. cbv iota.
      rewrite andthen_ok_id, P2, gen_run_failure_step_group_is_model.
      destruct (run_failure (String a fg) s2) as [[|[n' m' e'|[| | |c'|c']]|c'|] s3];
        cbv beta iota; exn_simp; reflexivity.
    - (* HandledError: an Exception too *)
      cbv beta iota zeta. simpl is_error. cbv iota.
      destruct failure as [[|a fg]|]; try reflexivity.
      simpl. rewrite andthen_ok_id, P2, gen_run_failure_step_group_is_model.
      destruct (run_failure (String a fg) s2) as [[|[n' m' e'|[| | |c'|c']]|c'|] s3];
        cbv beta iota; exn_simp; reflexivity.
  Qed.
End Skeletons.

(** * pypyr/dsl.py :: Step — the decorator layer *)
Section StepSkeletons.
  Variable rg : list val -> option string -> option string -> st -> R.
  Variable rp : string -> option (list string) -> option (list val) -> option string -> option string -> st -> R.

  (** how the primitives the translator leaves abstract are instantiated by the model *)
  Definition reset_prim (sp : step) (k : counters) (call : outcome) (s : st) : R :=
    match exn_cof call with
    | Some c => (OOk, reset_counters sp k c s)
    | None => (OUnsup, s)
    end.
  Definition save_error_prim (sp : step) (e : outcome) (sw : bool) (s : st) : R :=
    match e with
    | ORaise (RExn n m i) => save_error sp n m i sw s
    | _ => (OUnsup, s)
    end.

  (** [Step.invoke_step] *)
  Lemma gen_invoke_step_is_model sp k s :
    gen_invoke_step (run_body rp sp) rg (reset_prim sp k) s = invoke rg rp sp k s.
  Proof.
    unfold gen_invoke_step, invoke. rewrite andthen_ok_id.
    destruct (run_body rp sp s) as [[|[n m e|[| | |c|c]]|c|] s1];
      cbv beta iota; exn_simp; try reflexivity.
    (* Call *)
    cbv beta iota zeta. change (isinst errors_classes (ORaise (RSig (SCall c))) ["Call"]) with true.
    cbv iota. rewrite andthen_ok_id.
    unfold reset_prim, exn_groups, exn_success_group, exn_failure_group, exn_cof. cbv iota.
    destruct (rg (c_groups c) (c_success c) (c_failure c) s1) as [[|[n m e|[| | |c'|c']]|c'|] s2];
      cbv beta iota; exn_simp; reflexivity.
  Qed.

  (** [Step.run_conditional_decorators] *)
  Lemma gen_run_conditional_decorators_is_model sp k s :
    gen_run_conditional_decorators sp (run_body rp sp) rg (reset_prim sp k)
      (fun rc => retry_loop rg rp rc sp k) (save_error_prim sp) s
    = cond rg rp sp k s.
  Proof.
    unfold gen_run_conditional_decorators, cond.
    destruct (as_bool s (s_run sp)) as [run_me|n m|]; try reflexivity. simpl lift.
    destruct run_me; [|reflexivity]. simpl negb. cbv iota.
    destruct (as_bool s (s_skip sp)) as [skip_me|n m|]; try reflexivity. simpl lift.
    destruct skip_me; [reflexivity|]. simpl negb. cbv iota.
    assert (E : match s_retry sp with
                | Some rd => andthen (retry_loop rg rp rd sp k s) (fun s5 => (OOk, s5))
                | None => andthen (gen_invoke_step (run_body rp sp) rg (reset_prim sp k) s) (fun s6 => (OOk, s6))
                end
                = match s_retry sp with
                  | Some rc => retry_loop rg rp rc sp k s
                  | None => invoke rg rp sp k s
                  end).
    { destruct (s_retry sp); rewrite andthen_ok_id; [reflexivity|apply gen_invoke_step_is_model]. }
    rewrite E. clear E.
    destruct (match s_retry sp with Some rc => _ | None => _ end) as [[|[n m e|[| | |c|c]]|c|] s1];
      cbv beta iota; exn_simp; try reflexivity.
  Qed.

  (** [Step.run_foreach_or_conditional] *)
  Lemma gen_run_foreach_or_conditional_is_model sp k s :
    gen_run_foreach_or_conditional sp (run_body rp sp) rg (reset_prim sp k)
      (fun rc => retry_loop rg rp rc sp k) (save_error_prim sp) (foreach_loop rg rp sp k) s
    = foreach_or_cond rg rp sp k s.
  Proof.
    unfold gen_run_foreach_or_conditional, foreach_or_cond, has_foreach, opt_truth.
    destruct (s_foreach sp) as [fe|]; [destruct (py_truth fe)|]; rewrite andthen_ok_id;
      try reflexivity; apply gen_run_conditional_decorators_is_model.
  Qed.

  (** [Step.foreach_loop]: the iterable is formatted once, before the first item; each item is
      written to [i] before the conditional layer runs for it; the first abnormal outcome ends the loop *)
  Lemma gen_foreach_loop_is_model sp k s :
    gen_foreach_loop sp (fun it => cond rg rp sp (mkcnt (k_while k) (Some it) (k_retry k))) s
    = foreach_loop rg rp sp k s.
  Proof.
    unfold gen_foreach_loop, foreach_loop. cbv zeta.
    destruct (fmt s _) as [v|n m|]; try reflexivity. simpl lift.
    destruct (iter_items v) as [items|n m|]; try reflexivity. simpl lift.
    rewrite andthen_ok_id. revert s. induction items as [|it items IH]; intros s; [reflexivity|].
    simpl. rewrite andthen_ok_id.
    destruct (cond rg rp sp _ _) as [[| | |] s1]; simpl; auto.
  Qed.

  (** [Step.run_step]: in-arguments set first, removed only after normal completion; while wraps
      foreach-or-conditional; a step with a description formats it and evaluates run / skip once more up front *)
  Lemma gen_step_run_step_is_model sp s :
    gen_step_run_step sp (fun s => (OOk, set_step_input sp s)) (fun s => (OOk, unset_step_input sp s))
      (fun w => while_loop rg rp w sp) (foreach_or_cond rg rp sp no_counters) s
    = run_step rg rp sp s.
  Proof.
    unfold gen_step_run_step, run_step, describe, run_step_core. simpl andthen. cbv zeta.
    assert (C : forall s1,
      match s_while sp with
      | Some w => andthen (while_loop rg rp w sp s1) (fun s8 => andthen (OOk, unset_step_input sp s8) (fun s9 => (OOk, s9)))
      | None => andthen (foreach_or_cond rg rp sp no_counters s1)
                        (fun s10 => andthen (OOk, unset_step_input sp s10) (fun s11 => (OOk, s11)))
      end
      = andthen match s_while sp with
                | Some w => while_loop rg rp w sp s1
                | None => foreach_or_cond rg rp sp no_counters s1
                end (fun s2 => (OOk, unset_step_input sp s2))).
    { intros s1. destruct (s_while sp) as [w|].
      - destruct (while_loop rg rp w sp s1) as [[| | |] s2]; reflexivity.
      - destruct (foreach_or_cond rg rp sp no_counters s1) as [[| | |] s2]; reflexivity. }
    destruct (s_desc sp) as [d|]; [|apply C].
    destruct (py_truth d); [|apply C].
    destruct (fmt _ d) as [x|n m|]; try reflexivity. simpl lift.
    destruct (as_bool _ (s_run sp)) as [[|]|n m|]; try reflexivity; simpl lift; cbv iota; [|apply C].
    destruct (as_bool _ (s_skip sp)) as [b|n m|]; try reflexivity. simpl lift. apply C.
  Qed.

  (** [WhileDecorator.exec_iteration] *)
  Lemma gen_while_exec_iteration_is_model w sp n s :
    gen_while_exec_iteration w (fun c => foreach_or_cond rg rp sp (mkcnt (Some c) None None)) n s
    = while_iter rg rp w sp n s.
  Proof.
    unfold gen_while_exec_iteration, while_iter. cbv zeta.
    destruct (foreach_or_cond rg rp sp _ _) as [[|r|c|] s1]; try reflexivity.
    simpl andthen_v. unfold opt_truth.
    destruct (w_stop w) as [e|]; [|reflexivity].
    destruct (py_truth e); [|reflexivity].
    destruct (as_bool s1 e) as [b|en em|]; reflexivity.
  Qed.

  (** [RetryDecorator.exec_iteration] *)
  Lemma gen_retry_exec_iteration_is_model rc sp k max n s :
    gen_retry_exec_iteration rc
      (fun c => invoke rg rp sp (mkcnt (k_while k) (k_for k) (Some c))) n max s
    = retry_iter rg rp rc sp k max n s.
  Proof.
    unfold gen_retry_exec_iteration, retry_iter. cbv zeta. rewrite andthen_ok_id.
    destruct (invoke rg rp sp _ _) as [[|[nm m e|[| | |c|c]]|c|] s1]; try reflexivity.
    - (* ordinary error *)
      cbv beta iota. exn_simp. cbv iota.
      destruct max as [mx|]; [destruct (Z.eqb mx 0) eqn:E0; simpl negb; cbv iota;
                              [|destruct (Z.eqb n mx) eqn:E1; simpl andb; cbv iota; [reflexivity|]]|];
      simpl exn_error_name; simpl andb; cbv iota;
      unfold opt_truth;
      (destruct (r_stopon rc) as [so|]; [destruct (py_truth so)|]);
      (destruct (r_retryon rc) as [ro|]; [destruct (py_truth ro)|]); simpl orb; cbv iota; try reflexivity;
      unfold lift_v, as_iter;
      repeat match goal with
             | |- context [fmt s1 ?x] => destruct (fmt s1 x) as [?fl|?en ?em|]; simpl; try reflexivity
             | |- context [in_names ?a ?b] => destruct (in_names a b) as [[|]|?en ?em|]; simpl; try reflexivity
             end.
    - (* HandledError *)
      cbv beta iota. simpl isinst. cbv iota. simpl exn_cause.
      destruct max as [mx|]; [destruct (Z.eqb mx 0) eqn:E0; simpl negb; cbv iota;
                              [|destruct (Z.eqb n mx) eqn:E1; simpl andb; cbv iota; [reflexivity|]]|];
      simpl exn_error_name; simpl andb; cbv iota;
      unfold opt_truth;
      (destruct (r_stopon rc) as [so|]; [destruct (py_truth so)|]);
      (destruct (r_retryon rc) as [ro|]; [destruct (py_truth ro)|]); simpl orb; cbv iota; try reflexivity;
      unfold lift_v, as_iter;
      repeat match goal with
             | |- context [fmt s1 ?x] => destruct (fmt s1 x) as [?fl|?en ?em|]; simpl; try reflexivity
             | |- context [in_names ?a ?b] => destruct (in_names a b) as [[|]|?en ?em|]; simpl; try reflexivity
             end.
  Qed.
End StepSkeletons.

(** * pypyr/pipeline.py :: Pipeline._run_pipeline — default groups, parser failure, StopPipeline scope *)
Section PipelineSkeleton.
  Variable rg : list val -> option string -> option string -> st -> R.
  Variable rfail : string -> st -> R.

  (** [steps_runner.run_failure_step_group(failure_group)] as the model sees it: without a (non-empty)
      group name there is nothing to run (in the code the [assert] on the name, or the missing
      group, ends inside the handler's own try/except) *)
  Definition rfail_prim (fg : option string) (s : st) : R :=
    match fg with
    | Some (String a b) => rfail (String a b) s
    | _ => (OOk, s)
    end.

  Lemma gen_run_pipeline_is_model parser parse groups success failure s :
    gen_run_pipeline groups success failure (prepare_context parser parse) rg rfail_prim s
    = run_pipeline_inner rg rfail parser parse groups success failure s.
  Proof.
    unfold gen_run_pipeline, run_pipeline_inner, rfail_prim. cbv zeta.
    assert (P : forall s', prepare_context parser parse s' = (OOk, s') \/
                      (exists s1, prepare_context parser parse s' = (OOk, s1)) \/
                      (exists n m e s1, prepare_context parser parse s' = (ORaise (RExn n m e), s1)) \/
                      (exists s1, prepare_context parser parse s' = (OUnsup, s1))).
    { intros s'. unfold prepare_context. destruct parse as [args|]; [|now left].
      destruct parser; [|now left]. destruct (vparse args) as [[[|kv d]|]|n m|]; simpl.
      - now left.
      - right; left; eauto.
      - now left.
      - right; right; left. unfold raise_new. eauto 10.
      - right; right; right; eauto. }
    destruct groups as [[|g gs]|]; destruct success as [[|a su]|]; destruct failure as [[|b fa]|];
      simpl; rewrite ?andthen_ok_id;
      (destruct (P s) as [E|[[s1 E]|[[n [m [e [s1 E]]]]|[s1 E]]]]; rewrite E; clear E; cbv beta iota;
       try reflexivity;
       rewrite ?andthen_ok_id;
       try (match goal with |- context [rg ?a ?b ?c ?d] =>
              destruct (rg a b c d) as [[|[n' m' e'|[| | |c'|c']]|c'|] s2];
              cbv beta iota; exn_simp; reflexivity end);
       try (exn_simp; cbv iota; rewrite ?andthen_ok_id;
            match goal with
            | |- context [rfail ?a ?d] =>
                destruct (rfail a d) as [[|[n' m' e'|[| | |c'|c']]|c'|] s2];
                cbv beta iota; exn_simp; reflexivity
            | _ => reflexivity
            end)).
  Qed.
End PipelineSkeleton.

(** * pypyr/steps/pype.py :: run_step — which outcomes of the child reach the parent *)
Section PypeSkeleton.
  Variable rp : string -> option (list string) -> option (list val) -> option string -> option string -> st -> R.

  (** the body of the [try] as the model has it (parent context shared or a fresh child context
      whose trace / sleeps / exception ids continue the parent's; [out] copied back on success) *)
  Definition pype_body (pa : pype_args) (s : st) : R :=
    if pa_use_parent pa then
      let s1 := match pa_args pa with
                | Some ((_ :: _) as a) => set_ctx s (dict_update (ctx s) a)
                | _ => s
                end in
      rp (pa_name pa) (pa_parse pa) (pa_groups pa) (pa_success pa) (pa_failure pa) s1
    else
      let child0 := mkst (match pa_args pa with Some a => a | None => [] end) []
                         (trace s) (sleeps s) (next_eid s) (jit s) in
      let '(o, child) := rp (pa_name pa) (pa_parse pa) (pa_groups pa) (pa_success pa) (pa_failure pa) child0 in
      let parent := mkst (ctx s) (stack s) (trace child) (sleeps child) (next_eid child) (jit s) in
      match o with
      | OOk =>
          match pa_out pa with
          | Some out =>
              if py_truth out then
                match out_pairs out with
                | Some pairs => write_out pairs child parent
                | None => (OUnsup, parent)
                end
              else (OOk, parent)
          | None => (OOk, parent)
          end
      | _ => (o, parent)
      end.

  Lemma gen_pype_run_step_is_model s :
    gen_pype_run_step pype_body s = pype_step rp s.
  Proof.
    unfold gen_pype_run_step, pype_step.
    destruct (get_arguments s) as [pa|n m|]; try reflexivity. simpl lift.
    unfold pype_body. destruct (pa_use_parent pa).
    - destruct (rp _ _ _ _ _ _) as [[|[n m e|[| | |c|c]]|c|] s1]; try reflexivity;
        cbv beta iota; exn_simp; simpl; destruct (pa_raise pa); reflexivity.
    - destruct (rp _ _ _ _ _ _) as [o child]. cbv zeta.
      destruct o as [|[n m e|[| | |c|c]]|c|]; try reflexivity;
        try (cbv beta iota; exn_simp; simpl; destruct (pa_raise pa); reflexivity).
      destruct (pa_out pa) as [out|]; [|reflexivity].
      destruct (py_truth out); [|reflexivity].
      destruct (out_pairs out) as [pairs|]; [|reflexivity].
      destruct (write_out pairs child _) as [[|[n m e|[| | |c|c]]|c|] s1]; try reflexivity;
        cbv beta iota; exn_simp; simpl; destruct (pa_raise pa); reflexivity.
  Qed.
End PypeSkeleton.

(** * pypyr/utils/poll.py :: while_until_true — when the runner sleeps and when it gives up *)
Section PollSkeleton.
  Variable iter : Z -> st -> iter_result * st.
  Variable interval : nat -> option Q.
  Variable max : option Z.

  Lemma gen_sleep_looper_loop_is_model fuel i b c s :
    gen_sleep_looper_loop iter (fun i => interval (Z.to_nat i)) c max fuel i b true s
    = poll fuel iter interval max i s.
  Proof.
    revert i b s. induction fuel as [|f IH]; intros i b s; [reflexivity|].
    cbn [gen_sleep_looper_loop poll]. cbv zeta.
    destruct (iter (i + 1)%Z s) as [[[|]|o] s1]; try reflexivity.
    destruct (interval (Z.to_nat (i + 1))) as [d|]; [|reflexivity].
    destruct max as [m|].
    - destruct (Z.eqb m 0); simpl negb; cbv iota; [apply IH|].
      destruct (Z.ltb (i + 1) m); [apply IH|reflexivity].
    - apply IH.
  Qed.

  (** the whole poll, as the retry and while decorators call it (a callable interval; a plain
      number is the constant function) *)
  Lemma gen_sleep_looper_is_model fuel c s :
    gen_sleep_looper iter true (fun i => interval (Z.to_nat i)) c max fuel s
    = poll fuel iter interval max 0 s.
  Proof. unfold gen_sleep_looper. apply gen_sleep_looper_loop_is_model. Qed.

  Lemma gen_sleep_looper_loop_const_is_model fuel i b d s :
    (forall n, interval n = d) ->
    gen_sleep_looper_loop iter (fun _ => None) d max fuel i b false s = poll fuel iter interval max i s.
  Proof.
    intros Hd. revert i b s. induction fuel as [|f IH]; intros i b s; [reflexivity|].
    cbn [gen_sleep_looper_loop poll]. cbv zeta.
    destruct (iter (i + 1)%Z s) as [[[|]|o] s1]; try reflexivity.
    rewrite Hd. destruct d as [q|]; [|reflexivity].
    destruct max as [m|].
    - destruct (Z.eqb m 0); simpl negb; cbv iota; [apply IH|].
      destruct (Z.ltb (i + 1) m); [apply IH|reflexivity].
    - apply IH.
  Qed.

  Lemma gen_sleep_looper_const_is_model fuel d s :
    (forall n, interval n = d) ->
    gen_sleep_looper iter false (fun _ => None) d max fuel s = poll fuel iter interval max 0 s.
  Proof. intros Hd. unfold gen_sleep_looper. now apply gen_sleep_looper_loop_const_is_model. Qed.
End PollSkeleton.

(** * pypyr/dsl.py :: Step.set_step_input_context / unset_step_input_context *)
Lemma set_ctx_same s : set_ctx s (ctx s) = s.
Proof. destruct s; reflexivity. Qed.

Lemma gen_set_step_input_context_is_model sp s :
  gen_set_step_input_context sp s = (OOk, set_step_input sp s).
Proof.
  unfold gen_set_step_input_context, set_step_input.
  destruct (s_in sp) as [[|kv d]|]; reflexivity.
Qed.

Lemma for_each_pop keys s :
  for_each keys (fun key s4 => (OOk, set_ctx s4 (dict_pop key (ctx s4)))) s
  = (OOk, set_ctx s (fold_left (fun c k => dict_pop k c) keys (ctx s))).
Proof.
  revert s. induction keys as [|k keys IH]; intros s; simpl.
  - now rewrite set_ctx_same.
  - rewrite IH. destruct s; reflexivity.
Qed.

Lemma gen_unset_step_input_context_is_model sp s :
  gen_unset_step_input_context sp s = (OOk, unset_step_input sp s).
Proof.
  unfold gen_unset_step_input_context, unset_step_input.
  destruct (s_in sp) as [[|kv d]|]; try reflexivity.
  - simpl. now rewrite set_ctx_same.
  - cbv zeta. replace (Z.gtb (Z.of_nat (List.length (kv :: d))) 0) with true
      by (symmetry; apply Z.gtb_lt; simpl List.length; lia).
    cbv iota. rewrite andthen_ok_id, for_each_pop. f_equal. f_equal.
    generalize (ctx s). generalize (kv :: d). intros l. induction l as [|x l IH]; intros c; simpl; auto.
Qed.

(** * pypyr/dsl.py :: Step.reset_context_counters *)
Lemma dict_set_same k v d : dict_get k d = Some v -> dict_set k v d = d.
Proof.
  induction d as [|[k' v'] d IH]; simpl; [discriminate|].
  destruct (val_eqb k k'); intros H.
  - now inversion H.
  - now rewrite IH.
Qed.

(** the loops of the step's own decorators are running (true whenever the step body runs) *)
Definition live (sp : step) (k : counters) : Prop :=
  (s_while sp <> None -> k_while k <> None) /\
  (has_foreach sp = true -> k_for k <> None) /\
  (s_retry sp <> None -> k_retry k <> None).

Lemma set_ctx_set_ctx s a b : set_ctx (set_ctx s a) b = set_ctx s b.
Proof. reflexivity. Qed.

Lemma write_unless_same_sset (same : val -> val -> bool) key v d :
  (forall a b, same a b = true -> a = b) -> py_truth v = true ->
  write_unless_same same key v d = sset key v d.
Proof.
  intros Hs Hv. unfold write_unless_same.
  destruct (same _ v) eqn:E; [|reflexivity].
  apply Hs in E. unfold sset, sget in *.
  destruct (dict_get (VStr key) d) as [x|] eqn:G.
  - subst x. symmetry. now apply dict_set_same.
  - subst v. discriminate.
Qed.

Lemma gen_reset_context_counters_is_model sp k same c s :
  (forall a b, same a b = true -> a = b) ->      (* [a is b] implies [a == b] *)
  py_truth (c_orig c) = true ->                   (* the method's own [assert call.original_config[1]] *)
  live sp k ->
  gen_reset_context_counters sp k same (ORaise (RSig (SCall c))) s = (OOk, reset_counters sp k c s).
Proof.
  intros Hs Hv [Lw [Lf Lr]].
  unfold gen_reset_context_counters, reset_counters, has_foreach, opt_truth in *.
  unfold exn_cfg_key, exn_cfg_val, exn_cof, live_while, live_for, live_retry. cbv zeta.
  rewrite !(write_unless_same_sset same _ _ _ Hs Hv), Hv.
  destruct (s_while sp) as [w|]; [destruct (k_while k) as [nw|]; [|exfalso; now apply Lw]|];
    (destruct (s_foreach sp) as [fe|]; [destruct (py_truth fe);
       [destruct (k_for k) as [vf|]; [|exfalso; now apply Lf]|]|]);
    (destruct (s_retry sp) as [rc|]; [destruct (k_retry k) as [nr|]; [|exfalso; now apply Lr]|]);
    cbn [ctx set_ctx]; try reflexivity;
    destruct (k_while k); destruct (k_for k); destruct (k_retry k); reflexivity.
Qed.

(** * pypyr/dsl.py :: RetryDecorator.retry_loop *)
Lemma lift_ext {A} (r : res A) s (k k' : A -> R) :
  (forall a, k a = k' a) -> lift r s k = lift r s k'.
Proof. intros H. destruct r; simpl; auto. Qed.

Lemma lift_bind_ok {A B} (r : res A) (f : A -> B) s (k : B -> R) :
  lift (let* x := r in Ok (f x)) s k = lift r s (fun x => k (f x)).
Proof. destruct r; reflexivity. Qed.

Lemma fmt_none s : fmt s VNone = Ok VNone.
Proof. reflexivity. Qed.

Lemma gen_retry_loop_is_model_gen rg rp rc sp k
      (prim_poll : (nat -> option Q) -> option Z -> option Z -> st -> iter_result * st) s :
  (forall iv ma mx s0,
     prim_poll iv ma mx s0 = poll LOOPFUEL (retry_iter rg rp rc sp k mx) iv ma 0 s0) ->
  gen_retry_loop rc
    (fun s0 bname sleep mx jrcv args => mk_interval (jit s0) bname sleep mx jrcv args)
    prim_poll s
  = retry_loop rg rp rc sp k s.
Proof.
  intros Hp.
  unfold gen_retry_loop, retry_loop. cbv zeta.
  set (s1 := set_ctx s _).
  apply lift_ext; intros sleep.
  replace (if opt_truth (r_backoff rc)
           then fmt s1 match r_backoff rc with Some v => v | None => VNone end
           else Ok (VStr "fixed"))
    with (if opt_truth (r_backoff rc)
          then match r_backoff rc with Some b => fmt s1 b | None => Ok (VStr "fixed") end
          else Ok (VStr "fixed")) by (destruct (r_backoff rc); reflexivity).
  apply lift_ext; intros bname.
  assert (Tail : forall mx,
    lift (fmt s1 (r_jrc rc)) s1 (fun jrcv =>
    lift (fmt s1 match r_args rc with Some v => v | None => VNone end) s1 (fun args =>
      match mk_interval (jit s1) bname sleep mx jrcv args with
      | Some cb =>
          match r_max rc with
          | Some m =>
              if py_truth m
              then lift (as_int s1 m) s1 (fun mx0 =>
                     match prim_poll cb (Some mx0) (Some mx0) s1 with
                     | (IDone ok, s2) => if ok then (OOk, s2) else raise_new "AssertionError" "" s2
                     | (IRaise o, s2) => (o, s2)
                     end)
              else match prim_poll cb None None s1 with
                   | (IDone ok, s2) => if ok then (OOk, s2) else raise_new "AssertionError" "" s2
                   | (IRaise o, s2) => (o, s2)
                   end
          | None => match prim_poll cb None None s1 with
                    | (IDone ok, s2) => if ok then (OOk, s2) else raise_new "AssertionError" "" s2
                    | (IRaise o, s2) => (o, s2)
                    end
          end
      | None => (OUnsup, s1)
      end))
    = lift (fmt s1 (r_jrc rc)) s1 (fun jrcv =>
      lift (match r_args rc with Some a => fmt s1 a | None => Ok VNone end) s1 (fun args =>
        match mk_interval (jit s1) bname sleep mx jrcv args with
        | None => (OUnsup, s1)
        | Some interval =>
            lift (if opt_truth (r_max rc)
                  then match r_max rc with
                       | Some m => let* z := as_int s1 m in Ok (Some z)
                       | None => Ok None
                       end
                  else Ok None) s1 (fun max =>
            match poll LOOPFUEL (retry_iter rg rp rc sp k max) interval max 0 s1 with
            | (IDone true, s2) => (OOk, s2)
            | (IDone false, s2) => raise_new "AssertionError" "" s2
            | (IRaise o, s2) => (o, s2)
            end)
        end))).
  { intros mx. apply lift_ext; intros jrcv.
    replace (fmt s1 match r_args rc with Some v => v | None => VNone end)
      with (match r_args rc with Some a => fmt s1 a | None => Ok VNone end)
      by (destruct (r_args rc); reflexivity).
    apply lift_ext; intros args.
    destruct (mk_interval (jit s1) bname sleep mx jrcv args) as [cb|]; [|reflexivity].
    destruct (r_max rc) as [m|]; cbn [opt_truth].
    - destruct (py_truth m).
      + rewrite lift_bind_ok. apply lift_ext; intros z. rewrite Hp.
        destruct (poll _ _ _ _ _ _) as [[[|]|o] s2]; reflexivity.
      + cbn [lift]. rewrite Hp. destruct (poll _ _ _ _ _ _) as [[[|]|o] s2]; reflexivity.
    - cbn [lift]. rewrite Hp. destruct (poll _ _ _ _ _ _) as [[[|]|o] s2]; reflexivity. }
  destruct (r_sleepmax rc) as [m|]; cbn [opt_truth].
  - destruct (py_truth m).
    + rewrite lift_bind_ok. apply lift_ext; intros q. apply Tail.
    + cbn [lift]. apply Tail.
  - cbn [lift]. apply Tail.
Qed.

Lemma gen_retry_loop_is_model rg rp rc sp k s :
  gen_retry_loop rc
    (fun s0 bname sleep mx jrcv args => mk_interval (jit s0) bname sleep mx jrcv args)
    (fun interval max_attempts max s0 =>
       poll LOOPFUEL (retry_iter rg rp rc sp k max) interval max_attempts 0 s0) s
  = retry_loop rg rp rc sp k s.
Proof. apply gen_retry_loop_is_model_gen. reflexivity. Qed.

Lemma poll_ext fuel (it it' : Z -> st -> iter_result * st) iv mx i s :
  (forall n s0, it n s0 = it' n s0) -> poll fuel it iv mx i s = poll fuel it' iv mx i s.
Proof.
  intros H. revert i s. induction fuel as [|f IH]; intros i s; [reflexivity|].
  cbn [poll]. rewrite H. destruct (it' (i + 1)%Z s) as [[[|]|o] s1]; try reflexivity.
  destruct (iv (Z.to_nat (i + 1))) as [d|]; [|reflexivity].
  destruct mx as [m|].
  - destruct (Z.eqb m 0); [apply IH|]. destruct (Z.ltb (i + 1) m); [apply IH|reflexivity].
  - apply IH.
Qed.

(** the whole retry stack as read from the source — retry_loop polling exec_iteration through
    while_until_true's sleep_looper — is the model's [retry_loop] *)
Lemma gen_retry_stack_is_model rg rp rc sp k s :
  gen_retry_loop rc
    (fun s0 bname sleep mx jrcv args => mk_interval (jit s0) bname sleep mx jrcv args)
    (fun interval max_attempts max s0 =>
       gen_sleep_looper
         (fun n => gen_retry_exec_iteration rc
                     (fun c => invoke rg rp sp (mkcnt (k_while k) (k_for k) (Some c))) n max)
         true (fun i => interval (Z.to_nat i)) None max_attempts LOOPFUEL s0) s
  = retry_loop rg rp rc sp k s.
Proof.
  apply gen_retry_loop_is_model_gen. intros iv ma mx s0.
  rewrite gen_sleep_looper_is_model. apply poll_ext. intros n s1.
  apply gen_retry_exec_iteration_is_model.
Qed.

(** * pypyr/dsl.py :: WhileDecorator.while_loop *)
Lemma gen_while_loop_is_model_gen rg rp w sp
      (prim_poll : Q -> option Z -> st -> iter_result * st) s :
  (forall sleep mx s0,
     prim_poll sleep mx s0 = poll LOOPFUEL (while_iter rg rp w sp) (fun _ => Some sleep) mx 0 s0) ->
  gen_while_loop w prim_poll s = while_loop rg rp w sp s.
Proof.
  intros Hp. unfold gen_while_loop, while_loop. cbv zeta.
  set (s1 := set_ctx s _).
  assert (Nz : forall z, (z <? 1)%Z = false -> negb (z =? 0)%Z = true).
  { intros z Hz. apply Z.ltb_ge in Hz. destruct (Z.eqb_spec z 0); [lia|reflexivity]. }
  destruct (w_stop w) as [e|], (w_max w) as [m|]; cbn [andb opt_truth]; try reflexivity.
  - (* stop and max *)
    apply lift_ext; intros eom. apply lift_ext; intros sleep.
    rewrite lift_bind_ok. apply lift_ext; intros z.
    destruct (z <? 1)%Z eqn:Hz; [reflexivity|]. rewrite Hp, (Nz z Hz), andb_true_r.
    destruct (poll _ _ _ _ _ _) as [[[|]|o] s2]; reflexivity.
  - (* stop only *)
    apply lift_ext; intros eom. apply lift_ext; intros sleep. cbn [lift].
    rewrite Hp. destruct (poll _ _ _ _ _ _) as [[[|]|o] s2]; try reflexivity.
    destruct eom; [|reflexivity]. now rewrite andb_false_r.
  - (* max only *)
    apply lift_ext; intros eom. apply lift_ext; intros sleep.
    rewrite lift_bind_ok. apply lift_ext; intros z.
    destruct (z <? 1)%Z eqn:Hz; [reflexivity|]. rewrite Hp.
    destruct (poll _ _ _ _ _ _) as [[[|]|o] s2]; reflexivity.
Qed.

Lemma gen_while_loop_is_model rg rp w sp s :
  gen_while_loop w
    (fun sleep max_attempts s0 =>
       poll LOOPFUEL (while_iter rg rp w sp) (fun _ => Some sleep) max_attempts 0 s0) s
  = while_loop rg rp w sp s.
Proof. apply gen_while_loop_is_model_gen. reflexivity. Qed.

(** the whole while stack as read from the source — while_loop polling exec_iteration through
    while_until_true's sleep_looper with a constant interval — is the model's [while_loop] *)
Lemma gen_while_stack_is_model rg rp w sp s :
  gen_while_loop w
    (fun sleep max_attempts s0 =>
       gen_sleep_looper
         (gen_while_exec_iteration w (fun c => foreach_or_cond rg rp sp (mkcnt (Some c) None None)))
         false (fun _ => None) (Some sleep) max_attempts LOOPFUEL s0) s
  = while_loop rg rp w sp s.
Proof.
  apply gen_while_loop_is_model_gen. intros sleep mx s0.
  rewrite (gen_sleep_looper_const_is_model _ (fun _ => Some sleep) mx LOOPFUEL (Some sleep) s0)
    by reflexivity.
  apply poll_ext. intros n s1. apply gen_while_exec_iteration_is_model.
Qed.

(** * pypyr/dsl.py :: Step.save_error *)
Lemma gen_save_error_is_model sp n m e sw s :
  gen_save_error sp (ORaise (RExn n m e)) sw s = save_error sp n m e sw s.
Proof.
  unfold gen_save_error, save_error, opt_truth.
  replace (if match s_onerror sp with Some v => py_truth v | None => false end
           then fmt s match s_onerror sp with Some v => v | None => VNone end
           else Ok (VDict []))
    with (match s_onerror sp with
          | Some oe => if py_truth oe then fmt s oe else Ok (VDict [])
          | None => Ok (VDict [])
          end) by (destruct (s_onerror sp); reflexivity).
  apply lift_ext; intros custom. cbv zeta.
  unfold ctx_list_append, exn_error_name, exn_message, exn_val, error_name.
  destruct (s_pos sp) as [[ln col]|]; cbn [option_map fst snd];
    (destruct (sget "runErrors" (ctx s)) as [[]|]; reflexivity).
Qed.

(** * Closed form: the engine at fuel [S f] is the generated ladder over the engine at fuel [f] —
    no hypothesis on nested behaviours is left (the balanced-stack invariant is proved by
    induction on fuel in EngineProofs) *)
Lemma gen_engine_closed fuel lib names groups success failure s :
  names_of groups = Some names ->
  gen_run_step_groups (run_step (run_groups fuel lib) (run_pipe fuel lib)) (run_groups fuel lib)
                      (pipeline_of lib s) names success failure s
  = run_groups (S fuel) lib groups success failure s.
Proof.
  intros Hn. cbn [run_groups].
  apply (gen_run_step_groups_is_model lib (run_groups fuel lib) (run_pipe fuel lib)); [| |exact Hn].
  - apply good_run_groups.
  - intros n pr gs su fa. apply (proj2 (good_run_groups_pipe fuel lib)).
Qed.
