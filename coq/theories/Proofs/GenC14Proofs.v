(** Proofs/GenC14Proofs.v — Tie B for C14: every definition that tools/py2coq_c14.py generates from
    the current pypyr source (Gen/GenC14.v) is the hand-written model (Model/PyScope.v), for all
    inputs.  An edit to the translated functions changes or removes the generated definitions and
    these lemmas stop compiling. *)
From PV Require Import PyScope PyScopeProofs GenC14.
Open Scope string_scope.

(** * Context.pystring_globals_update = dict.update of the imports namespace with the WHOLE argument *)
Lemma gen_globals_update_is_ns_update other s :
  gen_pystring_globals_update other s
  = (set_imps (ns_update (imps s) other) s, length (ns_update (imps s) other)).
Proof. reflexivity. Qed.

(** pypyr.steps.pyimport.run_step hands over exactly what the import statements produced: one
    AImport step of the model's [run_session] *)
Lemma gen_pyimport_step_is_model namespace s :
  gen_pyimport_step namespace s = set_imps (ns_update (imps s) namespace) s.
Proof. reflexivity. Qed.

Lemma gen_pyimport_step_is_session mt b blk r s :
  run_session mt b (AImport blk :: r) s
  = match pyimport_ns mt blk [] (loaded s) with
    | Some (stepns, ld) => run_session mt b r (set_loaded ld (gen_pyimport_step stepns s))
    | None => None
    end.
Proof. reflexivity. Qed.

(** * Context.get_eval_string: one namespace object, built by this call, maps [fresh; context; imports] *)
Lemma gen_eval_maps_is_model : gen_eval_maps = [MFresh; MCtx; MImps].
Proof. reflexivity. Qed.

Lemma gen_eval_one_namespace_true : gen_eval_one_namespace = true.
Proof. reflexivity. Qed.

Lemma gen_eval_empty_raises_true : gen_eval_empty_raises = true.
Proof. reflexivity. Qed.

(** lookups through the generated chain are the model's [chain_get] ... *)
Lemma gen_chain_lookup_is_chain_get x s : chain_lookup gen_eval_maps x s = chain_get x s.
Proof.
  unfold chain_get. simpl.
  destruct (ns_get x (scr s)); [reflexivity|]. destruct (ns_get x (ctx s)); [reflexivity|].
  destruct (ns_get x (imps s)); reflexivity.
Qed.

(** ... a STORE_NAME through it is the model's [store_name] for the eval namespace: it lands in the
    scratch map ... *)
Lemma gen_chain_store_is_store_name E x v s :
  gk E = GChain -> cls E = false ->
  store_name E x v s = (match chain_store gen_eval_maps x v s with Some s' => (Ok tt, s') | None => (Unsup, s) end).
Proof. intros G C. unfold store_name. rewrite C, G. reflexivity. Qed.

(** ... and the first map is a dict literal of this very call: the model starts every evaluation from
    an empty scratch map ([fresh_namespace]) *)
Lemma gen_eval_first_map_fresh : hd_error gen_eval_maps = Some MFresh.
Proof. reflexivity. Qed.

Lemma fresh_namespace_scratch_empty s : map_of MFresh (fresh_namespace s) = [] /\ nsd (fresh_namespace s) = [].
Proof. split; reflexivity. Qed.

(** * class _ChainMapPretendDict: a ChainMap first, a dict second, and nothing overridden but __init__,
    which stores __builtins__ in the dict part and hands the maps to ChainMap *)
Lemma gen_namespace_class_is_model :
  gen_namespace_bases = ["ChainMap"; "dict"]
  /\ gen_namespace_methods = ["__init__"]
  /\ gen_namespace_init = ["dict.__setitem__(self, '__builtins__', builtins.__dict__)"; "super().__init__(*maps)"].
Proof. repeat split; reflexivity. Qed.

(** * pypyr.steps.py: the exec namespace and save *)
Lemma gen_exec_globals_is_model c : gen_exec_globals c = exec_globals c.
Proof. reflexivity. Qed.

Lemma gen_save_error_is_model x : gen_save_error x = save_error x.
Proof. reflexivity. Qed.

Lemma gen_save_loop_is_collect names : forall gl d, gen_save_loop names gl d = collect_saved names gl d.
Proof.
  induction names as [|x r IH]; intros gl d; simpl; [reflexivity|].
  destruct (ns_get x gl); [apply IH|reflexivity].
Qed.

Lemma gen_save_is_do_save names kvs s : gen_save names kvs s = do_save names kvs s.
Proof.
  unfold gen_save, do_save. rewrite gen_save_loop_is_collect.
  destruct (collect_saved names (g s) []); [now rewrite gen_save_error_is_model|reflexivity].
Qed.
