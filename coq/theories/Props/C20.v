(** Props/C20.v — placeholder, to be written. *)
