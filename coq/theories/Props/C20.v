(** Props/C20.v — configuration precedence and merge.

    Vocabulary (Model/Config.v): [e : env] is the set of relevant environment variables
    (any of them set or unset), [fs : fsys] an ARBITRARY file system — so every subset of
    the config locations that exist and every assignment of settings to those files —,
    [init e fs c] is [Config.init] run on the Config object [c] ([defaults e] for a fresh
    one).  [precedence e fs] lists the consulted locations with what each file says,
    highest precedence first: local file, ./pyproject.toml [tool.pypyr], then either
    $PYPYR_CONFIG_GLOBAL alone or the user file followed by the common directories in
    listed order (last-listed lowest).  [first_setting says l] is what the first
    (= highest-precedence) payload of [l] that says anything says. *)
From PV Require Import Config ConfigProofs GenC20 GenC20Proofs.
Open Scope string_scope.

(** Each scalar setting = the value in the highest-precedence file that sets it, else
    what the object had before (the default). *)
Theorem C20_scalar_highest_wins : forall e fs c c' s,
  skip_requested e = false -> init e fs c = COk c' -> In s scalar_props ->
  setting s c' =
  or_else (first_setting (file_sets (VStr s)) (map snd (precedence e fs))) (setting s c).
Proof. exact init_scalar. Qed.
Print Assumptions C20_scalar_highest_wins.

(** vars and shortcuts: key-wise union with the same precedence — for EVERY key [k] (of
    any type), the entry is the one of the highest-precedence file whose vars (shortcuts)
    mapping has [k]; a key no file has is absent (or the pre-existing entry). *)
Theorem C20_dict_union_precedence : forall e fs c c' k,
  skip_requested e = false -> init e fs c = COk c' ->
  dict_get k (c_vars c') =
    or_else (first_setting (file_sets_in "vars" k) (map snd (precedence e fs)))
            (dict_get k (c_vars c))
  /\
  dict_get k (c_shortcuts c') =
    or_else (first_setting (file_sets_in "shortcuts" k) (map snd (precedence e fs)))
            (dict_get k (c_shortcuts c)).
Proof. intros; split; [eapply init_vars|eapply init_shortcuts]; eauto. Qed.
Print Assumptions C20_dict_union_precedence.

(** The order itself, both ways round. *)
Theorem C20_precedence_order : forall e fs,
  (forall g, global_path e = Some g ->
     precedence e fs = [(local_name e, payload_at fs (local_name e));
                        (pyproject_name, pyproject_payload fs);
                        (g, payload_at fs g)])
  /\
  (global_path e = None ->
     precedence e fs = (local_name e, payload_at fs (local_name e)) ::
                       (pyproject_name, pyproject_payload fs) ::
                       (user_path e, payload_at fs (user_path e)) ::
                       map (fun p => (p, payload_at fs p)) (common_paths e)).
Proof. intros; split; [intros; apply precedence_global; assumption|apply precedence_no_global]. Qed.
Print Assumptions C20_precedence_order.

(** Repeated paths.  Nothing above assumes the consulted paths are distinct: [e] is
    arbitrary, so $XDG_CONFIG_DIRS may list a directory twice (A:B:A) and
    $XDG_CONFIG_HOME may equal a common directory; [precedence] then has the same file at
    several POSITIONS and every position is loaded, the later load winning.  Spelled out:
    whatever the highest position that sets a key says is the effective value, for ANY
    lower part [lo] of the list (which may contain the same path again, or any other
    file setting the same key) — first-listed common dir above the other common dirs, the
    user file above all of them. *)
Theorem C20_highest_position_wins : forall e fs c c' hi path v lo,
  skip_requested e = false -> init e fs c = COk c' ->
  precedence e fs = (hi ++ (path, v) :: lo)%list ->
  (forall s x, In s scalar_props ->
     (forall q, In q hi -> file_sets (VStr s) (snd q) = None) ->
     file_sets (VStr s) v = Some x -> setting s c' = Some x)
  /\ (forall k x,
     (forall q, In q hi -> file_sets_in "vars" k (snd q) = None) ->
     file_sets_in "vars" k v = Some x -> dict_get k (c_vars c') = Some x)
  /\ (forall k x,
     (forall q, In q hi -> file_sets_in "shortcuts" k (snd q) = None) ->
     file_sets_in "shortcuts" k v = Some x -> dict_get k (c_shortcuts c') = Some x).
Proof. exact init_highest_position_wins. Qed.
Print Assumptions C20_highest_position_wins.

(** [config_loaded_paths] gains one entry per consulted position whose file is a
    non-empty mapping, in load order (lowest precedence first) — a path consulted twice
    is loaded twice and listed twice. *)
Theorem C20_loaded_paths : forall e fs c c',
  skip_requested e = false -> init e fs c = COk c' ->
  c_loaded c' = (c_loaded c ++ loaded_of (rev (precedence e fs)))%list.
Proof. exact init_loaded. Qed.
Print Assumptions C20_loaded_paths.

(** Files every clause accepts are accepted: [init] does return a configuration (so the
    two theorems above are not vacuous for any such file set). *)
Theorem C20_wellformed_accepted : forall e fs c,
  skip_requested e = false ->
  (forall g, global_path e = Some g -> fs g <> Absent) ->
  pyproject_wellformed fs = true ->
  (forall path v, In (path, v) (precedence e fs) -> payload_wellformed v = true) ->
  exists c', init e fs c = COk c'.
Proof. exact init_wf. Qed.
Print Assumptions C20_wellformed_accepted.

(** An unknown setting is rejected: the file itself raises the config error naming exactly
    the unknown keys, whatever the configuration so far ... *)
Theorem C20_unknown_rejected_file : forall c path d,
  (exists k, In k (dict_keys d) /\ is_known k = false) ->
  handle_payload c path (VDict d) = CErr (EUnknownProps (unknown_keys d))
  /\ is_config_error (EUnknownProps (unknown_keys d)) = true
  /\ unknown_keys d <> []
  /\ (forall k, In k (unknown_keys d) <-> In k (dict_keys d) /\ is_known k = false).
Proof.
  intros c path d H. destruct (handle_payload_unknown c path d H) as (A & B & C).
  split; [exact A|split; [reflexivity|split; [exact B|exact C]]].
Qed.
Print Assumptions C20_unknown_rejected_file.

(** ... and [init] never returns a configuration when any consulted file has one. *)
Theorem C20_unknown_rejected : forall e fs c path d k,
  skip_requested e = false ->
  In (path, VDict d) (precedence e fs) -> In k (dict_keys d) -> is_known k = false ->
  forall c', init e fs c <> COk c'.
Proof. exact init_unknown_rejected. Qed.
Print Assumptions C20_unknown_rejected.

(** A non-mapping file is rejected with a config error — at full strength: EVERY payload
    that is not a mapping, truthy or falsy ([[1]], [3], ['abc'], but also [[]], [0],
    [false], ['']), in any consulted location (common / user / global file, the
    [tool.pypyr] value, the local file) raises the not-a-mapping config error naming the
    file, whatever the configuration so far, and [init] never returns a configuration.
    ([VNone] = no file, or an empty yaml document, which has no top-level node at all.) *)
Theorem C20_nonmapping_rejected :
  (forall c path v, is_mapping v = false -> v <> VNone ->
     handle_payload c path v = CErr (ENotMapping path)
     /\ is_config_error (ENotMapping path) = true)
  /\
  (forall e fs c path v,
     skip_requested e = false ->
     In (path, v) (precedence e fs) -> is_mapping v = false -> v <> VNone ->
     forall c', init e fs c <> COk c').
Proof.
  split; [intros; split; [apply handle_payload_nonmapping; assumption|reflexivity]
         |exact init_nonmapping_rejected].
Qed.
Print Assumptions C20_nonmapping_rejected.

Definition env0 : env :=
  mkEnv None None None (Some "/SB/c1:/SB/c2") (Some "/SB/u") "/SB/home" None None None.

(** $PYPYR_CONFIG_GLOBAL, when set (non-empty), replaces the common and user files: the
    outcome depends on the file system only through the global file, ./pyproject.toml and
    the local file — whatever exists in the common and user locations is irrelevant. *)
Theorem C20_global_replaces : forall e fs1 fs2 c g,
  global_path e = Some g ->
  fs1 g = fs2 g -> fs1 pyproject_name = fs2 pyproject_name ->
  fs1 (local_name e) = fs2 (local_name e) ->
  init e fs1 c = init e fs2 c.
Proof. exact init_global_replaces. Qed.
Print Assumptions C20_global_replaces.

(** ... and must exist. *)
Theorem C20_global_must_exist : forall e fs c g,
  skip_requested e = false -> global_path e = Some g -> fs g = Absent ->
  init e fs c = CErr (ENotFound g) /\ is_config_error (ENotFound g) = true.
Proof. intros; split; [apply init_global_must_exist; assumption|reflexivity]. Qed.
Print Assumptions C20_global_must_exist.

(** $PYPYR_SKIP_INIT skips all file look-ups: for every file system the result is the
    object as it was, with only [skip_init] raised. *)
Theorem C20_skip_init : forall e fs c,
  skip_requested e = true ->
  init e fs c = COk (with_skip c)
  /\ c_scalars (with_skip c) = c_scalars c
  /\ c_vars (with_skip c) = c_vars c
  /\ c_shortcuts (with_skip c) = c_shortcuts c
  /\ c_loaded (with_skip c) = c_loaded c.
Proof. intros; split; [apply init_skip; assumption|repeat split]. Qed.
Print Assumptions C20_skip_init.

(** * Tie B: the model is what the current source says.
    [gen_*] (Gen/GenC20.v) are regenerated from pypyr/config.py and pypyr/platform.py before
    every build; [model_prims fs] supplies the model's file reads and attribute updates for the
    primitives the translator leaves abstract; [lift] forgets the unit result. *)

(** [Config.all_writable_props], [dict_props], [scalar_props] *)
Theorem C20_source_props_is_model :
  gen_scalar_props = scalar_props /\ gen_dict_props = dict_props
  /\ forall k, match k with VStr x => str_in x gen_all_writable_props | _ => false end = is_known k.
Proof. exact (conj gen_scalar_props_is_model (conj gen_dict_props_is_model gen_all_writable_props_is_model)). Qed.
Print Assumptions C20_source_props_is_model.

(** [Config.update]: unknown keys rejected, dict props key-wise updated, scalars overwritten *)
Theorem C20_source_update_is_model : forall fs d c,
  gen_update (model_prims fs) (VDict d) c = lift (update c d).
Proof. exact gen_update_is_model. Qed.
Print Assumptions C20_source_update_is_model.

(** [Config.load_yaml], [Config.load_pyproject_toml] *)
Theorem C20_source_load_yaml_is_model : forall fs path raise c,
  gen_load_yaml (model_prims fs) path raise c = with_ok (load_yaml fs path raise) c.
Proof. exact gen_load_yaml_is_model. Qed.
Print Assumptions C20_source_load_yaml_is_model.

Theorem C20_source_load_pyproject_toml_is_model : forall fs path c,
  gen_load_pyproject_toml (model_prims fs) path false c = load_pyproject fs c path.
Proof. exact gen_load_pyproject_toml_is_model. Qed.
Print Assumptions C20_source_load_pyproject_toml_is_model.

(** [Config.handle_path]: which payloads are skipped, rejected, merged and listed *)
Theorem C20_source_handle_path_is_model : forall fs path c,
  (forall raise, gen_handle_path (model_prims fs) path None raise c = lift (handle_yaml fs c path raise))
  /\ gen_handle_path (model_prims fs) path (Some (gen_load_pyproject_toml (model_prims fs))) false c
     = lift (handle_pyproject fs c path).
Proof.
  exact (fun fs path c => conj (fun raise => gen_handle_path_yaml_is_model fs path raise c)
                               (gen_handle_path_pyproject_is_model fs path c)).
Qed.
Print Assumptions C20_source_handle_path_is_model.

(** the XDG rules of pypyr.platform: user file and common files, in listed order *)
Theorem C20_source_platform_paths_is_model : forall e,
  gen_get_platform_paths e "pypyr" "config.yaml" = (user_path e, common_paths e).
Proof. exact gen_get_platform_paths_is_model. Qed.
Print Assumptions C20_source_platform_paths_is_model.

(** [Config.init]: skip, global override, and the ORDER of the locations *)
Theorem C20_source_init_is_model : forall fs e c,
  gen_init (model_prims fs) e c = lift (init e fs c).
Proof. exact gen_init_is_model. Qed.
Print Assumptions C20_source_init_is_model.

(** * Non-vacuity: concrete file sets run through [init] (evaluated) *)
Definition y (l : list (string * val)) : val := VDict (map (fun kv => (VStr (fst kv), snd kv)) l).

Definition fs_all : fsys := fs_of_list
  [ ("/SB/c1/pypyr/config.yaml",
       y [("default_group", VStr "c1"); ("json_indent", VInt 1);
          ("vars", y [("a", VStr "c1"); ("b", VStr "c1")])]);
    ("/SB/c2/pypyr/config.yaml",
       y [("default_group", VStr "c2"); ("default_backoff", VStr "c2"); ("json_indent", VInt 9);
          ("vars", y [("a", VStr "c2"); ("c", VStr "c2")])]);
    ("/SB/u/pypyr/config.yaml",
       y [("default_backoff", VStr "u"); ("vars", y [("a", VStr "u")]);
          ("shortcuts", y [("s", y [("pipeline_name", VStr "u")])])]);
    ("pyproject.toml",
       y [("project", y [("name", VStr "x")]);
          ("tool", y [("pypyr", y [("default_group", VStr "toml"); ("vars", y [("t", VInt 1)])])])]);
    ("pypyr-config.yaml",
       y [("default_loader", VStr "local"); ("vars", y [("b", VStr "local")])]);
    ("/SB/g.yaml", y [("json_indent", VInt 4)]) ].

Definition env_global : env :=
  mkEnv None (Some "/SB/g.yaml") None (Some "/SB/c1:/SB/c2") (Some "/SB/u") "/SB/home" None None None.
Definition env_skip : env :=
  mkEnv (Some "TRUE") None None (Some "/SB/c1:/SB/c2") (Some "/SB/u") "/SB/home" None None None.

Definition look_all (c : cres config) (s : string) : option val :=
  match c with COk c => setting s c | _ => None end.
Definition look_var (c : cres config) (k : string) : option val :=
  match c with COk c => dict_get (VStr k) (c_vars c) | _ => None end.

Example C20_precedence_nonvacuous :
  let r := init env0 fs_all (defaults env0) in
  skip_requested env0 = false
  /\ (exists c', r = COk c')
  /\ look_all r "default_group" = Some (VStr "toml")       (* pyproject beats c1, c2 *)
  /\ look_all r "default_backoff" = Some (VStr "u")        (* user beats c2 *)
  /\ look_all r "json_indent" = Some (VInt 1)              (* first-listed common beats last-listed *)
  /\ look_all r "default_loader" = Some (VStr "local")
  /\ look_all r "default_failure_group" = Some (VStr "on_failure")   (* nobody sets it *)
  /\ look_var r "a" = Some (VStr "u") /\ look_var r "b" = Some (VStr "local")
  /\ look_var r "c" = Some (VStr "c2") /\ look_var r "t" = Some (VInt 1)
  /\ look_var r "zz" = None
  /\ pyproject_wellformed fs_all = true
  /\ forallb (fun pv => payload_wellformed (snd pv)) (precedence env0 fs_all) = true.
Proof. vm_compute. repeat split. eexists; reflexivity. Qed.

Example C20_global_nonvacuous :
  let r := init env_global fs_all (defaults env_global) in
  global_path env_global = Some "/SB/g.yaml"
  /\ look_all r "json_indent" = Some (VInt 4)
  /\ look_all r "default_backoff" = Some (VStr "fixed")    (* user and common files not read *)
  /\ look_all r "default_group" = Some (VStr "toml")
  /\ look_var r "a" = None /\ look_var r "b" = Some (VStr "local")
  /\ init env_global (fs_of_list []) (defaults env_global) = CErr (ENotFound "/SB/g.yaml").
Proof. vm_compute. repeat split. Qed.

Example C20_skip_nonvacuous :
  skip_requested env_skip = true
  /\ init env_skip fs_all (defaults env_skip) = COk (with_skip (defaults env_skip)).
Proof. vm_compute. split; reflexivity. Qed.

Example C20_rejections_nonvacuous :
  init env0 (fs_of_list [("/SB/c2/pypyr/config.yaml", y [("default_group", VStr "x"); ("bogus", VInt 1)])])
       (defaults env0) = CErr (EUnknownProps [VStr "bogus"])
  /\ init env0 (fs_of_list [("/SB/u/pypyr/config.yaml", VList [VInt 1])]) (defaults env0)
     = CErr (ENotMapping "/SB/u/pypyr/config.yaml")
  /\ init env0 (fs_of_list [("pyproject.toml", y [("tool", y [("pypyr", VInt 3)])])]) (defaults env0)
     = CErr (ENotMapping "pyproject.toml")
  (* the falsy ones: [], 0, false, '' *)
  /\ init env0 (fs_of_list [("pypyr-config.yaml", VList [])]) (defaults env0)
     = CErr (ENotMapping "pypyr-config.yaml")
  /\ init env0 (fs_of_list [("/SB/u/pypyr/config.yaml", VInt 0)]) (defaults env0)
     = CErr (ENotMapping "/SB/u/pypyr/config.yaml")
  /\ init env0 (fs_of_list [("pyproject.toml", y [("tool", y [("pypyr", VBool false)])])]) (defaults env0)
     = CErr (ENotMapping "pyproject.toml")
  /\ init env_global (fs_of_list [("/SB/g.yaml", VStr "")]) (defaults env_global)
     = CErr (ENotMapping "/SB/g.yaml")
  /\ In ("pypyr-config.yaml", VList []) (precedence env0 (fs_of_list [("pypyr-config.yaml", VList [])]))
  (* empty file and empty mapping: accepted, nothing merged, nothing listed as loaded *)
  /\ init env0 (fs_of_list [("pypyr-config.yaml", VNone); ("/SB/u/pypyr/config.yaml", VDict [])])
          (defaults env0)
     = COk (with_paths (defaults env0) (user_path env0) (common_paths env0))
  /\ is_known (VStr "bogus") = false /\ is_mapping (VList []) = false.
Proof. vm_compute. repeat split. left; reflexivity. Qed.

(** repeated paths: XDG_CONFIG_DIRS = c1:c2:c1 (c1 first-listed, so it beats c2 although it
    is also listed last), and XDG_CONFIG_HOME = a common dir (the user file beats c1) *)
Definition env_aba : env :=
  mkEnv None None None (Some "/SB/c1:/SB/c2:/SB/c1") (Some "/SB/u") "/SB/home" None None None.
Definition env_user_is_c2 : env :=
  mkEnv None None None (Some "/SB/c1:/SB/c2") (Some "/SB/c2") "/SB/home" None None None.
Definition fs_two : fsys := fs_of_list
  [ ("/SB/c1/pypyr/config.yaml",
       y [("default_group", VStr "c1"); ("vars", y [("a", VStr "c1")]);
          ("shortcuts", y [("s1", VStr "c1")])]);
    ("/SB/c2/pypyr/config.yaml",
       y [("default_group", VStr "c2"); ("vars", y [("a", VStr "c2")]);
          ("shortcuts", y [("s1", VStr "c2")])]) ].
Definition loaded (c : cres config) : list string :=
  match c with COk c => c_loaded c | _ => [] end.

Example C20_repeated_paths_nonvacuous :
  let r := init env_aba fs_two (defaults env_aba) in
  let r2 := init env_user_is_c2 fs_two (defaults env_user_is_c2) in
  map fst (precedence env_aba fs_two) =
    ["pypyr-config.yaml"; "pyproject.toml"; "/SB/u/pypyr/config.yaml";
     "/SB/c1/pypyr/config.yaml"; "/SB/c2/pypyr/config.yaml"; "/SB/c1/pypyr/config.yaml"]
  /\ look_all r "default_group" = Some (VStr "c1") /\ look_var r "a" = Some (VStr "c1")
  /\ loaded r = ["/SB/c1/pypyr/config.yaml"; "/SB/c2/pypyr/config.yaml"; "/SB/c1/pypyr/config.yaml"]
  /\ user_path env_user_is_c2 = "/SB/c2/pypyr/config.yaml"
  /\ look_all r2 "default_group" = Some (VStr "c2") /\ look_var r2 "a" = Some (VStr "c2")
  /\ loaded r2 = ["/SB/c2/pypyr/config.yaml"; "/SB/c1/pypyr/config.yaml"; "/SB/c2/pypyr/config.yaml"].
Proof. vm_compute. repeat split. Qed.
