(** Props/C03.v — placeholder, to be written. *)
