(** Props/C03.v — call returns to its caller, jump does not, switch takes the first true case. *)
From PV Require Import Engine EngineProofs Ctl Control CtlProofs.
Open Scope string_scope.
Notation RG := (list val -> option string -> option string -> st -> R).
Notation RP := (string -> option (list string) -> option (list val) -> option string -> option string -> st -> R).

(** call runs the named groups (with their own handlers) to completion, then execution
    resumes right after the calling step: [OOk] lets the enclosing loops/steps continue
    (C01_steps_in_order, C05_foreach_in_order) *)
Theorem C03_call_resumes : forall (rg : RG) (rp : RP) sp k s c s1,
  run_body rp sp s = (ORaise (RSig (SCall c)), s1) ->
  invoke rg rp sp k s =
  (let '(o, s2) := rg (c_groups c) (c_success c) (c_failure c) s1 in
   let s3 := reset_counters sp k c s2 in
   match o with
   | OOk => (OOk, s3)
   | ORaise (RSig sg) => (ORaise (RSig sg), s3)
   | ORaise r => (OHandled r, s3)
   | OHandled _ => (OUnsup, s3)
   | OUnsup => (OUnsup, s3)
   end).
Proof. exact invoke_call. Qed.
Print Assumptions C03_call_resumes.

(** whatever the called groups did to the counter keys — overwritten through loops and calls
    of their own to any depth, or removed — for EVERY state [s] they left behind, the
    caller's own counters are back in context ... *)
Theorem C03_reset_restores : forall sp k c s,
  c_key c <> "whileCounter" -> c_key c <> "i" -> c_key c <> "retryCounter" ->
  (forall w n, s_while sp = Some w -> k_while k = Some n ->
               sget "whileCounter" (ctx (reset_counters sp k c s)) = Some (VInt n)) /\
  (forall v, has_foreach sp = true -> k_for k = Some v ->
             sget "i" (ctx (reset_counters sp k c s)) = Some v) /\
  (forall r n, s_retry sp = Some r -> k_retry k = Some n ->
               sget "retryCounter" (ctx (reset_counters sp k c s)) = Some (VInt n)).
Proof. exact reset_counters_all. Qed.
Print Assumptions C03_reset_restores.

(** ... and so is the caller's own call / switch configuration object ... *)
Theorem C03_reset_restores_config : forall sp k c s,
  sget (c_key c) (ctx (reset_counters sp k c s)) = Some (c_orig c).
Proof. exact reset_counters_key. Qed.
Print Assumptions C03_reset_restores_config.

(** ... and nothing else is touched *)
Theorem C03_reset_frame : forall sp k c s key,
  key <> "whileCounter" -> key <> "i" -> key <> "retryCounter" -> key <> c_key c ->
  sget key (ctx (reset_counters sp k c s)) = sget key (ctx s).
Proof. exact reset_counters_frame. Qed.
Print Assumptions C03_reset_frame.

(** jump abandons the remaining steps of its group and runs the target groups instead *)
Theorem C03_jump_abandons : forall lib (rg : RG) (rp : RP) g b s s1 c,
  run_steps rg rp (get_steps lib g s) s = (ORaise (RSig (SJump c)), s1) ->
  run_group lib rg rp g b s = rg (c_groups c) (c_success c) (c_failure c) s1.
Proof. exact run_group_jump. Qed.
Print Assumptions C03_jump_abandons.

Theorem C03_jump_rest_never_runs : forall (rg : RG) (rp : RP) pre sp post s s1 o s2,
  run_steps rg rp pre s = (OOk, s1) -> run_step rg rp sp s1 = (o, s2) -> o <> OOk ->
  run_steps rg rp (pre ++ sp :: post) s = (o, s2).
Proof. exact run_steps_stops_at. Qed.
Print Assumptions C03_jump_rest_never_runs.

(** switch: the first case whose expression is true — all earlier ones false — is taken and
    nothing after it is looked at, for any number of cases *)
Theorem C03_switch_first_true : forall s pre v call post idx last,
  Forall (fun x => exists cl, plain_case s x false cl) pre ->
  plain_case s v true call ->
  switch_select s (pre ++ v :: post) idx last = Ok (Some call).
Proof. exact switch_select_first_true. Qed.
Print Assumptions C03_switch_first_true.

(** no case true and no default: nothing is called *)
Theorem C03_switch_none : forall s cases idx last,
  Forall (fun x => exists cl, plain_case s x false cl) cases ->
  switch_select s cases idx last = Ok None.
Proof. exact switch_select_all_false. Qed.
Print Assumptions C03_switch_none.

(** default is honoured in last position *)
Theorem C03_switch_default : forall s c idx d,
  sget "default" c = Some d -> d <> VNone ->
  switch_select s [VDict c] idx idx = Ok (Some d).
Proof. exact switch_select_default. Qed.
Print Assumptions C03_switch_default.

(** * Tie B: the call layer read from the source ([Step.invoke_step], pypyr/dsl.py): the caller's
    counters and call config are restored in a [finally], i.e. on every way out of the called
    groups — normal completion, error, instruction — before the outcome is passed on. *)
Theorem C03_source_invoke_is_model : forall (rg : RG) (rp : RP) sp k s,
  gen_invoke_step (run_body rp sp) rg (reset_prim sp k) s = invoke rg rp sp k s.
Proof. exact gen_invoke_step_is_model. Qed.
Print Assumptions C03_source_invoke_is_model.

(** ... and that restore itself ([Step.reset_context_counters], read from the source): every
    counter of a loop decorator the caller carries is written back from the caller's own loop state
    ([i] whatever the item's value — the test is on the foreach decorator, not on the item), and the
    caller's call / switch config object is put back under its key.  Hypotheses: [a is b] implies
    [a == b]; the method's own [assert call.original_config[1]]; the caller's loops are running. *)
Theorem C03_source_counters_restore_is_model : forall sp k (same : val -> val -> bool) c s,
  (forall a b, same a b = true -> a = b) ->
  py_truth (c_orig c) = true ->
  live sp k ->
  gen_reset_context_counters sp k same (ORaise (RSig (SCall c))) s = (OOk, reset_counters sp k c s).
Proof. exact gen_reset_context_counters_is_model. Qed.
Print Assumptions C03_source_counters_restore_is_model.

(** the hypotheses are met by a caller under while + foreach (falsy current item) + retry *)
Example C03_restore_live :
  let sp := mkstep "pypyr.steps.call" BCall (Some [(VStr "call", VStr "callee")])
                   (Some (VList [VNone; VInt 0]))
                   (Some (mkw (Some (VInt 2)) None (VInt 0) (VBool false))) None
                   (VBool true) (VBool false) (VBool false) None (Some (1, 5)%Z) None in
  let k := mkcnt (Some 1%Z) (Some VNone) None in
  let c := mkcof [VStr "callee"] None None "call" (VStr "callee") in
  live sp k /\ py_truth (c_orig c) = true /\
  sget "i" (ctx (reset_counters sp k c
       (mkst [(VStr "i", VStr "q")] [] [] [] 0%Z 0%Q))) = Some VNone.
Proof. repeat split; try discriminate; intros H; try discriminate; now elim H. Qed.

(** * Non-vacuity: caller under foreach + while; callee loops and wipes the counters *)
Definition P (tag : string) (fe : option val) (inn : dict) (b : body) (nm : string) : step :=
  mkstep nm b (Some ((VStr "ptag", VStr tag) :: inn)) fe None None
         (VBool true) (VBool false) (VBool false) None (Some (1, 5)%Z) None.
Definition lib3 : library :=
  [("main", [("steps", Some [
      mkstep "pypyr.steps.call" BCall (Some [(VStr "call", VStr "callee")])
             (Some (VList [VStr "a"; VStr "b"]))
             (Some (mkw (Some (VInt 2)) None (VInt 0) (VBool false))) None
             (VBool true) (VBool false) (VBool false) None (Some (1, 5)%Z) None;
      P "after" None [] BProbe "vprobe"]);
    ("callee", Some [
      P "in-callee" (Some (VList [VInt 7; VInt 8])) [] BProbe "vprobe";
      P "wipe" None [(VStr "contextClear", VList [VStr "i"; VStr "whileCounter"; VStr "call"])]
        BClear "pypyr.steps.contextclear"])])].

Example C03_nonvacuous :
  let r := api_run EFUEL lib3 "main" [] None None None (1 # 4) in
  fst r = OOk /\ List.length (trace (snd r)) = 9%nat /\
  sget "i" (ctx (snd r)) = Some (VStr "b") /\ sget "whileCounter" (ctx (snd r)) = Some (VInt 2).
Proof. vm_compute. repeat split; reflexivity. Qed.
