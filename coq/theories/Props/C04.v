(** Props/C04.v — run/skip/swallow decide execution per iteration; in-arguments are step-scoped. *)
From PV Require Import Engine EngineProofs Leaves GenProofs Ctl Control CtlProofs.
Open Scope string_scope.
Notation RG := (list val -> option string -> option string -> st -> R).
Notation RP := (string -> option (list string) -> option (list val) -> option string -> option string -> st -> R).

(** [cond] is what runs at each execution (each foreach item, each while iteration): the
    decorators are evaluated against the context of THAT moment *)
Theorem C04_run_false_skips_body : forall (rg : RG) (rp : RP) sp k s,
  as_bool s (s_run sp) = Ok false -> cond rg rp sp k s = (OOk, s).
Proof. exact cond_run_false. Qed.
Print Assumptions C04_run_false_skips_body.

Theorem C04_skip_true_skips_body : forall (rg : RG) (rp : RP) sp k s,
  as_bool s (s_run sp) = Ok true -> as_bool s (s_skip sp) = Ok true -> cond rg rp sp k s = (OOk, s).
Proof. exact cond_skip_true. Qed.
Print Assumptions C04_skip_true_skips_body.

(** run true and skip false: the body (under retry, if any) executes, and its outcome is
    routed by swallow *)
Theorem C04_body_executes : forall (rg : RG) (rp : RP) sp k s,
  as_bool s (s_run sp) = Ok true -> as_bool s (s_skip sp) = Ok false ->
  cond rg rp sp k s =
  match inner rg rp sp k s with
  | (ORaise (RExn name msg eid), s1) =>
      lift (as_bool s1 (s_swallow sp)) s1 (fun swallow =>
      andthen (save_error sp name msg eid swallow s1) (fun s2 =>
      if swallow then (OOk, s2) else (ORaise (RExn name msg eid), s2)))
  | (OHandled cause, s1) =>
      lift (as_bool s1 (s_swallow sp)) s1 (fun swallow =>
      if swallow then (OOk, s1) else (ORaise cause, s1))
  | r => r
  end.
Proof. exact cond_exec. Qed.
Print Assumptions C04_body_executes.

(** swallow true: the error is suppressed and the pipeline continues ([OOk]);
    otherwise it propagates; either way it is recorded first *)
Theorem C04_swallow : forall (rg : RG) (rp : RP) sp k s name msg eid s1 swallow,
  as_bool s (s_run sp) = Ok true -> as_bool s (s_skip sp) = Ok false ->
  inner rg rp sp k s = (ORaise (RExn name msg eid), s1) ->
  as_bool s1 (s_swallow sp) = Ok swallow ->
  cond rg rp sp k s =
  andthen (save_error sp name msg eid swallow s1) (fun s2 =>
    if swallow then (OOk, s2) else (ORaise (RExn name msg eid), s2)).
Proof. exact cond_error. Qed.
Print Assumptions C04_swallow.

(** the truth rule: strings are true only for case-insensitive 'true', '1', '1.0' ... *)
Theorem C04_truth_rule_strings : forall x,
  cast_str_to_bool x = true <-> lower x = "true" \/ lower x = "1" \/ lower x = "1.0".
Proof. exact cast_str_to_bool_spec. Qed.
Print Assumptions C04_truth_rule_strings.

Theorem C04_truth_rule_formatted : forall s x r,
  fmt s (VStr x) = Ok r ->
  as_bool s (VStr x) = Ok (match r with
                           | VBool b => b
                           | VStr y => cast_str_to_bool y
                           | _ => py_truth r
                           end).
Proof. exact as_bool_str. Qed.
Print Assumptions C04_truth_rule_formatted.

(** ... everything else by Python truthiness *)
Theorem C04_truth_rule_other : forall s v,
  (forall x, v <> VStr x) -> (forall x e, v <> VPy x e) -> (forall x, v <> VSic x) ->
  (forall x, v <> VJsonify x) -> as_bool s v = Ok (py_truth v).
Proof. exact as_bool_plain. Qed.
Print Assumptions C04_truth_rule_other.

Theorem C04_truth_rule_py : forall s src e r,
  fmt s (VPy src e) = Ok r -> as_bool s (VPy src e) = Ok (py_truth r).
Proof. exact as_bool_py. Qed.
Print Assumptions C04_truth_rule_py.

(** Tie B: the string rule and the cast used above are the ones GENERATED from the current
    source of pypyr/utils/types.py (cast_str_to_bool, cast_to_bool) *)
Theorem C04_truth_rule_is_the_code : forall s x y,
  fmt s (VStr x) = Ok (VStr y) -> as_bool s (VStr x) = Ok (gen_cast_str_to_bool y).
Proof. exact as_bool_uses_generated_rule. Qed.
Print Assumptions C04_truth_rule_is_the_code.

Theorem C04_cast_to_bool_code : forall v,
  (forall s, v <> VStr s) -> gen_cast_to_bool v = py_truth v.
Proof. exact gen_cast_to_bool_other. Qed.
Print Assumptions C04_cast_to_bool_code.

(** in-arguments are merged into context before anything of the step evaluates — the description
    (with its up-front look at run / skip, [describe]) included ... *)
Theorem C04_in_set_first : forall (rg : RG) (rp : RP) sp s,
  run_step rg rp sp s =
  describe sp (set_step_input sp s) (fun s1 =>
  andthen (match s_while sp with
           | Some w => while_loop rg rp w sp s1
           | None => foreach_or_cond rg rp sp no_counters s1
           end) (fun s2 => (OOk, unset_step_input sp s2))).
Proof. exact run_step_in_first. Qed.
Print Assumptions C04_in_set_first.

(** ... override same-named context keys ... *)
Theorem C04_in_overrides : forall c pre k v post,
  Forall (fun kv : val * val => val_eqb (fst kv) (VStr k) = false) post ->
  sget k (dict_update c (pre ++ (VStr k, v) :: post)%list) = Some v.
Proof. exact dict_update_visible. Qed.
Print Assumptions C04_in_overrides.

(** ... and are no longer in context once the step completed normally *)
Theorem C04_in_removed : forall (rg : RG) (rp : RP) sp s s' d k v,
  s_in sp = Some d -> In (k, v) d ->
  run_step rg rp sp s = (OOk, s') -> dict_get k (ctx s') = None.
Proof. exact run_step_in_removed. Qed.
Print Assumptions C04_in_removed.

(** * Tie B: the decorator layer READ FROM THE SOURCE is [cond].
    [gen_run_conditional_decorators] is generated on every run from the statements of
    [Step.run_conditional_decorators] (pypyr/dsl.py): order of the run / skip / swallow evaluations,
    the except ladder, which errors are recorded.  With the abstract primitives instantiated by the
    model's body, retry loop, save_error and counter reset, it is [cond] for every step, counters
    and state. *)
Theorem C04_source_decorators_are_model : forall (rg : RG) (rp : RP) sp k s,
  gen_run_conditional_decorators sp (run_body rp sp) rg (reset_prim sp k)
    (fun rc => retry_loop rg rp rc sp k) (save_error_prim sp) s
  = cond rg rp sp k s.
Proof. exact gen_run_conditional_decorators_is_model. Qed.
Print Assumptions C04_source_decorators_are_model.

(** in-arguments are set before anything else of the step runs and removed only after the step
    completed normally — [Step.run_step] read from the source *)
Theorem C04_source_run_step_is_model : forall (rg : RG) (rp : RP) sp s,
  gen_step_run_step sp (fun s => (OOk, set_step_input sp s)) (fun s => (OOk, unset_step_input sp s))
    (fun w => while_loop rg rp w sp) (foreach_or_cond rg rp sp no_counters) s
  = run_step rg rp sp s.
Proof. exact gen_step_run_step_is_model. Qed.
Print Assumptions C04_source_run_step_is_model.

(** what setting and removing the in-arguments does, read from the source
    ([Step.set_step_input_context] / [unset_step_input_context]): the whole [in] mapping is written
    over the context; afterwards exactly its keys are removed *)
Theorem C04_source_in_args_are_model : forall sp s,
  gen_set_step_input_context sp s = (OOk, set_step_input sp s) /\
  gen_unset_step_input_context sp s = (OOk, unset_step_input sp s).
Proof. intros. split; [apply gen_set_step_input_context_is_model|apply gen_unset_step_input_context_is_model]. Qed.
Print Assumptions C04_source_in_args_are_model.

(** in which namespace a !py expression is evaluated, read from the source
    ([Context.get_eval_string]): a chain whose first map is a fresh empty dict made by that call, then
    the context, then the imports — a name bound by := in one expression can neither reach the context
    nor be seen by a later expression *)
Theorem C04_source_eval_scope_is_fresh_chain :
  gen_eval_scope = (["{}"; "self"; "self._pystring_globals"]%list, true).
Proof. exact gen_eval_scope_is_fresh_chain. Qed.
Print Assumptions C04_source_eval_scope_is_fresh_chain.

(** * Non-vacuity: run expression changes between foreach iterations *)
Definition lib4 : library :=
  [("main", [("steps", Some [
      mkstep "vincr" BIncr (Some [(VStr "vincr", VStr "cnt"); (VStr "arg", VInt 1)])
             (Some (VList [VInt 1; VInt 2; VInt 3])) None None
             (VPy "(cnt < 2)" (ECmp CLt (EName "cnt") (EInt 2))) (VStr "{never}") (VBool false)
             None (Some (1, 5)%Z) None])])].
Example C04_nonvacuous :
  let r := api_run EFUEL lib4 "main" [(VStr "cnt", VInt 0); (VStr "never", VStr "FALSE")] None None None (1 # 4) in
  fst r = OOk /\ sget "cnt" (ctx (snd r)) = Some (VInt 2) /\ sget "arg" (ctx (snd r)) = None.
Proof. vm_compute. repeat split; reflexivity. Qed.
