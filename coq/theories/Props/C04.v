(** Props/C04.v — placeholder, to be written. *)
