(** Props/C05.v — foreach and while iterate exactly as declared and nest while > foreach > step. *)
From PV Require Import Engine EngineProofs Ctl Control CtlProofs.
Open Scope string_scope.
Notation RG := (list val -> option string -> option string -> st -> R).
Notation RP := (string -> option (list string) -> option (list val) -> option string -> option string -> st -> R).

(** the iterable is formatted exactly once, before the first iteration *)
Theorem C05_foreach_evaluated_once : forall (rg : RG) (rp : RP) sp k s fe v items,
  s_foreach sp = Some fe -> fmt s fe = Ok v -> iter_items v = Ok items ->
  foreach_loop rg rp sp k s = foreach_items rg rp sp k items s.
Proof. exact foreach_loop_once. Qed.
Print Assumptions C05_foreach_evaluated_once.

(** one conditional execution per item, in order, with [i] bound to the item *)
Theorem C05_foreach_in_order : forall (rg : RG) (rp : RP) sp k a b s,
  foreach_items rg rp sp k (a ++ b) s
  = andthen (foreach_items rg rp sp k a s) (foreach_items rg rp sp k b).
Proof. exact foreach_items_app. Qed.
Print Assumptions C05_foreach_in_order.

Theorem C05_foreach_binds_i : forall (rg : RG) (rp : RP) sp k it s,
  foreach_items rg rp sp k [it] s =
  andthen (cond rg rp sp (mkcnt (k_while k) (Some it) (k_retry k))
                (set_ctx s (sset "i" it (ctx s))))
          (fun s' => (OOk, s')).
Proof. exact foreach_items_one. Qed.
Print Assumptions C05_foreach_binds_i.

(** length 0: the step does not run at all *)
Theorem C05_foreach_empty : forall (rg : RG) (rp : RP) sp k s,
  foreach_items rg rp sp k [] s = (OOk, s).
Proof. exact foreach_items_nil. Qed.
Print Assumptions C05_foreach_empty.

(** an error (or instruction) that is not swallowed ends the foreach at once *)
Theorem C05_error_ends_foreach : forall (rg : RG) (rp : RP) sp k pre it post s s1 o s2,
  foreach_items rg rp sp k pre s = (OOk, s1) ->
  cond rg rp sp (mkcnt (k_while k) (Some it) (k_retry k)) (set_ctx s1 (sset "i" it (ctx s1))) = (o, s2) ->
  o <> OOk ->
  foreach_items rg rp sp k (pre ++ it :: post) s = (o, s2).
Proof. exact foreach_items_stops. Qed.
Print Assumptions C05_error_ends_foreach.

(** KNOWN FINDING (kept visible): "foreach executes the step once per item ... of any length
    including 0" is false for a LITERAL falsy iterable — [foreach: []] is treated as "no
    foreach" and the step runs once, without [i]. Behaviour pinned by
    tests/unit/pypyr/dsl_test.py::test_foreach_empty, so it is recorded, not repaired. *)
Theorem C05_foreach_literal_empty_refuted : exists (sp : step),
  s_foreach sp = Some (VList []) /\
  forall (rg : RG) (rp : RP) k s, foreach_or_cond rg rp sp k s = cond rg rp sp k s.
Proof.
  exists (mkstep "x" BProbe None (Some (VList [])) None None (VBool true) (VBool false) (VBool false) None None None).
  split; [reflexivity|]. intros. now apply foreach_or_cond_falsy.
Qed.
Print Assumptions C05_foreach_literal_empty_refuted.

(** the part that does hold: when the raw foreach value is truthy the loop runs *)
Theorem C05_foreach_partial : forall (rg : RG) (rp : RP) sp k s,
  has_foreach sp = true -> foreach_or_cond rg rp sp k s = foreach_loop rg rp sp k s.
Proof. intros rg rp sp k s H. unfold foreach_or_cond. now rewrite H. Qed.
Print Assumptions C05_foreach_partial.

(** while: the four equations below fully determine the loop driver.
    (1) the first iteration whose post-execution stop is true ends the loop, no sleep after *)
Theorem C05_while_ends_on_stop : forall fuel iter interval max i s s1,
  iter (i + 1)%Z s = (IDone true, s1) ->
  poll (S fuel) iter interval max i s = (IDone true, s1).
Proof. exact poll_done. Qed.
Print Assumptions C05_while_ends_on_stop.

(** (2) once max iterations have run the loop ends, no sleep after the last one *)
Theorem C05_while_ends_on_max : forall fuel iter interval m i s s1 d,
  iter (i + 1)%Z s = (IDone false, s1) -> interval (Z.to_nat (i + 1)) = Some d ->
  m <> 0%Z -> (m <= i + 1)%Z ->
  poll (S fuel) iter interval (Some m) i s = (IDone false, s1).
Proof. exact poll_exhausted. Qed.
Print Assumptions C05_while_ends_on_max.

(** (3) otherwise: exactly one sleep, then iteration number i+2 *)
Theorem C05_while_sleeps_between : forall fuel iter interval max i s s1 d,
  iter (i + 1)%Z s = (IDone false, s1) -> interval (Z.to_nat (i + 1)) = Some d ->
  (max = None \/ max = Some 0%Z \/ exists m, max = Some m /\ (i + 1 < m)%Z) ->
  poll (S fuel) iter interval max i s = poll fuel iter interval max (i + 1)%Z (add_sleep s1 d).
Proof. exact poll_again. Qed.
Print Assumptions C05_while_sleeps_between.

(** (4) an error ends the loop *)
Theorem C05_error_ends_while : forall fuel iter interval max i s o s1,
  iter (i + 1)%Z s = (IRaise o, s1) ->
  poll (S fuel) iter interval max i s = (IRaise o, s1).
Proof. exact poll_raise. Qed.
Print Assumptions C05_error_ends_while.

(** not at all when max < 1 *)
Theorem C05_while_max_lt_1 : forall (rg : RG) (rp : RP) w sp s eom sleep m,
  let s0 := set_ctx s (sset "whileCounter" (VInt 0) (ctx s)) in
  w_max w = Some m ->
  as_bool s0 (w_eom w) = Ok eom -> as_float s0 (w_sleep w) = Ok sleep ->
  forall z, as_int s0 m = Ok z -> (z < 1)%Z ->
  while_loop rg rp w sp s = (OOk, s0).
Proof. exact while_loop_max_lt_1. Qed.
Print Assumptions C05_while_max_lt_1.

(** nesting while > foreach > run/skip/swallow: each while iteration injects whileCounter,
    runs the COMPLETE foreach sequence, and only then evaluates stop *)
Theorem C05_nesting : forall (rg : RG) (rp : RP) w sp n s s1,
  foreach_or_cond rg rp sp (mkcnt (Some n) None None)
                  (set_ctx s (sset "whileCounter" (VInt n) (ctx s))) = (OOk, s1) ->
  while_iter rg rp w sp n s =
  if opt_truth (w_stop w) then
    match w_stop w with
    | Some e =>
        match as_bool s1 e with
        | Ok b => (IDone b, s1)
        | Err en em => let '(o, s2) := raise_new en em s1 in (IRaise o, s2)
        | Unsup => (IRaise OUnsup, s1)
        end
    | None => (IDone false, s1)
    end
  else (IDone false, s1).
Proof. exact while_iter_ok. Qed.
Print Assumptions C05_nesting.

Theorem C05_error_leaves_all_loops : forall (rg : RG) (rp : RP) w sp n s o s1,
  foreach_or_cond rg rp sp (mkcnt (Some n) None None)
                  (set_ctx s (sset "whileCounter" (VInt n) (ctx s))) = (o, s1) ->
  o <> OOk -> while_iter rg rp w sp n s = (IRaise o, s1).
Proof. exact while_iter_not_ok. Qed.
Print Assumptions C05_error_leaves_all_loops.

(** * Tie B: foreach wraps the conditional layer, read from the source
    ([Step.run_foreach_or_conditional]: foreach when the step has foreach items, else straight to
    the run/skip/swallow layer) *)
Theorem C05_source_foreach_or_cond_is_model : forall (rg : RG) (rp : RP) sp k s,
  gen_run_foreach_or_conditional sp (run_body rp sp) rg (reset_prim sp k)
    (fun rc => retry_loop rg rp rc sp k) (save_error_prim sp) (foreach_loop rg rp sp k) s
  = foreach_or_cond rg rp sp k s.
Proof. exact gen_run_foreach_or_conditional_is_model. Qed.
Print Assumptions C05_source_foreach_or_cond_is_model.

(** the foreach loop read from the source ([Step.foreach_loop]): the iterable is formatted once,
    before the first item; [i] is written before each execution; items run in order until the first
    abnormal outcome *)
Theorem C05_source_foreach_loop_is_model : forall (rg : RG) (rp : RP) sp k s,
  gen_foreach_loop sp (fun it => cond rg rp sp (mkcnt (k_while k) (Some it) (k_retry k))) s
  = foreach_loop rg rp sp k s.
Proof. exact gen_foreach_loop_is_model. Qed.
Print Assumptions C05_source_foreach_loop_is_model.

(** the nesting while > foreach > conditional, read from the source ([Step.run_step]) *)
Theorem C05_source_run_step_is_model : forall (rg : RG) (rp : RP) sp s,
  gen_step_run_step sp (fun s => (OOk, set_step_input sp s)) (fun s => (OOk, unset_step_input sp s))
    (fun w => while_loop rg rp w sp) (foreach_or_cond rg rp sp no_counters) s
  = run_step rg rp sp s.
Proof. exact gen_step_run_step_is_model. Qed.
Print Assumptions C05_source_run_step_is_model.

(** one while iteration read from the source ([WhileDecorator.exec_iteration]): whileCounter is
    written before the body runs, the body's abnormal outcome ends the loop, and [stop] is evaluated
    after the body, against the context the body left *)
Theorem C05_source_while_iteration_is_model : forall (rg : RG) (rp : RP) w sp n s,
  gen_while_exec_iteration w (fun c => foreach_or_cond rg rp sp (mkcnt (Some c) None None)) n s
  = while_iter rg rp w sp n s.
Proof. exact gen_while_exec_iteration_is_model. Qed.
Print Assumptions C05_source_while_iteration_is_model.

(** the same polling loop drives while (constant sleep) — read from the source *)
Theorem C05_source_poll_is_model : forall iter (interval : nat -> option Q) max fuel d s,
  (forall n, interval n = d) ->
  gen_sleep_looper iter false (fun _ => None) d max fuel s = poll fuel iter interval max 0 s.
Proof. exact gen_sleep_looper_const_is_model. Qed.
Print Assumptions C05_source_poll_is_model.

(** [WhileDecorator.while_loop] READ FROM THE SOURCE: whileCounter starts at 0; a decorator with
    neither max nor stop is a PipelineDefinitionError; errorOnMax (as bool) and sleep (as float) are
    read once, before the first iteration, then max (as int); max < 1 runs nothing; the iterations
    are polled with that sleep and max; when the poll ends false, errorOnMax decides between a quiet
    end and LoopMaxExhaustedError with the documented texts.  It is the model's [while_loop]. *)
Theorem C05_source_while_loop_is_model : forall (rg : RG) (rp : RP) w sp s,
  gen_while_loop w
    (fun sleep max_attempts s0 =>
       poll LOOPFUEL (while_iter rg rp w sp) (fun _ => Some sleep) max_attempts 0 s0) s
  = while_loop rg rp w sp s.
Proof. exact gen_while_loop_is_model. Qed.
Print Assumptions C05_source_while_loop_is_model.

(** ... and the three generated layers composed (while_loop, exec_iteration, the polling loop) *)
Theorem C05_source_while_stack_is_model : forall (rg : RG) (rp : RP) w sp s,
  gen_while_loop w
    (fun sleep max_attempts s0 =>
       gen_sleep_looper
         (gen_while_exec_iteration w (fun c => foreach_or_cond rg rp sp (mkcnt (Some c) None None)))
         false (fun _ => None) (Some sleep) max_attempts LOOPFUEL s0) s
  = while_loop rg rp w sp s.
Proof. exact gen_while_stack_is_model. Qed.
Print Assumptions C05_source_while_stack_is_model.

(** * Non-vacuity: while(max 3, stop when cnt>=4) over foreach [a;b], sleeping 1/2 *)
Definition lib5 : library :=
  [("main", [("steps", Some [
      mkstep "vincr" BIncr (Some [(VStr "vincr", VStr "cnt")])
             (Some (VList [VStr "a"; VStr "b"]))
             (Some (mkw (Some (VInt 3)) (Some (VPy "(cnt >= 4)" (ECmp CGe (EName "cnt") (EInt 4))))
                        (VFloat (1 # 2)) (VBool true))) None
             (VBool true) (VBool false) (VBool false) None (Some (1, 5)%Z) None])])].
Example C05_nonvacuous :
  let r := api_run EFUEL lib5 "main" [(VStr "cnt", VInt 0)] None None None (1 # 4) in
  fst r = OOk /\ sget "cnt" (ctx (snd r)) = Some (VInt 4) /\ sleeps (snd r) = [1 # 2]
  /\ sget "whileCounter" (ctx (snd r)) = Some (VInt 2).
Proof. vm_compute. repeat split; reflexivity. Qed.
