(** Props/C05.v — placeholder, to be written. *)
