(** Props/C07.v — runErrors records every step failure exactly once and accurately. *)
From PV Require Import Engine EngineProofs Ctl Control CtlProofs.
Open Scope string_scope.
Notation RG := (list val -> option string -> option string -> st -> R).
Notation RP := (string -> option (list string) -> option (list val) -> option string -> option string -> st -> R).

(** one entry, appended after the existing ones, carrying name, message, step, line, col,
    the formatted onError payload, the exception object and the swallowed flag; nothing
    else in context (or the trace, clock, call stack) changes *)
Theorem C07_entry_fields : forall sp name msg eid sw s custom,
  on_error_payload sp s = Ok custom ->
  (sget "runErrors" (ctx s) = None \/ exists l, sget "runErrors" (ctx s) = Some (VList l)) ->
  exists s', save_error sp name msg eid sw s = (OOk, s') /\
             run_errors s' = (run_errors s ++ [failure_entry sp name msg eid custom sw])%list /\
             (forall k, k <> "runErrors" -> sget k (ctx s') = sget k (ctx s)) /\
             stack s' = stack s /\ trace s' = trace s /\ sleeps s' = sleeps s.
Proof. exact save_error_appends. Qed.
Print Assumptions C07_entry_fields.

(** an error escaping the body (after its retries) is recorded exactly once by the step,
    swallowed or not (the only [save_error] of the step, before the swallow decision) *)
Theorem C07_recorded_once_by_the_step : forall (rg : RG) (rp : RP) sp k s name msg eid s1 swallow,
  as_bool s (s_run sp) = Ok true -> as_bool s (s_skip sp) = Ok false ->
  inner rg rp sp k s = (ORaise (RExn name msg eid), s1) ->
  as_bool s1 (s_swallow sp) = Ok swallow ->
  cond rg rp sp k s =
  andthen (save_error sp name msg eid swallow s1) (fun s2 =>
    if swallow then (OOk, s2) else (ORaise (RExn name msg eid), s2)).
Proof. exact cond_error. Qed.
Print Assumptions C07_recorded_once_by_the_step.

(** an error that propagates outwards through an enclosing call step is marked handled ... *)
Theorem C07_call_marks_handled : forall (rg : RG) (rp : RP) sp k s c s1,
  run_body rp sp s = (ORaise (RSig (SCall c)), s1) ->
  invoke rg rp sp k s =
  (let '(o, s2) := rg (c_groups c) (c_success c) (c_failure c) s1 in
   let s3 := reset_counters sp k c s2 in
   match o with
   | OOk => (OOk, s3)
   | ORaise (RSig sg) => (ORaise (RSig sg), s3)
   | ORaise r => (OHandled r, s3)
   | OHandled _ => (OUnsup, s3)
   | OUnsup => (OUnsup, s3)
   end).
Proof. exact invoke_call. Qed.
Print Assumptions C07_call_marks_handled.

(** ... and is NOT recorded a second time by the calling step: the context is untouched and
    the original error (same identity) is swallowed or re-raised *)
Theorem C07_not_recorded_twice : forall (rg : RG) (rp : RP) sp k s cause s1 swallow,
  as_bool s (s_run sp) = Ok true -> as_bool s (s_skip sp) = Ok false ->
  inner rg rp sp k s = (OHandled cause, s1) ->
  as_bool s1 (s_swallow sp) = Ok swallow ->
  cond rg rp sp k s = if swallow then (OOk, s1) else (ORaise cause, s1).
Proof. exact cond_handled. Qed.
Print Assumptions C07_not_recorded_twice.

(** a retried call step: the handled marker survives the retry loop's last attempt *)
Theorem C07_handled_through_retry : forall (rg : RG) (rp : RP) rc sp k m n s cause s1,
  invoke rg rp sp (mkcnt (k_while k) (k_for k) (Some n))
         (set_ctx s (sset "retryCounter" (VInt n) (ctx s))) = (OHandled cause, s1) ->
  m <> 0%Z -> n = m ->
  retry_iter rg rp rc sp k (Some m) n s = (IRaise (OHandled cause), s1).
Proof. exact retry_iter_handled_at_max. Qed.
Print Assumptions C07_handled_through_retry.

(** executions that do not raise add nothing *)
Theorem C07_ok_adds_nothing : forall (rg : RG) (rp : RP) sp k s s1,
  as_bool s (s_run sp) = Ok true -> as_bool s (s_skip sp) = Ok false ->
  inner rg rp sp k s = (OOk, s1) -> cond rg rp sp k s = (OOk, s1).
Proof. exact cond_ok. Qed.
Print Assumptions C07_ok_adds_nothing.

(** attempts that a retry later recovers from add nothing: an absorbed attempt hands on
    exactly the state the attempt left *)
Theorem C07_recovered_attempt_adds_nothing : forall (rg : RG) (rp : RP) rc sp k max n s name msg eid s1,
  invoke rg rp sp (mkcnt (k_while k) (k_for k) (Some n))
         (set_ctx s (sset "retryCounter" (VInt n) (ctx s))) = (ORaise (RExn name msg eid), s1) ->
  (max = None \/ max = Some 0%Z \/ exists m, max = Some m /\ n <> m) ->
  opt_truth (r_stopon rc) = false -> opt_truth (r_retryon rc) = false ->
  retry_iter rg rp rc sp k max n s = (IDone false, s1).
Proof. exact retry_iter_absorbed. Qed.
Print Assumptions C07_recovered_attempt_adds_nothing.

(** control-of-flow instructions add nothing *)
Theorem C07_instruction_adds_nothing : forall (rg : RG) (rp : RP) sp k s sg s1,
  as_bool s (s_run sp) = Ok true -> as_bool s (s_skip sp) = Ok false ->
  inner rg rp sp k s = (ORaise (RSig sg), s1) ->
  cond rg rp sp k s = (ORaise (RSig sg), s1).
Proof. exact cond_signal. Qed.
Print Assumptions C07_instruction_adds_nothing.

(** * Tie B: WHEN an error is recorded, read from the source.
    In the generated [Step.run_conditional_decorators] an error that reaches the decorator layer
    is passed to [save_error] exactly when it is not a HandledError (i.e. was not already recorded
    further in) and never when it is an instruction; the generated term is the model's [cond]
    (see C04_source_decorators_are_model), and [invoke] is the generated [Step.invoke_step]. *)
Theorem C07_source_recording_is_model : forall (rg : RG) (rp : RP) sp k s,
  gen_run_conditional_decorators sp (run_body rp sp) rg (reset_prim sp k)
    (fun rc => retry_loop rg rp rc sp k) (save_error_prim sp) s
  = cond rg rp sp k s
  /\ gen_invoke_step (run_body rp sp) rg (reset_prim sp k) s = invoke rg rp sp k s.
Proof. intros. split; [apply gen_run_conditional_decorators_is_model|apply gen_invoke_step_is_model]. Qed.
Print Assumptions C07_source_recording_is_model.

(** the entry itself, read from the source ([Step.save_error]): the mapping literal with its eight
    keys in source order — canonical name, message, formatted onError payload (an absent or falsy
    onError gives {}; the payload is formatted before anything is written, so a formatting error
    leaves runErrors untouched), line, col (None for a bare-name step), step name, the exception
    object, swallowed — appended to the list under runErrors (created when absent). *)
Theorem C07_source_entry_is_model : forall sp name msg eid sw s,
  gen_save_error sp (ORaise (RExn name msg eid)) sw s = save_error sp name msg eid sw s.
Proof. exact gen_save_error_is_model. Qed.
Print Assumptions C07_source_entry_is_model.

(** * Non-vacuity: failure two calls deep, both callers swallow / retry *)
Definition S (nm : string) (b : body) (inn : dict) (sw : val) (rt : option rcfg) (oe : option val) : step :=
  mkstep nm b (Some inn) None None rt (VBool true) (VBool false) sw oe (Some (3, 5)%Z) None.
Definition lib7 : library :=
  [("main", [("steps", Some [
       S "pypyr.steps.call" BCall [(VStr "call", VStr "g1")] (VBool true)
         (Some (mkr (Some (VInt 2)) (VInt 0) None None (VInt 0) None None None)) None;
       S "vprobe" BProbe [(VStr "ptag", VStr "after")] (VBool false) None None]);
     ("g1", Some [S "pypyr.steps.call" BCall [(VStr "call", VStr "g2")] (VBool false) None None]);
     ("g2", Some [S "vfail" BFail [(VStr "vfail", VDict [(VStr "err", VStr "ValueError"); (VStr "msg", VStr "deep")])]
                    (VBool false) None (Some (VStr "payload {n}"))])])].
Example C07_nonvacuous :
  let r := api_run EFUEL lib7 "main" [(VStr "n", VInt 5)] None None None (1 # 4) in
  fst r = OOk /\ List.length (run_errors (snd r)) = 2%nat /\
  List.length (trace (snd r)) = 1%nat /\
  nth_error (run_errors (snd r)) 0 =
    Some (VDict [(VStr "name", VStr "ValueError"); (VStr "description", VStr "deep");
                 (VStr "customError", VStr "payload 5"); (VStr "line", VInt 3); (VStr "col", VInt 5);
                 (VStr "step", VStr "vfail"); (VStr "exception", VExn "ValueError" "deep" 0);
                 (VStr "swallowed", VBool false)]).
Proof. vm_compute. repeat split; reflexivity. Qed.
