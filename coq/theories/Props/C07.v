(** Props/C07.v — placeholder, to be written. *)
