(** Props/C18.v — CLI exit codes and the argument-to-context contract.
    Statements only; every proof is [exact] of a lemma from Proofs/.  The models are
    Model/Cli.v (pypyr.cli.main, pypyr's argparse configuration, Pipeline._get_parse_input,
    Pipeline._prepare_context) and Model/Parsers.v (pypyr/parser/*.py); they are tied to /repo
    by the correspondence run of harness/props/C18.py.

    [runner] is an arbitrary function from the call main makes into pypyr.pipelinerunner.run
    to the way that call ends: the exit-code theorems hold for every pipeline and every engine
    behaviour, for every command line the argv model accepts. *)
From PV Require Import Parsers Cli ParsersProofs CliProofs.
Open Scope string_scope.

(** * Exit codes *)

(** None/0 when the run completed or was stopped; 255 and "\n<ESC>[91m<Type>: <msg><ESC>[0;0m\n"
    on stderr for ANY Exception; 130 and a newline on stdout for KeyboardInterrupt; any other
    BaseException is not caught by main. *)
Theorem C18_exit_code : forall runner cwd argv m,
  cli_main runner cwd argv = Ok m ->
  exists a, parse_argv argv = Ok a /\
    match runner (call_of cwd a) with
    | Completed | Stopped =>
        m = Returned None "" "" false /\ process_status m = 0%Z
    | RaisedException ty msg =>
        m = Returned (Some 255%Z) "" (err_text ty msg) (wants_traceback (a_log a))
        /\ process_status m = 255%Z
    | RaisedKeyboardInterrupt =>
        m = Returned (Some 130%Z) nl "" false /\ process_status m = 130%Z
    | e => m = Propagated e
    end.
Proof. exact exit_code_table. Qed.
Print Assumptions C18_exit_code.

(** FULL STATEMENT (false of the faithful model):
      forall log e, process_status (main_of_end log e) = 0 <-> e = Completed \/ e = Stopped.
    A step that raises SystemExit(0) — sys.exit() in custom code — is caught neither by the step
    machinery nor by main (SystemExit is not an Exception): the process exits 0 although the
    pipeline neither completed nor was stopped. *)
Theorem C18_exit_zero_iff_refuted :
  exists log e, process_status (main_of_end log e) = 0%Z /\ e <> Completed /\ e <> Stopped.
Proof. exact exit_zero_iff_refuted. Qed.
Print Assumptions C18_exit_zero_iff_refuted.

(** … and it holds for every way of ending other than an escaping SystemExit. *)
Theorem C18_exit_zero_iff_partial : forall log e,
  is_system_exit e = false ->
  (process_status (main_of_end log e) = 0%Z <-> e = Completed \/ e = Stopped).
Proof. exact exit_zero_iff_partial. Qed.
Print Assumptions C18_exit_zero_iff_partial.

(** * Pass-through of the command line
    [items] is any list of option groups (any order, repetitions allowed, the last occurrence
    wins); [bare_args name ctx] has every option unset. *)

(** pypyr NAME CTX… [options…] *)
Theorem C18_argv_positionals_first : forall name ctx items,
  plain name -> Forall plain ctx -> Forall item_wf items ->
  parse_argv (name :: ctx ++ render_items items) = Ok (apply_items items (bare_args name ctx)).
Proof. exact parse_argv_positionals_first. Qed.
Print Assumptions C18_argv_positionals_first.

(** pypyr [options…] -- NAME CTX…   (context arguments may then start with '-') *)
Theorem C18_argv_options_first : forall name ctx items,
  name <> "--" -> Forall (fun t => t <> "--") ctx -> Forall item_wf items ->
  parse_argv (render_items items ++ "--" :: name :: ctx)
  = Ok (apply_items items (bare_args name ctx)).
Proof. exact parse_argv_options_first. Qed.
Print Assumptions C18_argv_options_first.

(** pypyr options… NAME CTX…   (the last option is not --groups, which would swallow them) *)
Theorem C18_argv_options_then_positionals : forall name ctx items it,
  plain name -> Forall plain ctx -> Forall item_wf items -> item_wf it ->
  (forall g, it <> IGroups g) ->
  parse_argv (render_items (items ++ [it]) ++ name :: ctx)
  = Ok (apply_items (items ++ [it]) (bare_args name ctx)).
Proof. exact parse_argv_options_then_positionals. Qed.
Print Assumptions C18_argv_options_then_positionals.

(** options never touch the pipeline name or the context arguments … *)
Theorem C18_options_keep_name_and_args : forall items a,
  a_name (apply_items items a) = a_name a /\ a_ctx (apply_items items a) = a_ctx a.
Proof. exact apply_items_name_ctx. Qed.
Print Assumptions C18_options_keep_name_and_args.

(** … and main hands everything to the runner as parsed, with parse_args=True. *)
Theorem C18_passthrough : forall cwd a,
  let c := call_of cwd a in
  rc_name c = a_name a /\ rc_args_in c = Some (a_ctx a) /\ rc_groups c = a_groups a
  /\ rc_success c = a_success a /\ rc_failure c = a_failure a
  /\ rc_dir c = (match a_dir a with Some d => d | None => cwd end)
  /\ rc_parse_args c = Some true /\ rc_dict_in c = None /\ rc_loader c = None.
Proof. exact call_passthrough. Qed.
Print Assumptions C18_passthrough.

(** * The parsers *)

(** key=value: split on the FIRST '=' … *)
Theorem C18_kvp_first_eq : forall a b,
  contains_char eq_char a = false -> kv_of (a ++ String eq_char b) = (a, b).
Proof. exact kvp_first_eq_split. Qed.
Print Assumptions C18_kvp_first_eq.

(** … no '=' at all: the whole argument is the key, the value is "" *)
Theorem C18_kvp_no_eq : forall s, contains_char eq_char s = false -> kv_of s = (s, "").
Proof. exact kvp_first_eq_bare. Qed.
Print Assumptions C18_kvp_no_eq.

(** (every string is of one of these two forms) *)
Theorem C18_kvp_forms_exhaustive : forall s,
  (has_eq s = false /\ kv_of s = (s, "")) \/
  (exists a b, s = a ++ String eq_char b /\ has_eq a = false /\ kv_of s = (a, b)).
Proof. exact kv_of_cases. Qed.
Print Assumptions C18_kvp_forms_exhaustive.

(** later duplicates win: the value under [k] is that of the LAST argument whose key is [k] *)
Theorem C18_kvp_last_wins : forall l1 s l2 k v,
  kv_of s = (k, v) ->
  (forall s', In s' l2 -> key_of s' <> k) ->
  sget k (kvp_dict (l1 ++ s :: l2)%list) = Some (VStr v).
Proof. exact kvp_last_wins. Qed.
Print Assumptions C18_kvp_last_wins.

Theorem C18_kvp_no_other_keys : forall l k,
  (forall s, In s l -> key_of s <> k) -> sget k (kvp_dict l) = None.
Proof. exact kvp_absent. Qed.
Print Assumptions C18_kvp_no_other_keys.

(** … while each key stays at the position of its FIRST occurrence (Python dict order) *)
Theorem C18_kvp_key_order : forall l,
  dict_keys (kvp_dict l) = map VStr (dedup (map key_of l)).
Proof. exact kvp_key_order. Qed.
Print Assumptions C18_kvp_key_order.

(** list: the arguments, in order *)
Theorem C18_list_in_order : forall l,
  parse_list (Some l) = Some [(VStr "argList", VList (map VStr l))].
Proof. exact parse_list_in_order. Qed.
Print Assumptions C18_list_in_order.

(** string: joined by single spaces — [join], and exactly one extra character per gap *)
Theorem C18_string_single_spaces : forall l,
  parse_string (Some l) = Some [(VStr "argString", VStr (join " " l))]
  /\ String.length (join " " l) = (total_length l + (List.length l - 1))%nat.
Proof. intros l. split; [apply parse_string_joined|apply join_space_length]. Qed.
Print Assumptions C18_string_single_spaces.

(** keys: every bare key maps to true, nothing else is there, first-occurrence order *)
Theorem C18_keys_true : forall l k,
  sget k (keys_dict l) = (if str_in k l then Some (VBool true) else None)
  /\ dict_keys (keys_dict l) = map VStr (dedup l).
Proof. intros l k. split; [apply keys_lookup|apply keys_key_order]. Qed.
Print Assumptions C18_keys_true.

(** argskwargs: arguments without '=' go to argList in order; the others are exactly the
    keyvaluepairs reading of themselves; argList is written last *)
Theorem C18_argskwargs_split : forall l,
  argskwargs_dict l
  = sset "argList" (VList (map VStr (filter no_eq l))) (kvp_dict (filter has_eq l)).
Proof. exact argskwargs_split. Qed.
Print Assumptions C18_argskwargs_split.

(** dict: the keyvaluepairs reading, nested under argDict ({} when there are no arguments) *)
Theorem C18_dict_nested : forall a,
  parse_dict a
  = Some [(VStr "argDict", VDict (match parse_keyvaluepairs a with Some d => d | None => [] end))].
Proof. exact parse_dict_nested. Qed.
Print Assumptions C18_dict_nested.

(** json: whatever the loader makes of the space-joined arguments — if it is an object *)
Theorem C18_json_shape : forall x l,
  parse_json (Some (x :: l))
  = match json_loads (join " " (x :: l)) with
    | Ok (VDict d) => Ok (Some d)
    | Ok _ => Err "TypeError" json_type_error_msg
    | Err n m => Err n m
    | Unsup => Unsup
    end.
Proof. exact parse_json_shape. Qed.
Print Assumptions C18_json_shape.

(** "loaded as is", for the loader model: an object written with plain string keys and values
    (no quote, backslash or control character) loads as exactly those pairs — later duplicates
    winning, first position kept *)
Theorem C18_json_flat_object_as_is : forall ps,
  Forall simple_pair ps ->
  json_loads (render_object ps) = Ok (VDict (dict_of_pairs (map str_pair ps))).
Proof. exact json_loads_render_object. Qed.
Print Assumptions C18_json_flat_object_as_is.

(** total: no argument list makes a (non-json) parser raise; deterministic: a Gallina function
    of the argument list; None and [] are the same input *)
Theorem C18_parsers_total_deterministic :
  (forall p a, p <> PJson -> exists r, run_parser p a = Ok r)
  /\ (forall p a1 a2, a1 = a2 -> run_parser p a1 = run_parser p a2)
  /\ (forall p, run_parser p None = run_parser p (Some [])).
Proof.
  split; [exact parsers_total|split; [intros p a1 a2 ->; reflexivity|exact parsers_none_is_empty]].
Qed.
Print Assumptions C18_parsers_total_deterministic.

Theorem C18_empty_args_shapes : forall a,
  args_falsy a = true ->
  run_parser PKeyValuePairs a = Ok None
  /\ run_parser PKeys a = Ok None
  /\ run_parser PJson a = Ok None
  /\ run_parser PList a = Ok (Some [(VStr "argList", VList [])])
  /\ run_parser PArgsKwargs a = Ok (Some [(VStr "argList", VList [])])
  /\ run_parser PString a = Ok (Some [(VStr "argString", VStr "")])
  /\ run_parser PDict a = Ok (Some [(VStr "argDict", VDict [])]).
Proof. exact empty_args_shapes. Qed.
Print Assumptions C18_empty_args_shapes.

(** every result is a dict with string keys, each key once *)
Theorem C18_parser_results_unique_string_keys : forall p a d,
  p <> PJson -> run_parser p a = Ok (Some d) ->
  exists qs, d = skv qs /\ NoDup (map fst qs).
Proof. exact parser_result_alist. Qed.
Print Assumptions C18_parser_results_unique_string_keys.

(** * The API: when the parser runs *)

(** the full 3 x 2 x 2 table of Pipeline._get_parse_input *)
Theorem C18_parse_input_table :
  (forall ai di, get_parse_input (Some true) ai di = true)
  /\ (forall ai di, get_parse_input (Some false) ai di = false)
  /\ (forall ai di, args_falsy ai = false -> get_parse_input None ai di = true)
  /\ (forall ai, get_parse_input None ai None = true)
  /\ (forall ai d, args_falsy ai = true -> get_parse_input None ai (Some d) = false).
Proof. exact parse_input_table. Qed.
Print Assumptions C18_parse_input_table.

(** the parser is skipped exactly when parsing was disabled, or left open with a dict and no
    arguments *)
Theorem C18_parser_skipped_iff : forall pa ai di,
  get_parse_input pa ai di = false
  <-> pa = Some false \/ (pa = None /\ args_falsy ai = true /\ di <> None).
Proof. exact parser_skipped_iff. Qed.
Print Assumptions C18_parser_skipped_iff.

(** the parser's result update()s the context; None (and {}) leave it alone; errors escape *)
Theorem C18_parser_result_updates_context : forall parse_input parser a ctx,
  prepare_context parse_input parser a ctx =
  match parse_input, parser with
  | false, _ => Ok ctx
  | true, None => Ok ctx
  | true, Some p =>
      match run_parser p a with
      | Ok None => Ok ctx
      | Ok (Some d) => Ok (dict_update ctx d)
      | Err n m => Err n m
      | Unsup => Unsup
      end
  end.
Proof. exact prepare_context_spec. Qed.
Print Assumptions C18_parser_result_updates_context.

(** … and update means: parsed keys win, every other key keeps its value *)
Theorem C18_update_semantics : forall p a ctx qs k,
  run_parser p a = Ok (Some (skv qs)) -> NoDup (map fst qs) ->
  exists ctx', prepare_context true (Some p) a ctx = Ok ctx'
    /\ sget k ctx' = match aget k qs with Some v => Some v | None => sget k ctx end.
Proof. exact prepare_context_lookup. Qed.
Print Assumptions C18_update_semantics.

(** from the command line the first step sees exactly the parser's result *)
Theorem C18_cli_first_step_context : forall p argv a d,
  p <> PJson -> parse_argv argv = Ok a ->
  run_parser p (Some (a_ctx a)) = Ok (Some d) ->
  cli_first_step_context (Some p) argv = Ok d.
Proof. exact cli_context_builtin. Qed.
Print Assumptions C18_cli_first_step_context.

(** * Non-vacuity: concrete instances, evaluated *)
Definition argvA : list string :=
  ["pipe"; "a=b=c"; "x y"; "a=2"; "--groups"; "g1"; "g 2"; "--success"; "s"; "--log"; "50";
   "--groups"; "only"].

Example C18_argv_nonvacuous :
  parse_argv argvA
  = Ok (mk_cli_args "pipe" ["a=b=c"; "x y"; "a=2"] (Some ["only"]) (Some "s") None None
                    (Some 50%Z) None)
  /\ argvA = "pipe" :: ["a=b=c"; "x y"; "a=2"]
             ++ render_items [IGroups ["g1"; "g 2"]; ISuccess "s"; ILog false "50"; IGroups ["only"]]
  /\ Forall item_wf [IGroups ["g1"; "g 2"]; ISuccess "s"; ILog false "50"; IGroups ["only"]]
  /\ parse_argv ["--dir"; "d"; "--"; "pipe"; "-x=1"]
     = Ok (mk_cli_args "pipe" ["-x=1"] None None None (Some "d") None None)
  /\ parse_argv ["--failure"; "f"; "pipe"; "k"]
     = Ok (mk_cli_args "pipe" ["k"] None None (Some "f") None None None)
  /\ parse_argv ["pipe"; "--success"; "s"; "late"] = Unsup.
Proof. vm_compute. repeat split; repeat constructor. Qed.

Example C18_exit_code_nonvacuous :
  cli_main (fun _ => RaisedException "ValueError" "boom") "/cwd" argvA
  = Ok (Returned (Some 255%Z) "" (err_text "ValueError" "boom") false)
  /\ cli_main (fun _ => RaisedException "KeyError" "'k'") "/cwd" ["p"; "--log"; "5"]
     = Ok (Returned (Some 255%Z) "" (err_text "KeyError" "'k'") true)
  /\ cli_main (fun _ => Stopped) "/cwd" ["p"] = Ok (Returned None "" "" false)
  /\ cli_main (fun c => if strs_eqb (args_list (rc_args_in c)) ["a=b=c"; "x y"; "a=2"]
                        then RaisedKeyboardInterrupt else Completed) "/cwd" argvA
     = Ok (Returned (Some 130%Z) nl "" false)
  /\ process_status (Propagated (RaisedSystemExit (Some 3%Z))) = 3%Z
  /\ is_system_exit (RaisedOtherBase "GeneratorExit" "") = false.
Proof. vm_compute. repeat split. Qed.

Example C18_parsers_nonvacuous :
  parse_keyvaluepairs (Some ["a=b=c"; "x y"; "a=2"; "=v"; "k="])
  = Some [(VStr "a", VStr "2"); (VStr "x y", VStr ""); (VStr "", VStr "v"); (VStr "k", VStr "")]
  /\ parse_argskwargs (Some ["p1"; "k=v"; "p 2"; "k=w"; "argList=z"])
     = Some [(VStr "k", VStr "w"); (VStr "argList", VList [VStr "p1"; VStr "p 2"])]
  /\ parse_keys (Some ["b"; "a"; "b"])
     = Some [(VStr "b", VBool true); (VStr "a", VBool true)]
  /\ parse_string (Some ["a"; ""; "b c"]) = Some [(VStr "argString", VStr "a  b c")]
  /\ parse_dict (Some ["a=1"]) = Some [(VStr "argDict", VDict [(VStr "a", VStr "1")])]
  /\ parse_json (Some ["{""a"":"; "[1,"; "-2],"; """b"":{""c"":null}, ""a"":true}"])
     = Ok (Some [(VStr "a", VBool true); (VStr "b", VDict [(VStr "c", VNone)])])
  /\ parse_json (Some ["[1]"]) = Err "TypeError" json_type_error_msg
  /\ parse_json (Some ["{""a"":01}"]) = Err "json.decoder.JSONDecodeError" ""
  /\ render_object [("k", "v w"); ("k", "z")] = "{""k"":""v w"",""k"":""z""}"
  /\ Forall simple_pair [("k", "v w"); ("k", "z")]
  /\ parse_json (Some ["{""k"":""v"; "w"",""k"":""z""}"]) = Ok (Some [(VStr "k", VStr "z")])
  /\ kv_of "a=b=c" = ("a", "b=c")
  /\ (exists l1 s l2, ["a=b=c"; "x y"; "a=2"] = (l1 ++ s :: l2)%list /\ kv_of s = ("a", "2")
        /\ forall s', In s' l2 -> key_of s' <> "a").
Proof.
  vm_compute. repeat split; try (repeat constructor; fail).
  exists ["a=b=c"; "x y"], "a=2", []. repeat split. intros s' [].
Qed.

Example C18_api_nonvacuous :
  api_first_step_context (Some PKeyValuePairs) None (Some ["a=1"]) (Some [(VStr "a", VInt 0); (VStr "z", VInt 9)])
  = Ok [(VStr "a", VStr "1"); (VStr "z", VInt 9)]
  /\ api_first_step_context (Some PKeyValuePairs) None None (Some [(VStr "a", VInt 0)])
     = Ok [(VStr "a", VInt 0)]
  /\ api_first_step_context (Some PList) (Some true) None (Some [(VStr "a", VInt 0)])
     = Ok [(VStr "a", VInt 0); (VStr "argList", VList [])]
  /\ cli_first_step_context (Some PKeyValuePairs) argvA
     = Ok [(VStr "a", VStr "2"); (VStr "x y", VStr "")]
  /\ (exists ai d, args_falsy ai = true /\ get_parse_input None ai (Some d) = false).
Proof. vm_compute. repeat split. exists (Some []), []. split; reflexivity. Qed.

(** Tie B: the parse_input rule of the model is the function GENERATED from the current source of
    pypyr/pipeline.py (Pipeline._get_parse_input) *)
From PV Require Import Leaves GenProofs.
Theorem C18_parse_input_is_the_code : forall pa a d,
  gen_get_parse_input pa a d = Cli.get_parse_input pa a d.
Proof. exact gen_get_parse_input_is_model. Qed.
Print Assumptions C18_parse_input_is_the_code.

(** * Tie B: the parsers, the except ladder and the runner call of the model ARE the code.
    Gen/GenC18.v is regenerated from the current source of pypyr/parser/*.py and pypyr/cli.py by
    tools/py2coq_c18.py before every build; these theorems say the generated definitions equal
    the hand-written model the theorems above are about, for all inputs. *)
From PV Require Import GenC18 GenC18Proofs.

Theorem C18_source_keyvaluepairs_is_model : forall a,
  gen_parse_keyvaluepairs a = parse_keyvaluepairs a.
Proof. exact gen_keyvaluepairs_is_model. Qed.
Print Assumptions C18_source_keyvaluepairs_is_model.

Theorem C18_source_keys_is_model : forall a, gen_parse_keys a = parse_keys a.
Proof. exact gen_keys_is_model. Qed.
Print Assumptions C18_source_keys_is_model.

Theorem C18_source_list_is_model : forall a, gen_parse_list a = parse_list a.
Proof. exact gen_list_is_model. Qed.
Print Assumptions C18_source_list_is_model.

Theorem C18_source_string_is_model : forall a, gen_parse_string a = parse_string a.
Proof. exact gen_string_is_model. Qed.
Print Assumptions C18_source_string_is_model.

Theorem C18_source_dict_is_model : forall a, gen_parse_dict a = parse_dict a.
Proof. exact gen_dict_is_model. Qed.
Print Assumptions C18_source_dict_is_model.

Theorem C18_source_argskwargs_is_model : forall a, gen_parse_argskwargs a = parse_argskwargs a.
Proof. exact gen_argskwargs_is_model. Qed.
Print Assumptions C18_source_argskwargs_is_model.

(** json.loads is the translator's abstract primitive: with the model's loader the generated
    parser is the model's, and for ANY loader it has the documented shape *)
Theorem C18_source_json_is_model : forall a, gen_parse_json json_loads a = parse_json a.
Proof. exact gen_json_is_model. Qed.
Print Assumptions C18_source_json_is_model.

Theorem C18_source_json_any_loader : forall loads a,
  gen_parse_json loads a =
  if args_falsy a then Ok None
  else match loads (join " " (args_list a)) with
       | Ok (VDict d) => Ok (Some d)
       | Ok _ => Err "TypeError" json_type_error_msg
       | Err n m => Err n m
       | Unsup => Unsup
       end.
Proof. exact gen_json_any_loader. Qed.
Print Assumptions C18_source_json_any_loader.

(** the except ladder of main, applied to what the try body raised, decides return-code versus
    escape exactly as the model does (what is printed aside) *)
Theorem C18_source_main_ladder_is_model : forall log e,
  wf_end e = true ->
  gen_main_ladder run_end raised_isinstance (end_raised e) = ladder_of (main_of_end log e).
Proof. exact gen_main_ladder_is_model. Qed.
Print Assumptions C18_source_main_ladder_is_model.

Theorem C18_source_exit_status : forall log e,
  wf_end e = true ->
  match gen_main_ladder run_end raised_isinstance (end_raised e) with
  | inl None => process_status (main_of_end log e) = 0%Z
  | inl (Some c) => process_status (main_of_end log e) = (c mod 256)%Z
  | inr e' => main_of_end log e = Propagated e'
  end.
Proof. exact gen_main_ladder_status. Qed.
Print Assumptions C18_source_exit_status.

(** the keyword arguments main passes to pypyr.pipelinerunner.run *)
Theorem C18_source_runner_call_is_model : forall cwd a, gen_call_of cwd a = call_of cwd a.
Proof. exact gen_call_of_is_model. Qed.
Print Assumptions C18_source_runner_call_is_model.

Example C18_source_nonvacuous :
  gen_parse_argskwargs (Some ["p1"; "k=v"; "argList=z"; "p 2"])
  = Some [(VStr "k", VStr "v"); (VStr "argList", VList [VStr "p1"; VStr "p 2"])]
  /\ gen_main_ladder run_end raised_isinstance (end_raised (RaisedException "ValueError" "x"))
     = inl (Some 255%Z)
  /\ gen_main_ladder run_end raised_isinstance (end_raised RaisedKeyboardInterrupt) = inl (Some 130%Z)
  /\ gen_main_ladder run_end raised_isinstance (end_raised (RaisedSystemExit (Some 0%Z)))
     = inr (RaisedSystemExit (Some 0%Z))
  /\ gen_main_ladder run_end raised_isinstance (end_raised Stopped) = inl None
  /\ wf_end (RaisedOtherBase "GeneratorExit" "") = true.
Proof. vm_compute. repeat split. Qed.
