(** Props/C18.v — placeholder, to be written. *)
