(** Props/C08.v — formatting expressions resolve by the documented substitution/recursion
    rules.  Only statements, each closed by [exact] of a lemma from Proofs/, with its
    assumptions printed.  [rec] is the nested call to [_get_formatted_iterable]: the
    item-level theorems hold for EVERY behaviour of the nested formatting, hence for
    reference chains of any depth. *)
From PV Require Import Format FormatProofs.
Open Scope string_scope.

(** [{{] and [}}] collapse to single braces, for every literal text [s] (any length). *)
Theorem C08_escapes : forall ctx rec s is_rec,
  keep_type ctx rec (esc s) is_rec = Ok (VStr s).
Proof. exact keep_type_esc. Qed.
Print Assumptions C08_escapes.

(** a string that is exactly one expression yields the referenced object itself,
    (recursively) formatted — no string cast, the type is whatever [rec] returns. *)
Theorem C08_single_expr_keeps_type : forall ctx rec name is_rec,
  keep_items ctx rec is_rec [("", Some (name, "", None))] PEnd
  = (let* obj := lookup_field ctx name in rec obj is_rec).
Proof. exact keep_items_single. Qed.
Print Assumptions C08_single_expr_keeps_type.

(** mixed text/expressions: each reference looked up, NOT formatted further, rendered
    with str() and concatenated: one level deep, always a string. *)
Theorem C08_mixed_is_flat_string : forall ctx rec its,
  Forall simple_item its -> (n_entries its <> 1)%nat ->
  keep_items ctx rec false its PEnd = (let* s := flat_render ctx its in Ok (VStr s)).
Proof. exact keep_items_mixed. Qed.
Print Assumptions C08_mixed_is_flat_string.

(** :ff — flat: the referenced object exactly as stored. *)
Theorem C08_ff : forall ctx rec name is_rec,
  keep_items ctx rec is_rec [("", Some (name, "ff", None))] PEnd = lookup_field ctx name.
Proof. exact keep_items_single_ff. Qed.
Print Assumptions C08_ff.

(** :rf — recursive formatting of the referenced object, whatever the surrounding mode. *)
Theorem C08_rf : forall ctx rec name is_rec,
  keep_items ctx rec is_rec [("", Some (name, "rf", None))] PEnd
  = (let* obj := lookup_field ctx name in rec obj true).
Proof. exact keep_items_single_rf. Qed.
Print Assumptions C08_rf.

(** special tags *)
Theorem C08_sic_verbatim : forall ctx f s is_rec,
  fmt_iter ctx (S f) (VSic s) is_rec = Ok (VStr s).
Proof. reflexivity. Qed.
Print Assumptions C08_sic_verbatim.

Theorem C08_py_evaluates : forall ctx f src e is_rec,
  fmt_iter ctx (S f) (VPy src e) is_rec = eval_pystring ctx src e.
Proof. reflexivity. Qed.
Print Assumptions C08_py_evaluates.

Theorem C08_jsonify : forall ctx f x is_rec,
  fmt_iter ctx (S f) (VJsonify x) is_rec
  = (let* y := fmt_iter ctx f x false in let* s := res_of_opt (json_dumps y) in Ok (VStr s)).
Proof. reflexivity. Qed.
Print Assumptions C08_jsonify.

(** a successful result implies that every referenced key exists: never a partial result *)
Theorem C08_ok_implies_keys_present : forall ctx rec is_rec its tl v,
  keep_items ctx rec is_rec its tl = Ok v ->
  tl = PEnd /\ Forall (item_fields_present ctx) its.
Proof. exact keep_items_ok_fields_present. Qed.
Print Assumptions C08_ok_implies_keys_present.

(** and when the first reference of a string is to a missing key the error is the
    key-lookup error naming that key *)
Theorem C08_missing_key_raises : forall ctx rec is_rec lits lit name spec conv rest tl,
  all_lit lits -> name <> "" ->
  isdigit (fst (split_first name)) = false ->
  sget (fst (split_first name)) ctx = None ->
  keep_items ctx rec is_rec (lits ++ (lit, Some (name, spec, conv)) :: rest)%list tl
  = Err "pypyr.errors.KeyNotInContextError"
        (fst (split_first name) ++ " not found in the pypyr context.").
Proof. exact keep_items_first_missing. Qed.
Print Assumptions C08_missing_key_raises.

(** tokenizer round-trip: for every list of (brace-free literal, field) parts and trailing
    literal, parsing the rendered string gives exactly those parts back — so the item-level
    theorems above hold of all strings of this grammar, e.g. the next theorem *)
Theorem C08_parse_render : forall fs tail,
  Forall part_ok fs -> no_brace tail = true ->
  parse (render_parts fs tail) = (items_of fs tail, PEnd).
Proof. exact parse_render. Qed.
Print Assumptions C08_parse_render.

Theorem C08_single_expr_string : forall ctx rec name is_rec,
  name_ok name = true ->
  keep_type ctx rec (String lbrace (name ++ String rbrace EmptyString)) is_rec
  = (let* obj := lookup_field ctx name in rec obj is_rec).
Proof. exact keep_type_single_string. Qed.
Print Assumptions C08_single_expr_string.

(** * Non-vacuity and end-to-end instances through the real tokenizer (evaluated) *)
Definition ctx0 : dict :=
  [(VStr "a", VInt 7); (VStr "b", VStr "{a}"); (VStr "c", VStr "x{b}y");
   (VStr "d", VDict [(VStr "k", VList [VStr "{a}"; VInt 1])])].

Example C08_single_nonvacuous :
  format_value FUEL ctx0 (VStr "{b}") = Ok (VInt 7)
  /\ format_value FUEL ctx0 (VStr "{c}") = Ok (VStr "x{a}y")
  /\ format_value FUEL ctx0 (VStr "{c:rf}") = Ok (VStr "x7y")
  /\ format_value FUEL ctx0 (VStr "{b:ff}") = Ok (VStr "{a}")
  /\ format_value FUEL ctx0 (VStr "{d[k][0]}-{a:>3}{{}}") = Ok (VStr "{a}-  7{}")
  /\ format_value FUEL ctx0 (VStr "{a} {nope}") =
       Err "pypyr.errors.KeyNotInContextError" "nope not found in the pypyr context."
  /\ parse "{d[k][0]}-{a:>3}{{}}" =
       ([("", Some ("d[k][0]", "", None)); ("-", Some ("a", ">3", None)); ("{", None); ("}", None)], PEnd).
Proof. vm_compute. repeat split. Qed.

Example C08_mixed_nonvacuous :
  Forall simple_item [("x", Some ("b", "", None)); ("y", None)] /\
  (n_entries [("x", Some ("b", "", None)); ("y", None)] <> 1)%nat.
Proof. split; [repeat constructor|discriminate]. Qed.

(** * Tie B: the formatter regenerated from the current pypyr/formatting.py
    (Gen/GenC08.v, by tools/py2coq_c08.py before every build) is the model the theorems
    above are about.  CPython's tokenizer, get_field, _vformat, convert_field, format_field
    and the special tags' get_value are the translator's abstract primitives, instantiated
    here by the model's functions (Model/FormatSrc.v). *)
From PV Require Import FormatSrc GenC08 GenC08Proofs.

(** RecursionSpec: the rf / ff prefix of a format spec and its flags *)
Theorem C08_source_recursion_spec_is_model : forall spec,
  gen_RecursionSpec spec = src_of_rspec (mk_rspec spec) false.
Proof. exact gen_RecursionSpec_is_model. Qed.
Print Assumptions C08_source_recursion_spec_is_model.

(** one iteration of _format_keep_type's loop: the literal rule and [field_entry]
    (look-up, spec expansion, which fields are recursed given rf / ff / is_recursive,
    conversion) *)
Theorem C08_source_field_loop_body_is_model : forall ctx rec is_rec acc lit fo,
  gen_format_keep_type_body (src_get_field ctx) (src_vformat ctx) convert_field rec
    2 is_rec (AutoAt 0, map enc_entry acc) (lit, fo)
  = (let* mid := match fo with
                 | None => Ok []
                 | Some fld => let* e := field_entry ctx rec is_rec fld in Ok [e]
                 end in
     Ok (AutoAt 0, map enc_entry (acc ++ lit_entries lit ++ mid)%list)).
Proof. exact body_is_model. Qed.
Print Assumptions C08_source_field_loop_body_is_model.

(** _format_keep_type as a whole (loop, single-expression rule, literal-only strings,
    join), for every string and every behaviour of the nested formatting *)
Theorem C08_source_keep_type_is_model : forall ctx rec s is_rec,
  gen_format_keep_type parse (src_get_field ctx) (src_vformat ctx) convert_field format_field rec
    s gen_FORMAT_SPEC_RECURSION_DEPTH (AutoAt 0) is_rec
  = keep_type ctx rec s is_rec.
Proof. exact keep_type_is_model. Qed.
Print Assumptions C08_source_keep_type_is_model.

(** _get_formatted_iterable — the type dispatch, with the formatter as Context builds it —
    is one step of [fmt_iter] *)
Theorem C08_source_dispatch_is_model : forall ctx rec v is_rec,
  gen_get_formatted_iterable gen_context_passthrough_types gen_context_special_types
    parse (src_get_field ctx) (src_vformat ctx) convert_field format_field
    (src_special_value ctx rec) rec v is_rec
  = iter_body ctx rec v is_rec.
Proof. exact iter_is_model. Qed.
Print Assumptions C08_source_dispatch_is_model.

(** the generated dispatch closed on fuel is [fmt_iter], to any depth *)
Theorem C08_source_formatter_is_model : forall ctx fuel v is_rec,
  gen_fmt_iter ctx fuel v is_rec = fmt_iter ctx fuel v is_rec.
Proof. exact gen_fmt_iter_is_model. Qed.
Print Assumptions C08_source_formatter_is_model.

(** Context.get_formatted_value(v) = formatter.vformat(v, None, context) *)
Theorem C08_source_vformat_is_model : forall ctx f v,
  format_value (S f) ctx v
  = gen_vformat gen_context_passthrough_types gen_context_special_types
      parse (src_get_field ctx) (src_vformat ctx) convert_field format_field
      (src_special_value ctx (fmt_iter ctx f)) (fmt_iter ctx f) v.
Proof. exact format_value_is_vformat. Qed.
Print Assumptions C08_source_vformat_is_model.

(** the special tags' get_value (pypyr/dsl.py) *)
Theorem C08_source_special_tags_is_model : forall ctx rec v,
  src_special_value ctx rec v =
  match v with
  | VPy src e => gen_PyString_get_value (fun _ => eval_py (S (pyexpr_size e)) ctx e) src
  | VSic s => gen_SicString_get_value s
  | VJsonify x =>
      gen_Jsonify_get_value (fun y => rec y false) (fun y => res_of_opt (json_dumps y)) x
  | _ => Unsup
  end.
Proof. exact special_value_is_source. Qed.
Print Assumptions C08_source_special_tags_is_model.

(** how Context constructs and calls the formatter *)
Theorem C08_source_context_formatter_is_model :
  gen_formatter_attrs = ["passthrough_types"; "special_types"]
  /\ gen_context_passthrough_types = None
  /\ gen_context_special_types = Some ["SpecialTagDirective"]
  /\ gen_context_get_formatted_value_call = mk_src_ambient true true
  /\ gen_context_get_formatted_call = mk_src_ambient true true
  /\ gen_context_get_formatted_as_type_call = mk_src_ambient true true
  /\ gen_context_iter_formatted_strings_call = mk_src_ambient true true.
Proof. exact context_formatter_is_model. Qed.
Print Assumptions C08_source_context_formatter_is_model.

From PV Require Import Leaves GenProofs.
Open Scope string_scope.
(** in which namespace a !py expression is evaluated, read from the source
    ([Context.get_eval_string]): a chain whose first map is a fresh empty dict made by that call, then
    the context, then the imports — a name bound by := in one expression can neither reach the context
    nor be seen by a later expression *)
Theorem C08_source_eval_scope_is_fresh_chain :
  gen_eval_scope = (["{}"; "self"; "self._pystring_globals"]%list, true).
Proof. exact gen_eval_scope_is_fresh_chain. Qed.
Print Assumptions C08_source_eval_scope_is_fresh_chain.

