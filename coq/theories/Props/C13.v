(** Props/C13.v — caches are transparent, single-flight and never remember failures.

    [reach nc progs sched] is the state after running the scheduler [sched] — an ARBITRARY
    list of thread ids, any length, any number of threads — from the initial state in which
    thread [t] is to execute the operations [nth t progs []] ([OGet (parent,name) ok] /
    [OClear]) against one [Cache] object, with [config.no_cache = nc].  Every statement
    is for all programs and all schedules.  Since every prefix of a schedule is a schedule,
    a statement about "the log since the last clear" in every reachable state is a
    statement about every epoch of every run.

    Assumed (partial): [threading.Lock] is a mutex and dict get/set/clear are atomic —
    that is what the [PAcquire] / [PStore] / ... instructions of Model/Cache.v encode. *)
From PV Require Import Cache CacheProofs GenC13 GenC13Proofs.
Open Scope string_scope.

(** mutual exclusion: at most one thread is between Acquire and Release, and it is the
    lock's owner *)
Theorem C13_mutex : forall nc progs sched t1 t2,
  let st := reach nc progs sched in
  holds (threads st t1) = true -> holds (threads st t2) = true -> t1 = t2.
Proof. exact mutex. Qed.
Print Assumptions C13_mutex.

Theorem C13_lock_owner : forall nc progs sched t,
  let st := reach nc progs sched in
  lock st = Some t <-> holds (threads st t) = true.
Proof. exact lock_owner. Qed.
Print Assumptions C13_lock_owner.

(** single flight: per key, since the last clear, at most one creator call succeeded *)
Theorem C13_single_flight : forall progs sched k,
  (length (created_for k (since_clear (log (reach false progs sched)))) <= 1)%nat.
Proof. exact single_flight. Qed.
Print Assumptions C13_single_flight.

(** ... the stored object is that one ... *)
Theorem C13_stored_is_the_created_one : forall progs sched k o,
  let st := reach false progs sched in
  store st k = Some o -> created_for k (since_clear (log st)) = [o].
Proof. exact stored_is_the_created_one. Qed.
Print Assumptions C13_stored_is_the_created_one.

(** ... and while a key is stored no thread is inside a creator for it *)
Theorem C13_no_recreate_while_stored : forall nc progs sched t k,
  let st := reach nc progs sched in
  creating (threads st t) k = true -> store st k = None.
Proof. exact no_recreate_while_stored. Qed.
Print Assumptions C13_no_recreate_while_stored.

(** same object: everything handed out under the lock for key k since the last clear is
    the object stored under k; hence any two look-ups of one epoch got the same object *)
Theorem C13_same_object : forall nc progs sched k o,
  let st := reach nc progs sched in
  In o (got_for k (since_clear (log st))) -> store st k = Some o.
Proof. exact same_object. Qed.
Print Assumptions C13_same_object.

Theorem C13_same_object_pair : forall nc progs sched k o1 o2,
  let l := since_clear (log (reach nc progs sched)) in
  In o1 (got_for k l) -> In o2 (got_for k l) -> o1 = o2.
Proof. exact same_object_pair. Qed.
Print Assumptions C13_same_object_pair.

(** what [get] returns to its caller is what that call loaded or stored under the lock *)
Theorem C13_return_is_got : forall progs sched t r o,
  let st := reach false progs sched in
  In (ERet t r o) (log st) -> got_ev t r o (log st).
Proof. exact return_is_got. Qed.
Print Assumptions C13_return_is_got.

(** a raising creator: the dict is untouched, the key stays absent, the lock is free
    again, the exception reaches the caller *)
Theorem C13_failure_not_cached : forall nc progs sched t r rest rg,
  let st := reach nc progs sched in
  threads st t = mkTh (OGet r false :: rest) PCreateExit rg ->
  let st3 := step t (step t (step t st)) in
  store (step t st) = store st /\ store st3 = store st /\ store st3 (key_of r) = None /\
  lock st3 = None /\ threads st3 t = mkTh rest P0 None /\
  log st3 = ERaise t r :: ERel t :: EFailed t r :: log st.
Proof. exact failure_not_cached. Qed.
Print Assumptions C13_failure_not_cached.

Theorem C13_raising_thread_holds_no_lock : forall nc progs sched t,
  let st := reach nc progs sched in
  tpc (threads st t) = PRaise -> lock st <> Some t.
Proof. exact raising_thread_holds_no_lock. Qed.
Print Assumptions C13_raising_thread_holds_no_lock.

(** ... so a later look-up tries again: whoever finds the key absent calls the creator *)
Theorem C13_miss_calls_creator : forall st t r ok rest rg,
  threads st t = mkTh (OGet r ok :: rest) PIfContains rg ->
  store st (key_of r) = None ->
  tpc (threads (step t st) t) = PCreateEnter /\
  log (step t (step t st)) = ECall t r :: log st.
Proof. exact miss_calls_creator. Qed.
Print Assumptions C13_miss_calls_creator.

(** clear: every key is absent afterwards and a new epoch starts (so, by
    [C13_miss_calls_creator], the next look-up creates afresh) ... *)
Theorem C13_clear_recreates : forall st t rest rg,
  threads st t = mkTh (OClear :: rest) PClearAll rg ->
  forall k, store (step t st) k = None /\
            created_for k (since_clear (log (step t st))) = [] /\
            got_for k (since_clear (log (step t st))) = [].
Proof. exact clear_empties. Qed.
Print Assumptions C13_clear_recreates.

(** ... with an object different from every object created before *)
Theorem C13_fresh_objects : forall nc progs sched,
  NoDup (all_created (log (reach nc progs sched))).
Proof. exact fresh_objects. Qed.
Print Assumptions C13_fresh_objects.

(** caching disabled: nothing is ever stored, every look-up calls its creator exactly
    once and returns the object of that very call *)
Theorem C13_no_cache_never_stores : forall progs sched k,
  store (reach true progs sched) k = None.
Proof. exact no_cache_never_stores. Qed.
Print Assumptions C13_no_cache_never_stores.

Theorem C13_no_cache_calls_every_time : forall progs sched t,
  let st := reach true progs sched in
  calls_by t (log st) = (finished_by t (log st) + inflight (threads st t))%nat.
Proof. exact no_cache_calls_every_time. Qed.
Print Assumptions C13_no_cache_calls_every_time.

Theorem C13_no_cache_returns_own_creation : forall progs sched t r o,
  let st := reach true progs sched in
  In (ERet t r o) (log st) -> In (ECreated t r o) (log st).
Proof. exact no_cache_returns_own_creation. Qed.
Print Assumptions C13_no_cache_returns_own_creation.

(** transparent: with or without the cache, under any schedule, a look-up returns an
    object iff the creator of its key succeeds and raises iff it raises (results equal
    modulo object identity), when what a creator does depends only on the key *)
Theorem C13_no_cache_transparent : forall okf nc progs sched,
  Forall (Forall (fun o => op_ok okf o = true)) progs ->
  let st := reach nc progs sched in
  (forall t r o, In (ERet t r o) (log st) -> okf (key_of r) = true) /\
  (forall t r, In (ERaise t r) (log st) -> okf (key_of r) = false).
Proof. exact outcome_is_the_creators. Qed.
Print Assumptions C13_no_cache_transparent.

(** whatever is returned for a request was made by a creator invoked for the same KEY *)
Theorem C13_returned_object_made_for_key : forall nc progs sched t r o,
  let st := reach nc progs sched in
  In (ERet t r o) (log st) ->
  exists t' r', In (ECreated t' r' o) (log st) /\ key_of r' = key_of r.
Proof. exact returned_object_made_for_key. Qed.
Print Assumptions C13_returned_object_made_for_key.

(** * The key  (f'{parent}' if parent else None, name)

    Requests are compared modulo [norm_req]: a falsy parent ([None] or [""]) is "no parent"
    to the key and to every consumer ([if parent:]), so [(None, n)] and [(Some "", n)] are
    the same request.  Modulo exactly that, the key is injective ... *)
Theorem C13_key_injective : forall r r',
  key_of r = key_of r' -> norm_req r = norm_req r'.
Proof. exact key_injective. Qed.
Print Assumptions C13_key_injective.

(** ... (and not finer than the normalisation: same request, same key) ... *)
Theorem C13_key_complete : forall r r',
  norm_req r = norm_req r' -> key_of r = key_of r'.
Proof. exact key_complete. Qed.
Print Assumptions C13_key_complete.

(** ... so distinct requests never receive each other's object: for every program, every
    schedule, with or without caching, what a request is handed was made by a creator
    invoked for that same request *)
Theorem C13_no_cross_talk : forall nc progs sched t r o,
  let st := reach nc progs sched in
  In (ERet t r o) (log st) ->
  exists t' r', In (ECreated t' r' o) (log st) /\ norm_req r' = norm_req r.
Proof. exact no_cross_talk. Qed.
Print Assumptions C13_no_cross_talk.

(** * pypyr.moduleloader.add_sys_path: for every schedule, each directory is appended to
      sys.path at most once, and never when it was already there; its lock is a mutex *)
Theorem C13_sys_path_no_duplicates : forall sp0 progs sched,
  let st := arun sched (ainit sp0 progs) in
  base st = sp0 /\ NoDup (added st) /\ forall p, In p (added st) -> ~ In p sp0.
Proof. exact asp_no_duplicates. Qed.
Print Assumptions C13_sys_path_no_duplicates.

Theorem C13_sys_path_mutex : forall sp0 progs sched t1 t2,
  let st := arun sched (ainit sp0 progs) in
  aholds (athreads st t1) = true -> aholds (athreads st t2) = true -> t1 = t2.
Proof. exact asp_mutex. Qed.
Print Assumptions C13_sys_path_mutex.

(** * Tie B: the model is the CURRENT source

    [gen_get_code] / [gen_clear_code] (Gen/GenC13.v) are the control-flow tables compiled by
    tools/py2coq_c13.py from the text of Cache.get / Cache.clear at build time; [nstep] runs
    them; [corr n s] = same log, lock, counter, no_cache flag, and pointwise the same store
    and threads (program, program point via [dec_get]/[dec_clear], register). *)
Theorem C13_source_step_is_model : forall t n s,
  corr n s -> corr (nstep gen_get_code gen_clear_code t n) (step t s).
Proof. exact gen_step_is_model. Qed.
Print Assumptions C13_source_step_is_model.

Theorem C13_source_machine_is_model : forall nc progs sched,
  corr (nrun gen_get_code gen_clear_code sched (ninit nc progs)) (reach nc progs sched).
Proof. exact gen_machine_is_model. Qed.
Print Assumptions C13_source_machine_is_model.

Theorem C13_source_log_is_model : forall nc progs sched,
  nlog (nrun gen_get_code gen_clear_code sched (ninit nc progs)) = log (reach nc progs sched).
Proof. exact gen_machine_log. Qed.
Print Assumptions C13_source_log_is_model.

(** the key expression in the current Loader.get_pipeline *)
Theorem C13_source_pipeline_key_is_model : forall parent name,
  gen_pipeline_key parent name = pipeline_key parent name.
Proof. exact gen_pipeline_key_is_model. Qed.
Print Assumptions C13_source_pipeline_key_is_model.

(** the headline properties restated directly on the machine compiled from the source *)
Theorem C13_source_single_flight : forall progs sched k,
  (length (created_for k (since_clear
     (nlog (nrun gen_get_code gen_clear_code sched (ninit false progs))))) <= 1)%nat.
Proof. exact gen_single_flight. Qed.
Print Assumptions C13_source_single_flight.

Theorem C13_source_no_cross_talk : forall nc progs sched t r o,
  let l := nlog (nrun gen_get_code gen_clear_code sched (ninit nc progs)) in
  In (ERet t r o) l ->
  exists t' r', In (ECreated t' r' o) l /\
                gen_pipeline_key (fst r') (snd r') = gen_pipeline_key (fst r) (snd r).
Proof. exact gen_no_cross_talk. Qed.
Print Assumptions C13_source_no_cross_talk.

(** * Non-vacuity: concrete runs (evaluated) *)

Definition ka : req := (None, "a").
Definition kb : req := (Some "/p", "b").

(** two threads race for the same key; thread 1 is blocked on the lock while thread 0 is
    inside the creator; one creation, both get object 0 *)
Definition race_progs : list (list op) := [[OGet ka true]; [OGet ka true]].
Definition race_sched : list tid := [0; 1; 0; 1; 1; 0; 1; 0; 0; 1; 0; 0; 0; 1; 1; 1; 1; 1; 1].

Example C13_race_nonvacuous :
  model_log false race_progs race_sched =
    [EAcq 0; ECall 0 ka; ECreated 0 ka 0%Z; EStore 0 ka 0%Z; ERel 0; ERet 0 ka 0%Z; EAcq 1;
     ELoad 1 ka 0%Z; ERel 1; ERet 1 ka 0%Z]
  /\ holds (threads (reach false race_progs [0; 1; 0; 1; 1; 0]) 0) = true
  /\ creating (threads (reach false race_progs [0; 1; 0; 1; 1; 0]) 0) (key_of ka) = true
  /\ tpc (threads (reach false race_progs [0; 1; 0; 1; 1; 0]) 1) = PAcquire.
Proof. vm_compute. repeat split. Qed.

(** failure is not remembered, clear starts afresh *)
Definition fail_progs : list (list op) :=
  [[OGet kb false; OGet kb true; OGet kb true; OClear; OGet kb true]].

Example C13_fail_clear_nonvacuous :
  filter op_level (model_log false fail_progs (repeat 0 40)) =
    [ECall 0 kb; EFailed 0 kb; ERaise 0 kb;
     ECall 0 kb; ECreated 0 kb 0%Z; ERet 0 kb 0%Z;
     ERet 0 kb 0%Z;
     ECleared 0;
     ECall 0 kb; ECreated 0 kb 1%Z; ERet 0 kb 1%Z]
  /\ threads (reach false fail_progs [0; 0; 0; 0]) 0
     = mkTh [OGet kb false; OGet kb true; OGet kb true; OClear; OGet kb true] PCreateExit None
  /\ filter op_level (model_log true fail_progs (repeat 0 40)) =
    [ECall 0 kb; EFailed 0 kb; ERaise 0 kb;
     ECall 0 kb; ECreated 0 kb 0%Z; ERet 0 kb 0%Z;
     ECall 0 kb; ECreated 0 kb 1%Z; ERet 0 kb 1%Z;
     ECleared 0;
     ECall 0 kb; ECreated 0 kb 2%Z; ERet 0 kb 2%Z].
Proof. vm_compute. repeat split. Qed.

Example C13_transparent_nonvacuous :
  Forall (Forall (fun o => op_ok (fun _ => true) o = true)) race_progs /\
  norm_req (Some "", "n") = norm_req (None, "n") /\
  norm_req (Some "/x", "a+b") <> norm_req (Some "/x+a", "b").
Proof. repeat split; repeat constructor. discriminate. Qed.

(** the requests that collided under the old key f'{parent}+{name}' now have distinct
    keys, each runs its own creator and gets its own object *)
Example C13_former_collision_nonvacuous :
  key_of (Some "/x", "a+b") <> key_of (Some "/x+a", "b") /\
  key_of (None, "q+r") <> key_of (Some "q", "r") /\
  filter op_level (model_log false collide_progs collide_sched) =
    [ECall 0 (Some "/x", "a+b"); ECreated 0 (Some "/x", "a+b") 0%Z; ERet 0 (Some "/x", "a+b") 0%Z;
     ECall 0 (Some "/x+a", "b"); ECreated 0 (Some "/x+a", "b") 1%Z; ERet 0 (Some "/x+a", "b") 1%Z;
     ECall 0 (None, "q+r"); ECreated 0 (None, "q+r") 2%Z; ERet 0 (None, "q+r") 2%Z;
     ECall 0 (Some "q", "r"); ECreated 0 (Some "q", "r") 3%Z; ERet 0 (Some "q", "r") 3%Z].
Proof. vm_compute. repeat split; discriminate. Qed.

(** three threads add the same two directories; "/d2" is already on sys.path *)
Example C13_sys_path_nonvacuous :
  let st := arun [0; 1; 2; 0; 1; 0; 0; 1; 0; 2; 0; 1; 1; 1; 1; 2; 2; 2; 2; 2; 0; 0; 0; 0; 0; 0; 1; 1; 1; 1; 1; 1; 2; 2; 2; 2; 2; 2]
                 (ainit ["/d2"] [[("/d1", true); ("/d2", true)]; [("/d1", true)]; [("/d2", true); ("/d1", true); ("/nope", false)]]) in
  added st = ["/d1"] /\ alock st = None /\
  rev (alog st) = [AEAcq 0; AEAppend 0 "/d1"; AERel 0; AEAcq 2; AEKnown 0 "/d1"; AERel 2;
                   AEKnown 2 "/d2"; AEAcq 1; AERel 1; AEKnown 1 "/d1"; AEKnown 2 "/nope"].
Proof. vm_compute. repeat split. Qed.

(** the generated tables are the 13 + 4 program points of the model *)
Example C13_source_nonvacuous :
  length gen_get_code = 13%nat /\ length gen_clear_code = 4%nat /\
  map dec_get (seq 0 13) = [P0; PNcEnter; PNcExit; PReturn; PRaise; PAcquire; PIfContains; PLoad;
                            PRelease; PReleaseExc; PCreateEnter; PCreateExit; PStore] /\
  rev (nlog (nrun gen_get_code gen_clear_code race_sched (ninit false race_progs)))
  = model_log false race_progs race_sched.
Proof. vm_compute. repeat split. Qed.
