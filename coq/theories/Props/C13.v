(** Props/C13.v — placeholder, to be written. *)
