(** Props/C06.v — retry attempts, error filters and the back-off sleep schedule.
    The loop driver is the same [poll] as for while: C05_while_ends_on_stop (success ends the
    loop, no sleep after), C05_while_ends_on_max, C05_while_sleeps_between (exactly the
    strategy's duration for that attempt number, between attempts only) apply verbatim with
    [iter := retry_iter] and [interval := backoff ...]; they are restated here for retry. *)
From PV Require Import Engine EngineProofs Leaves GenProofs Ctl Control CtlProofs.
From Coq Require Import QArith.
Open Scope string_scope.
Notation RG := (list val -> option string -> option string -> st -> R).
Notation RP := (string -> option (list string) -> option (list val) -> option string -> option string -> st -> R).

(** attempt n runs with retryCounter = n; success ends the loop *)
Theorem C06_attempt_success : forall (rg : RG) (rp : RP) rc sp k max n s s1,
  invoke rg rp sp (mkcnt (k_while k) (k_for k) (Some n))
         (set_ctx s (sset "retryCounter" (VInt n) (ctx s))) = (OOk, s1) ->
  retry_iter rg rp rc sp k max n s = (IDone true, s1).
Proof. exact retry_iter_ok. Qed.
Print Assumptions C06_attempt_success.

Theorem C06_no_sleep_after_success : forall fuel iter interval max i s s1,
  iter (i + 1)%Z s = (IDone true, s1) ->
  poll (S fuel) iter interval max i s = (IDone true, s1).
Proof. exact poll_done. Qed.
Print Assumptions C06_no_sleep_after_success.

(** the error of attempt number max propagates, as that very error, with no sleep after it *)
Theorem C06_last_attempt_error_propagates : forall (rg : RG) (rp : RP) rc sp k m n s name msg eid s1,
  invoke rg rp sp (mkcnt (k_while k) (k_for k) (Some n))
         (set_ctx s (sset "retryCounter" (VInt n) (ctx s))) = (ORaise (RExn name msg eid), s1) ->
  m <> 0%Z -> n = m ->
  retry_iter rg rp rc sp k (Some m) n s = (IRaise (ORaise (RExn name msg eid)), s1).
Proof. exact retry_iter_at_max. Qed.
Print Assumptions C06_last_attempt_error_propagates.

Theorem C06_no_sleep_after_last_attempt : forall fuel iter interval max i s o s1,
  iter (i + 1)%Z s = (IRaise o, s1) ->
  poll (S fuel) iter interval max i s = (IRaise o, s1).
Proof. exact poll_raise. Qed.
Print Assumptions C06_no_sleep_after_last_attempt.

(** below max, without filters, a failure is absorbed and the step is attempted again ... *)
Theorem C06_failure_below_max_retries : forall (rg : RG) (rp : RP) rc sp k max n s name msg eid s1,
  invoke rg rp sp (mkcnt (k_while k) (k_for k) (Some n))
         (set_ctx s (sset "retryCounter" (VInt n) (ctx s))) = (ORaise (RExn name msg eid), s1) ->
  (max = None \/ max = Some 0%Z \/ exists m, max = Some m /\ n <> m) ->
  opt_truth (r_stopon rc) = false -> opt_truth (r_retryon rc) = false ->
  retry_iter rg rp rc sp k max n s = (IDone false, s1).
Proof. exact retry_iter_absorbed. Qed.
Print Assumptions C06_failure_below_max_retries.

(** ... after exactly one sleep of the strategy's duration for that attempt number *)
Theorem C06_sleep_between_attempts : forall fuel iter interval max i s s1 d,
  iter (i + 1)%Z s = (IDone false, s1) -> interval (Z.to_nat (i + 1)) = Some d ->
  (max = None \/ max = Some 0%Z \/ exists m, max = Some m /\ (i + 1 < m)%Z) ->
  poll (S fuel) iter interval max i s = poll fuel iter interval max (i + 1)%Z (add_sleep s1 d).
Proof. exact poll_again. Qed.
Print Assumptions C06_sleep_between_attempts.

(** stopOn: a listed error propagates at once *)
Theorem C06_stop_on : forall (rg : RG) (rp : RP) rc sp k max n s name msg eid s1 l fl,
  invoke rg rp sp (mkcnt (k_while k) (k_for k) (Some n))
         (set_ctx s (sset "retryCounter" (VInt n) (ctx s))) = (ORaise (RExn name msg eid), s1) ->
  (max = None \/ max = Some 0%Z \/ exists m, max = Some m /\ n <> m) ->
  r_stopon rc = Some l -> py_truth l = true -> fmt s1 l = Ok (VList fl) ->
  py_in (VStr name) fl = true ->
  retry_iter rg rp rc sp k max n s = (IRaise (ORaise (RExn name msg eid)), s1).
Proof. exact retry_iter_stop_on. Qed.
Print Assumptions C06_stop_on.

(** retryOn: an error not listed in a non-empty retryOn propagates at once *)
Theorem C06_retry_on : forall (rg : RG) (rp : RP) rc sp k max n s name msg eid s1 l fl,
  invoke rg rp sp (mkcnt (k_while k) (k_for k) (Some n))
         (set_ctx s (sset "retryCounter" (VInt n) (ctx s))) = (ORaise (RExn name msg eid), s1) ->
  (max = None \/ max = Some 0%Z \/ exists m, max = Some m /\ n <> m) ->
  opt_truth (r_stopon rc) = false ->
  r_retryon rc = Some l -> py_truth l = true -> fmt s1 l = Ok (VList fl) ->
  py_in (VStr name) fl = false ->
  retry_iter rg rp rc sp k max n s = (IRaise (ORaise (RExn name msg eid)), s1).
Proof. exact retry_iter_not_retry_on. Qed.
Print Assumptions C06_retry_on.

(** the strategies, for every attempt number n, sleep s, cap, base *)
Theorem C06_fixed : forall q mx jrc r base n,
  backoff "fixed" (VFloat q) mx jrc r base n = Some (qmin_opt q mx).
Proof. exact backoff_fixed_scalar. Qed.
Print Assumptions C06_fixed.

Theorem C06_fixed_list : forall l mx jrc r base n v q,
  nth_error l (n - 1) = Some v -> q_of v = Ok q ->
  backoff "fixed" (VList l) mx jrc r base n = Some (qmin_opt q mx).
Proof. exact backoff_fixed_list. Qed.
Print Assumptions C06_fixed_list.

Theorem C06_fixed_list_last_repeats : forall l mx jrc r base n q,
  l <> [] -> nth_error l (n - 1) = None -> q_of (last l VNone) = Ok q ->
  backoff "fixed" (VList l) mx jrc r base n = Some (qmin_opt q mx).
Proof. exact backoff_fixed_list_beyond. Qed.
Print Assumptions C06_fixed_list_last_repeats.

Theorem C06_linear : forall s q mx jrc r base n,
  q_of s = Ok q ->
  backoff "linear" s mx jrc r base n = Some (qmin_opt (inject_Z (Z.of_nat n) * q) mx).
Proof. exact backoff_linear. Qed.
Print Assumptions C06_linear.

Theorem C06_exponential : forall s q mx jrc r base n,
  q_of s = Ok q ->
  backoff "exponential" s mx jrc r base n = Some (qmin_opt (qpow base n * q) mx).
Proof. exact backoff_exponential. Qed.
Print Assumptions C06_exponential.

(** Tie B: the strategies above are the formulas GENERATED from the current source of
    pypyr/retries.py (linear.__call__, exponential.__call__, BackoffBase.min) *)
Theorem C06_linear_is_the_code : forall sleep mx jrc r base n,
  backoff "linear" (VFloat sleep) mx jrc r base n = Some (gen_linear sleep mx n).
Proof. exact gen_linear_is_model. Qed.
Print Assumptions C06_linear_is_the_code.

Theorem C06_exponential_is_the_code : forall sleep mx jrc r base n,
  backoff "exponential" (VFloat sleep) mx jrc r base n = Some (gen_exponential sleep base mx n).
Proof. exact gen_exponential_is_model. Qed.
Print Assumptions C06_exponential_is_the_code.

Theorem C06_cap_is_the_code : forall mx x, gen_backoff_min mx x = qmin_opt x mx.
Proof. exact gen_backoff_min_is_model. Qed.
Print Assumptions C06_cap_is_the_code.

(** capped by sleepMax *)
Theorem C06_cap : forall x m,
  ~ m == 0 -> qmin_opt x (Some m) <= m /\ qmin_opt x (Some m) <= x
              /\ (qmin_opt x (Some m) = x \/ qmin_opt x (Some m) = m).
Proof. exact qmin_opt_cap. Qed.
Print Assumptions C06_cap.

(** jitter is applied to the capped duration d ... *)
Theorem C06_jitter_after_cap : forall s mx jrc r base n,
  backoff "jitter" s mx jrc r base n = option_map (jitter_q jrc r) (backoff "fixed" s mx jrc r base n)
  /\ backoff "linearjitter" s mx jrc r base n
     = option_map (jitter_q jrc r) (backoff "linear" s mx jrc r base n)
  /\ backoff "exponentialjitter" s mx jrc r base n
     = option_map (jitter_q jrc r) (backoff "exponential" s mx jrc r base n).
Proof. exact backoff_jitter_after_cap. Qed.
Print Assumptions C06_jitter_after_cap.

(** ... and stays within [jrc*d, d] for every draw r in [0,1] *)
Theorem C06_jitter_bounds : forall jrc r d,
  0 <= jrc -> jrc <= 1 -> 0 <= r -> r <= 1 -> 0 <= d ->
  jrc * d <= jitter_q jrc r d /\ jitter_q jrc r d <= d.
Proof. exact jitter_bounds. Qed.
Print Assumptions C06_jitter_bounds.

(** * Tie B: one retry attempt READ FROM THE SOURCE ([RetryDecorator.exec_iteration], pypyr/dsl.py)
    is the model's [retry_iter]: retryCounter written first; instructions pass; at max the error of
    this attempt propagates; otherwise stopOn is consulted before retryOn, both against the name of
    the error (its cause when it is a HandledError), formatted at that moment. *)
Theorem C06_source_attempt_is_model : forall (rg : RG) (rp : RP) rc sp k max n s,
  gen_retry_exec_iteration rc
    (fun c => invoke rg rp sp (mkcnt (k_while k) (k_for k) (Some c))) n max s
  = retry_iter rg rp rc sp k max n s.
Proof. exact gen_retry_exec_iteration_is_model. Qed.
Print Assumptions C06_source_attempt_is_model.

(** the polling loop READ FROM THE SOURCE (pypyr/utils/poll.py::while_until_true): the attempt
    counter starts at 1; no sleep after success; after a failed attempt the back-off duration of
    THAT attempt number is slept — unless max attempts are used up, in which case the loop ends
    without sleeping; max of None or 0 means unbounded.  It is the model's [poll]. *)
Theorem C06_source_poll_is_model : forall iter (interval : nat -> option Q) max fuel c s,
  gen_sleep_looper iter true (fun i => interval (Z.to_nat i)) c max fuel s
  = poll fuel iter interval max 0 s.
Proof. exact gen_sleep_looper_is_model. Qed.
Print Assumptions C06_source_poll_is_model.

(** [RetryDecorator.retry_loop] READ FROM THE SOURCE: retryCounter starts at 0; sleep, back-off name
    (default from config), sleepMax (as float), jrc, backoffArgs are formatted in that order, each
    once, before the first attempt; the back-off callable is built from them; only then is max read
    (as int; absent / falsy = unbounded); the attempts are polled with that callable and max; a
    poll that ends false is an AssertionError.  It is the model's [retry_loop]. *)
Theorem C06_source_retry_loop_is_model : forall (rg : RG) (rp : RP) rc sp k s,
  gen_retry_loop rc
    (fun s0 bname sleep mx jrcv args => mk_interval (jit s0) bname sleep mx jrcv args)
    (fun interval max_attempts max s0 =>
       poll LOOPFUEL (retry_iter rg rp rc sp k max) interval max_attempts 0 s0) s
  = retry_loop rg rp rc sp k s.
Proof. exact gen_retry_loop_is_model. Qed.
Print Assumptions C06_source_retry_loop_is_model.

(** ... and the three generated layers composed — retry_loop polling exec_iteration through
    while_until_true's sleep_looper, all as read from the source — are the model's [retry_loop]:
    what is left to the hand-written side is the back-off formulas (tied above), the step
    invocation ([invoke], tied in C03) and formatting (C08). *)
Theorem C06_source_retry_stack_is_model : forall (rg : RG) (rp : RP) rc sp k s,
  gen_retry_loop rc
    (fun s0 bname sleep mx jrcv args => mk_interval (jit s0) bname sleep mx jrcv args)
    (fun interval max_attempts max s0 =>
       gen_sleep_looper
         (fun n => gen_retry_exec_iteration rc
                     (fun c => invoke rg rp sp (mkcnt (k_while k) (k_for k) (Some c))) n max)
         true (fun i => interval (Z.to_nat i)) None max_attempts LOOPFUEL s0) s
  = retry_loop rg rp rc sp k s.
Proof. exact gen_retry_stack_is_model. Qed.
Print Assumptions C06_source_retry_stack_is_model.

(** * Non-vacuity: fails while retryCounter < 3, linear back-off 1/2 capped at 3/4 *)
Definition lib6 : library :=
  [("main", [("steps", Some [
      mkstep "vfail" BFail
             (Some [(VStr "vfail", VDict [(VStr "err", VStr "ValueError"); (VStr "msg", VStr "x");
                     (VStr "when", VPy "(retryCounter < 3)" (ECmp CLt (EName "retryCounter") (EInt 3)))])])
             None None
             (Some (mkr (Some (VInt 4)) (VFloat (1 # 2)) (Some (VStr "linear")) None (VInt 0)
                        (Some (VFloat (3 # 4))) None None))
             (VBool true) (VBool false) (VBool false) None (Some (1, 5)%Z) None])])].
Example C06_nonvacuous :
  let r := api_run EFUEL lib6 "main" [] None None None (1 # 4) in
  fst r = OOk /\ sleeps (snd r) = [1 # 2; 3 # 4] /\ sget "retryCounter" (ctx (snd r)) = Some (VInt 3)
  /\ sget "runErrors" (ctx (snd r)) = None.
Proof. vm_compute. repeat split; reflexivity. Qed.
