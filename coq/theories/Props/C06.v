(** Props/C06.v — placeholder, to be written. *)
