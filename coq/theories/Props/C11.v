(** Props/C11.v — placeholder, to be written. *)
