(** Props/C11.v — pype: child context isolation, out mapping, error and stop propagation,
    and the pipeline call-stack. [rp] = the child pipeline run: every theorem holds for ALL
    child behaviours (any child pipeline, any depth of further pypes). *)
From PV Require Import Engine EngineProofs Ctl Control CtlProofs.
Open Scope string_scope.
Notation RG := (list val -> option string -> option string -> st -> R).
Notation RP := (string -> option (list string) -> option (list val) -> option string -> option string -> st -> R).

(** own context: the child starts from [args] only, on a fresh call stack; afterwards the
    parent gets back its own context and stack, plus [out] *)
Theorem C11_own_context : forall (rp : RP) s pa,
  get_arguments s = Ok pa -> pa_use_parent pa = false ->
  pype_step rp s =
  (let '(o, child) := rp (pa_name pa) (pa_parse pa) (pa_groups pa) (pa_success pa) (pa_failure pa)
                         (child_start pa s) in
   let parent := back_in_parent s child in
   pype_guard pa
     (match o with
      | OOk =>
          match pa_out pa with
          | Some out =>
              if py_truth out then
                match out_pairs out with
                | Some pairs => write_out pairs child parent
                | None => (OUnsup, parent)
                end
              else (OOk, parent)
          | None => (OOk, parent)
          end
      | _ => (o, parent)
      end)).
Proof. exact pype_step_own_context. Qed.
Print Assumptions C11_own_context.

(** isolation: every parent key not named by [out] keeps its value, whatever the child did *)
Theorem C11_isolation : forall (rp : RP) s pa key,
  get_arguments s = Ok pa -> pa_use_parent pa = false ->
  (forall out pairs, pa_out pa = Some out -> out_pairs out = Some pairs ->
     Forall (fun kv : val * val => val_eqb (fst kv) (VStr key) = false) pairs) ->
  sget key (ctx (snd (pype_step rp s))) = sget key (ctx s).
Proof. exact pype_isolation. Qed.
Print Assumptions C11_isolation.

(** shared context: the child runs on the parent's very context (args merged in first) *)
Theorem C11_shared_context : forall (rp : RP) s pa,
  get_arguments s = Ok pa -> pa_use_parent pa = true ->
  pype_step rp s =
  pype_guard pa (rp (pa_name pa) (pa_parse pa) (pa_groups pa) (pa_success pa) (pa_failure pa)
                    (match pa_args pa with
                     | Some ((_ :: _) as a) => set_ctx s (dict_update (ctx s) a)
                     | _ => s
                     end)).
Proof. exact pype_step_shared_context. Qed.
Print Assumptions C11_shared_context.

(** a child error fails the pype step unless raiseError is false, then the parent carries on *)
Theorem C11_error_table : forall pa n m e s',
  pype_guard pa (ORaise (RExn n m e), s') =
  if pa_raise pa then (ORaise (RExn n m e), s') else (OOk, s').
Proof. exact pype_guard_error. Qed.
Print Assumptions C11_error_table.

(** Stop passes through (to end all pipelines) ... *)
Theorem C11_stop_passes : forall pa sg s', pype_guard pa (ORaise (RSig sg), s') = (ORaise (RSig sg), s').
Proof. exact pype_guard_signal. Qed.
Print Assumptions C11_stop_passes.

(** ... whereas StopPipeline ends only the child: its run reports success to the pype step *)
Theorem C11_stoppipeline_ends_child : forall lib (rg : RG) (rfail : string -> st -> R) name pl groups su fa s s1,
  find (fun p => String.eqb (fst p) name) lib = Some pl ->
  rg (effective_groups groups)
     (if defaulted groups su fa then Some "on_success" else su)
     (if defaulted groups su fa then Some "on_failure" else fa)
     (set_stack s (name :: stack s)) = (ORaise (RSig SStopPipeline), s1) ->
  load_and_run lib rg rfail name None groups su fa s = (OOk, set_stack s1 (tl (stack s1))).
Proof. exact load_and_run_stoppipeline. Qed.
Print Assumptions C11_stoppipeline_ends_child.

(** a child whose context parser fails: its failure group runs first (once, on the context as
    it was), and the parser's own error is what the pype step then receives *)
Theorem C11_child_parser_failure : forall (rg : RG) (rfail : string -> st -> R)
    parser parse groups su fa s n m e s0 fg,
  prepare_context parser parse s = (ORaise (RExn n m e), s0) ->
  (if defaulted groups su fa then Some "on_failure" else fa) = Some fg -> fg <> "" ->
  run_pipeline_inner rg rfail parser parse groups su fa s =
  match rfail fg s0 with
  | (ORaise (RSig SStopStepGroup), s1) | (OOk, s1) => (ORaise (RExn n m e), s1)
  | (ORaise (RSig SStopPipeline), s1) => (OOk, s1)
  | r => r
  end.
Proof. exact run_pipeline_inner_parser_fails. Qed.
Print Assumptions C11_child_parser_failure.

(** after the child ended IN ANY WAY the parent is again the current pipeline.
    own context: directly *)
Theorem C11_stack_own_context : forall (rp : RP) s pa,
  get_arguments s = Ok pa -> pa_use_parent pa = false ->
  stack (snd (pype_step rp s)) = stack s.
Proof. exact pype_own_context_stack. Qed.
Print Assumptions C11_stack_own_context.

(** in general (shared context included), for every library, fuel, outcome: push / run /
    pop-in-finally leaves the call stack balanced — by induction on fuel over the whole
    interpreter ([ext] also says trace and clock only grow) *)
Theorem C11_stack_balanced : forall fuel lib name parse gs su fa, good (run_pipeline fuel lib name parse gs su fa).
Proof. exact good_run_pipeline. Qed.
Print Assumptions C11_stack_balanced.

Theorem C11_stack_balanced_groups : forall fuel lib gs su fa, good (run_groups fuel lib gs su fa).
Proof. exact good_run_groups. Qed.
Print Assumptions C11_stack_balanced_groups.

(** * Tie B: how a (child) pipeline starts and ends, read from the source ([Pipeline._run_pipeline]):
    StopPipeline raised by its groups — or by its failure handler after a context-parser error —
    ends THIS pipeline normally and goes no further; Stop and every error propagate to the pype
    step. *)
Theorem C11_source_pipeline_entry_is_model : forall (rg : list val -> option string -> option string -> st -> R)
    (rfail : string -> st -> R) parser parse groups success failure s,
  gen_run_pipeline groups success failure (prepare_context parser parse) rg (rfail_prim rfail) s
  = run_pipeline_inner rg rfail parser parse groups success failure s.
Proof. exact gen_run_pipeline_is_model. Qed.
Print Assumptions C11_source_pipeline_entry_is_model.

(** which outcomes of the child reach the parent, read from the source (the except ladder of
    pypyr/steps/pype.py::run_step around the modelled body): instructions always pass; with
    [raiseError] false every error — of whatever class — is dropped and the parent carries on;
    with it true the error propagates unchanged. *)
Theorem C11_source_pype_guard_is_model : forall (rp : string -> option (list string) -> option (list val) ->
    option string -> option string -> st -> R) s,
  gen_pype_run_step (pype_body rp) s = pype_step rp s.
Proof. exact gen_pype_run_step_is_model. Qed.
Print Assumptions C11_source_pype_guard_is_model.

(** * Non-vacuity: child fails after mutating; parent isolated, carries on, call resolves in parent *)
Definition T (nm : string) (b : body) (inn : dict) : step :=
  mkstep nm b (Some inn) None None None (VBool true) (VBool false) (VBool false) None (Some (1, 5)%Z) None.
Definition lib11 : library :=
  [("main", [("steps", Some [
       T "pypyr.steps.pype" BPype [(VStr "pype", VDict [(VStr "name", VStr "child");
              (VStr "args", VDict [(VStr "x", VInt 1)]); (VStr "raiseError", VBool false)])];
       T "pypyr.steps.call" BCall [(VStr "call", VStr "g")];
       T "vprobe" BProbe [(VStr "ptag", VStr "end")]]);
     ("g", Some [T "vprobe" BProbe [(VStr "ptag", VStr "parent-g")]])]);
   ("child", [("steps", Some [
       T "pypyr.steps.set" BSet [(VStr "set", VDict [(VStr "keep", VStr "childvalue")])];
       T "vfail" BFail [(VStr "vfail", VDict [(VStr "err", VStr "ValueError"); (VStr "msg", VStr "child")])]]);
     ("g", Some [T "vprobe" BProbe [(VStr "ptag", VStr "child-g")]])])].
Definition tags (r : R) : list val :=
  map (fun e => match e with VList (t :: _) => t | _ => VNone end) (trace (snd r)).
Example C11_nonvacuous :
  let r := api_run EFUEL lib11 "main" [(VStr "keep", VStr "mine")] None None None (1 # 4) in
  fst r = OOk /\ tags r = [VStr "parent-g"; VStr "end"] /\
  sget "keep" (ctx (snd r)) = Some (VStr "mine") /\ stack (snd r) = [].
Proof. vm_compute. repeat split; reflexivity. Qed.
