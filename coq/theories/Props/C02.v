(** Props/C02.v — control-of-flow signals are never treated as errors and unwind exactly
    their scope.  The interpreter has one place per layer where an exception could be
    intercepted (step decorators, retry, call, group, failure handler, group runner, pype,
    pipeline, root); each theorem below is that layer, for ALL behaviours of everything
    nested inside it ([rg], [rp] arbitrary). *)
From PV Require Import Engine EngineProofs Ctl Control CtlProofs.
Open Scope string_scope.
Notation RG := (list val -> option string -> option string -> st -> R).
Notation RP := (string -> option (list string) -> option (list val) -> option string -> option string -> st -> R).

(** step decorators: an instruction passes untouched whatever [swallow] says, and nothing is
    added to runErrors (the state is exactly the one the instruction left) *)
Theorem C02_swallow_never_suppresses : forall (rg : RG) (rp : RP) sp k s sg s1,
  as_bool s (s_run sp) = Ok true -> as_bool s (s_skip sp) = Ok false ->
  inner rg rp sp k s = (ORaise (RSig sg), s1) ->
  cond rg rp sp k s = (ORaise (RSig sg), s1).
Proof. exact cond_signal. Qed.
Print Assumptions C02_swallow_never_suppresses.

(** retry: an instruction ends the retry loop at once: no further attempt, no sleep *)
Theorem C02_retry_never_reattempts : forall (rg : RG) (rp : RP) rc sp k max n s sg s1,
  invoke rg rp sp (mkcnt (k_while k) (k_for k) (Some n))
         (set_ctx s (sset "retryCounter" (VInt n) (ctx s))) = (ORaise (RSig sg), s1) ->
  retry_iter rg rp rc sp k max n s = (IRaise (ORaise (RSig sg)), s1).
Proof. exact retry_iter_signal. Qed.
Print Assumptions C02_retry_never_reattempts.

Theorem C02_poll_stops_on_raise : forall fuel iter interval max i s o s1,
  iter (i + 1)%Z s = (IRaise o, s1) ->
  poll (S fuel) iter interval max i s = (IRaise o, s1).
Proof. exact poll_raise. Qed.
Print Assumptions C02_poll_stops_on_raise.

(** call: a Stop raised inside the called groups leaves the call step as that instruction,
    not as a (swallowable, retryable) HandledError; errors are marked handled *)
Theorem C02_call_passes_instructions : forall (rg : RG) (rp : RP) sp k s c s1,
  run_body rp sp s = (ORaise (RSig (SCall c)), s1) ->
  invoke rg rp sp k s =
  (let '(o, s2) := rg (c_groups c) (c_success c) (c_failure c) s1 in
   let s3 := reset_counters sp k c s2 in
   match o with
   | OOk => (OOk, s3)
   | ORaise (RSig sg) => (ORaise (RSig sg), s3)
   | ORaise r => (OHandled r, s3)
   | OHandled _ => (OUnsup, s3)
   | OUnsup => (OUnsup, s3)
   end).
Proof. exact invoke_call. Qed.
Print Assumptions C02_call_passes_instructions.

(** group runner: an instruction never triggers the failure handler *)
Theorem C02_no_failure_handler : forall lib (rg : RG) (rp : RP) g gs names success failure s sg s1,
  names_of (g :: gs) = Some names ->
  main_part lib rg rp names success s = (ORaise (RSig sg), s1) ->
  groups_body lib rg rp (g :: gs) success failure s = (ORaise (RSig sg), s1).
Proof. exact groups_body_signal. Qed.
Print Assumptions C02_no_failure_handler.

(** scopes.  stopstepgroup ends only the current step-group: the group reports success, so
    (C01_groups_in_order) later groups and the success handler still run *)
Theorem C02_stopstepgroup_scope : forall lib (rg : RG) (rp : RP) g s s1,
  run_steps rg rp (get_steps lib g s) s = (ORaise (RSig SStopStepGroup), s1) ->
  run_group lib rg rp g false s = (OOk, s1).
Proof. exact run_group_stopstepgroup. Qed.
Print Assumptions C02_stopstepgroup_scope.

Theorem C02_stop_leaves_group : forall lib (rg : RG) (rp : RP) g b s s1 sg,
  run_steps rg rp (get_steps lib g s) s = (ORaise (RSig sg), s1) ->
  sg = SStop \/ sg = SStopPipeline ->
  run_group lib rg rp g b s = (ORaise (RSig sg), s1).
Proof. exact run_group_other_signal. Qed.
Print Assumptions C02_stop_leaves_group.

(** stoppipeline ends only the current pipeline, which reports success to whoever ran it
    (the parent's pype step then carries on) ... *)
Theorem C02_stoppipeline_scope : forall lib (rg : RG) (rfail : string -> st -> R) name pl groups su fa s s1,
  find (fun p => String.eqb (fst p) name) lib = Some pl ->
  rg (effective_groups groups)
     (if defaulted groups su fa then Some "on_success" else su)
     (if defaulted groups su fa then Some "on_failure" else fa)
     (set_stack s (name :: stack s)) = (ORaise (RSig SStopPipeline), s1) ->
  load_and_run lib rg rfail name None groups su fa s = (OOk, set_stack s1 (tl (stack s1))).
Proof. exact load_and_run_stoppipeline. Qed.
Print Assumptions C02_stoppipeline_scope.

(** ... stop leaves every pipeline: through load_and_run, through the parent's pype step *)
Theorem C02_stop_leaves_pipeline : forall lib (rg : RG) (rfail : string -> st -> R) name pl groups su fa s s1,
  find (fun p => String.eqb (fst p) name) lib = Some pl ->
  rg (effective_groups groups)
     (if defaulted groups su fa then Some "on_success" else su)
     (if defaulted groups su fa then Some "on_failure" else fa)
     (set_stack s (name :: stack s)) = (ORaise (RSig SStop), s1) ->
  load_and_run lib rg rfail name None groups su fa s = (ORaise (RSig SStop), set_stack s1 (tl (stack s1))).
Proof. exact load_and_run_stop. Qed.
Print Assumptions C02_stop_leaves_pipeline.

Theorem C02_pype_passes_instructions : forall pa sg s',
  pype_guard pa (ORaise (RSig sg), s') = (ORaise (RSig sg), s').
Proof. exact pype_guard_signal. Qed.
Print Assumptions C02_pype_passes_instructions.

(** and in each case the run reports success to its caller *)
Theorem C02_reports_success : forall fuel lib name d gs su fa j s1 sg,
  run_pipeline fuel lib name None gs su fa (mkst d [] [] [] 0 j) = (ORaise (RSig sg), s1) ->
  (sg = SStop \/ sg = SStopPipeline \/ sg = SStopStepGroup) ->
  api_run fuel lib name d gs su fa j = (OOk, s1).
Proof. exact api_run_stop. Qed.
Print Assumptions C02_reports_success.

(** * Tie B: the group and failure-handler layers READ FROM THE SOURCE are the model's.
    Generated on every run from [StepsRunner.run_step_group] / [run_failure_step_group] and the
    class statements of pypyr/errors.py: which handler an instruction meets is decided by the
    class hierarchy the code declares. *)
Theorem C02_source_group_layer_is_model : forall lib (rg : RG) (rp : RP) g raise_stop s,
  gen_run_step_group (run_step rg rp) rg (pipeline_of lib s) g raise_stop s
  = run_group lib rg rp g raise_stop s.
Proof. exact gen_run_step_group_is_model. Qed.
Print Assumptions C02_source_group_layer_is_model.

Theorem C02_source_failure_layer_is_model : forall lib (rg : RG) (rp : RP) g s,
  gen_run_failure_step_group (run_step rg rp) rg (pipeline_of lib s) g s = run_failure lib rg rp g s.
Proof. exact gen_run_failure_step_group_is_model. Qed.
Print Assumptions C02_source_failure_layer_is_model.

(** the call layer: [Step.invoke_step] read from the source (Call caught, the called groups run on
    the current runner, instructions pass, errors become HandledError, counters restored in
    [finally]) is the model's [invoke] *)
Theorem C02_source_invoke_is_model : forall (rg : RG) (rp : RP) sp k s,
  gen_invoke_step (run_body rp sp) rg (reset_prim sp k) s = invoke rg rp sp k s.
Proof. exact gen_invoke_step_is_model. Qed.
Print Assumptions C02_source_invoke_is_model.

(** the three stops are Stops and not control-of-flow instructions, Call / Jump the reverse, and
    HandledError neither — in the class table read from pypyr/errors.py *)
Theorem C02_source_class_table :
  forall c,
  isinst errors_classes (ORaise (RSig SStop)) ["Stop"] = true /\
  isinst errors_classes (ORaise (RSig SStopPipeline)) ["Stop"] = true /\
  isinst errors_classes (ORaise (RSig SStopStepGroup)) ["Stop"] = true /\
  isinst errors_classes (ORaise (RSig SStopStepGroup)) ["StopPipeline"] = false /\
  isinst errors_classes (ORaise (RSig SStopPipeline)) ["StopStepGroup"] = false /\
  isinst errors_classes (ORaise (RSig SStop)) ["ControlOfFlowInstruction"] = false /\
  isinst errors_classes (ORaise (RSig (SCall c))) ["ControlOfFlowInstruction"] = true /\
  isinst errors_classes (ORaise (RSig (SJump c))) ["ControlOfFlowInstruction"] = true /\
  isinst errors_classes (ORaise (RSig (SCall c))) ["Stop"] = false /\
  isinst errors_classes (ORaise (RSig (SJump c))) ["Jump"] = true /\
  isinst errors_classes (ORaise (RSig (SCall c))) ["Jump"] = false /\
  isinst errors_classes (OHandled (RSig SStop)) ["ControlOfFlowInstruction"; "Stop"] = false /\
  isinst errors_classes (OHandled (RSig SStop)) ["Exception"] = true.
Proof. exact source_class_table. Qed.
Print Assumptions C02_source_class_table.

(** * Non-vacuity: stop under swallow + retry inside a called group inside a child pipeline *)
Definition mk (name : string) (b : body) (inn : dict) (sw : val) (rt : option rcfg) : step :=
  mkstep name b (Some inn) None None rt (VBool true) (VBool false) sw None (Some (1, 5)%Z) None.
Definition rc3 := mkr (Some (VInt 3)) (VInt 0) None None (VInt 0) None None None.
Definition lib2 : library :=
  [("main", [("steps", Some [mk "vprobe" BProbe [(VStr "ptag", VStr "m0")] (VBool false) None;
                             mk "pypyr.steps.pype" BPype [(VStr "pype", VDict [(VStr "name", VStr "child")])] (VBool true) None;
                             mk "vprobe" BProbe [(VStr "ptag", VStr "m-after")] (VBool false) None])]);
   ("child", [("steps", Some [mk "pypyr.steps.call" BCall [(VStr "call", VStr "g")] (VBool true) (Some rc3);
                              mk "vprobe" BProbe [(VStr "ptag", VStr "c-after")] (VBool false) None]);
              ("g", Some [mk "vprobe" BProbe [(VStr "ptag", VStr "g0")] (VBool false) None;
                          mk "pypyr.steps.stop" BStop [] (VBool false) None])])].
Definition tags (r : R) : list val :=
  map (fun e => match e with VList (t :: _) => t | _ => VNone end) (trace (snd r)).

Example C02_nonvacuous :
  let r := api_run EFUEL lib2 "main" [] None None None (1 # 4) in
  tags r = [VStr "m0"; VStr "g0"] /\ fst r = OOk /\ sget "runErrors" (ctx (snd r)) = None.
Proof. vm_compute. repeat split; reflexivity. Qed.
