(** Props/C02.v — placeholder, to be written. *)
