(** Props/C15.v — in-place file rewrites are all-or-nothing.

    Statements over the operation model of Model/FsRewrite.v, for EVERY fault assignment
    [F : nat -> fmode] (any set of primitives raising, a kill at any primitive, including
    inside the clean-up paths), every data plan [pl] (any number of chunks, a formatting
    failure at any item, a payload that does not parse), every directory and every fresh-name
    supply.  [all_states r] lists the directory state before each primitive issued and the
    final one: these are exactly the states a kill can leave behind.

    Assumed, not modelled: atomicity of rename(2), durability (nothing is fsynced),
    user-space buffering (the bytes of a file with an open write handle are unspecified). *)
From PV Require Import FsRewrite FsRewriteProofs.
Open Scope string_scope.

(** the name supply hypothesis is satisfiable *)
Theorem C15_fresh_names_exist : fresh_namer default_namer.
Proof. exact default_namer_fresh. Qed.
Print Assumptions C15_fresh_names_exist.

(** At every instant of every faulted run the source holds its complete old bytes, or -
    only once the rename has taken effect - its complete new bytes. *)
Theorem C15_source_old_or_new : forall nm F k pl src old s0 n,
  fresh_namer nm -> lookup src (sd s0) = Some old ->
  Forall (fun s => (nrep s = nrep s0 /\ lookup src (sd s) = Some old) \/
                   (nrep s = S (nrep s0) /\
                    exists nw, new_of k pl = Some nw /\ lookup src (sd s) = Some nw))
         (all_states (run_ops nm F (inplace_ops k pl src) n s0)).
Proof. exact source_old_or_new. Qed.
Print Assumptions C15_source_old_or_new.

(** If the rewrite does not complete (it raises - formatting, serialisation, any write, the
    temp file, the rename - or the process dies anywhere) the source is byte-for-byte intact. *)
Theorem C15_failure_or_kill_leaves_source_intact : forall nm F k pl src old s0 n,
  fresh_namer nm -> lookup src (sd s0) = Some old ->
  outc (run_ops nm F (inplace_ops k pl src) n s0) <> Done ->
  lookup src (sd (final (run_ops nm F (inplace_ops k pl src) n s0))) = Some old /\
  nrep (final (run_ops nm F (inplace_ops k pl src) n s0)) = nrep s0.
Proof. exact failure_leaves_old. Qed.
Print Assumptions C15_failure_or_kill_leaves_source_intact.

(** Files other than the source and the temp file are never touched, at any instant. *)
Theorem C15_others_untouched : forall nm F k pl src s0 n,
  fresh_namer nm -> lookup src (sd s0) <> None ->
  Forall (fun s => forall q, q <> src -> q <> tmp_of nm s0 src ->
                             lookup q (sd s) = lookup q (sd s0))
         (all_states (run_ops nm F (inplace_ops k pl src) n s0)).
Proof. exact others_untouched. Qed.
Print Assumptions C15_others_untouched.

(** A successful rewrite leaves exactly the original entries, the source holding the new bytes. *)
Theorem C15_success_same_entries : forall nm F k pl src s0 n,
  fresh_namer nm -> lookup src (sd s0) <> None ->
  outc (run_ops nm F (inplace_ops k pl src) n s0) = Done ->
  exists nw, new_of k pl = Some nw /\
    forall q, lookup q (sd (final (run_ops nm F (inplace_ops k pl src) n s0)))
              = if String.eqb q src then Some nw else lookup q (sd s0).
Proof. exact success_same_entries. Qed.
Print Assumptions C15_success_same_entries.

(** "A rewrite that fails by raising leaves no temporary file behind."
    FULL STATEMENT - false of the code as it is:
      forall nm F k pl src s0 n e, fresh_namer nm -> lookup src (sd s0) <> None ->
        outc (run_ops nm F (inplace_ops k pl src) n s0) = Raised e ->
        deq (sd (final (run_ops nm F (inplace_ops k pl src) n s0))) (sd s0).
    Witness: fileformat on a two-line file whose second line references a missing key, no
    injected fault at all.  The with block closes the NamedTemporaryFile(delete=False), nothing
    removes it: the temp file (holding the first formatted line) stays in the directory. *)
Theorem C15_raise_leaves_no_temp_refuted :
  exists nm F k pl src s0 n e,
    fresh_namer nm /\ lookup src (sd s0) <> None /\
    outc (run_ops nm F (inplace_ops k pl src) n s0) = Raised e /\
    ~ deq (sd (final (run_ops nm F (inplace_ops k pl src) n s0))) (sd s0).
Proof.
  exists default_namer, (fun _ => NoFault), Stream,
         (mkplan true [Some "hello V
"; None]), "a.txt",
         (init [("a.txt", "hello {k}
line2 {missing}
")]), 0, EFormat.
  split; [exact default_namer_fresh|]. split; [discriminate|]. split; [reflexivity|].
  intros H. specialize (H (default_namer [("a.txt", "")] "")). vm_compute in H. discriminate.
Qed.
Print Assumptions C15_raise_leaves_no_temp_refuted.

(** The same, for every input: whenever formatting an item raises (text line or object
    payload, any position, any number of chunks before it), with no other fault, the step
    raises the formatting error, the source is intact, and the temp file - a name that was not
    in the directory - is left behind. *)
Theorem C15_format_error_leaves_temp : forall nm F k pl src old s0 n pre post,
  fresh_namer nm -> lookup src (sd s0) = Some old ->
  (forall i, F i = NoFault) ->
  (k = Object -> load_ok pl = true) ->
  items pl = (pre ++ None :: post)%list -> Forall (fun i => i <> None) pre ->
  let r := run_ops nm F (inplace_ops k pl src) n s0 in
  outc r = Raised EFormat /\
  lookup src (sd (final r)) = Some old /\
  lookup (tmp_of nm s0 src) (sd s0) = None /\
  lookup (tmp_of nm s0 src) (sd (final r)) <> None.
Proof. exact format_error_leaves_temp. Qed.
Print Assumptions C15_format_error_leaves_temp.

(** ... and under any faults: if the main-line step that raised was a write, a formatting
    step or the close of the temp file, the temp file is still there at the end. *)
Theorem C15_late_failure_leaves_temp : forall nm F k pl src s0 n kk o,
  fresh_namer nm -> lookup src (sd s0) <> None ->
  stop (run_ops nm F (inplace_ops k pl src) n s0) = Some (kk, o) -> late o = true ->
  lookup (tmp_of nm s0 src) (sd s0) = None /\
  lookup (tmp_of nm s0 src) (sd (final (run_ops nm F (inplace_ops k pl src) n s0))) <> None.
Proof. exact late_failure_leaves_temp. Qed.
Print Assumptions C15_late_failure_leaves_temp.

(** The part of "no temporary file is left" that does hold: when the step that raised is
    opening or loading the source or creating the temp file, or is the rename and the remove
    in move_temp_file's handler works, the directory is exactly what it was. *)
Theorem C15_raise_leaves_no_temp_partial : forall nm F k pl src s0 n kk o,
  fresh_namer nm -> lookup src (sd s0) <> None ->
  stop (run_ops nm F (inplace_ops k pl src) n s0) = Some (kk, o) ->
  early o = true \/ ((exists d, o = Replace d) /\ F (S kk) = NoFault) ->
  deq (sd (final (run_ops nm F (inplace_ops k pl src) n s0))) (sd s0).
Proof. exact raise_no_temp_partial. Qed.
Print Assumptions C15_raise_leaves_no_temp_partial.

(** Same-file detection: no out, out == in, and out == the directory of in all take the
    in-place path; any other out file is written directly. *)
Theorem C15_same_file_routed_in_place : forall k pl p,
  file_ops k pl p NoOut = inplace_ops k pl p /\
  file_ops k pl p (OutFile p) = inplace_ops k pl p /\
  file_ops k pl p (OutDir (dirpart p)) = inplace_ops k pl p /\
  (forall o, o <> p -> file_ops k pl p (OutFile o) = direct_ops k pl p o).
Proof.
  intros k pl p. split; [apply route_no_out|]. split; [apply route_same_file|].
  split; [apply route_same_dir | apply route_other_file].
Qed.
Print Assumptions C15_same_file_routed_in_place.

(** When out is another file, nothing but that file ever changes (the source is only read). *)
Theorem C15_other_out_only_out_changes : forall nm F k pl src out s0 n,
  Forall (fun s => nrep s = nrep s0 /\ forall q, q <> out -> lookup q (sd s) = lookup q (sd s0))
         (all_states (run_ops nm F (direct_ops k pl src out) n s0)).
Proof. exact direct_spec. Qed.
Print Assumptions C15_other_out_only_out_changes.

(** The list / glob loop.  At every instant of every faulted run over [paths] (duplicates and
    names that are not files allowed) there is a j such that the directory is the original one
    with the first j files completely rewritten and all later ones untouched - give or take
    one extra name t that is not an entry of that directory (the temp file of the rewrite in
    progress, or the one a failure left).  A completed run leaves exactly [apply_new paths]. *)
Theorem C15_list_files_all_or_nothing_in_order : forall nm F xf k m,
  fresh_namer nm -> forall paths, inplace_mode m paths -> forall n s0,
  Forall (snap_ok xf k paths (sd s0)) (all_states (run_files nm F xf k m paths n s0)) /\
  (outc (run_files nm F xf k m paths n s0) = Done ->
   deq (sd (final (run_files nm F xf k m paths n s0))) (apply_new xf k paths (sd s0))).
Proof. exact loop_spec. Qed.
Print Assumptions C15_list_files_all_or_nothing_in_order.

(** Files not matched by in are never touched. *)
Theorem C15_unmatched_untouched : forall nm F xf k m paths n s0,
  fresh_namer nm -> inplace_mode m paths ->
  Forall (fun s => exists t, forall q, ~ In q paths -> q <> t ->
                                       lookup q (sd s) = lookup q (sd s0))
         (all_states (run_files nm F xf k m paths n s0)).
Proof. exact unmatched_untouched. Qed.
Print Assumptions C15_unmatched_untouched.

(** * Non-vacuity: the theorems apply to concrete, non-trivial runs *)
Definition ex_dir : dir := [("a.txt", "old A"); ("b.txt", "old B"); ("other", "x")].
Definition ex_plan := mkplan true [Some "new "; Some "A"].
Definition ex_xf : xform := fun b =>
  if String.eqb b "old A" then Some ex_plan
  else if String.eqb b "old B" then Some (mkplan true [Some "new B"]) else None.

(* success: exactly the original names, a.txt complete-new *)
Example C15_success_nonvacuous :
  let r := run_ops default_namer (fun _ => NoFault) (inplace_ops Stream ex_plan "a.txt") 0 (init ex_dir) in
  outc r = Done /\ sd (final r) = [("a.txt", "new A"); ("b.txt", "old B"); ("other", "x")] /\
  List.length (hist r) = 7.
Proof. vm_compute. repeat split. Qed.

(* the second write raises: the error propagates, source intact, temp (first chunk) left *)
Example C15_write_fault_nonvacuous :
  let r := run_ops default_namer (fault_fun [(3, Raise)]) (inplace_ops Stream ex_plan "a.txt") 0 (init ex_dir) in
  outc r = Raised (EInj 3) /\ stop r = Some (3, Write "A") /\
  lookup "a.txt" (sd (final r)) = Some "old A" /\
  lookup (tmp_of default_namer (init ex_dir) "a.txt") (sd (final r)) = Some "new ".
Proof. vm_compute. repeat split. Qed.

(* the rename raises: the handler removes the temp, the directory is as it was;
   if the remove fails too the FIRST error is the one that propagates and the temp stays *)
Example C15_rename_fault_nonvacuous :
  let r := run_ops default_namer (fault_fun [(6, Raise)]) (inplace_ops Stream ex_plan "a.txt") 0 (init ex_dir) in
  let r2 := run_ops default_namer (fault_fun [(6, Raise); (7, Raise)]) (inplace_ops Stream ex_plan "a.txt") 0 (init ex_dir) in
  outc r = Raised (EInj 6) /\ sd (final r) = ex_dir /\ List.length (hist r) = 8 /\
  outc r2 = Raised (EInj 6) /\ List.length (sd (final r2)) = 4.
Proof. vm_compute. repeat split. Qed.

(* a kill between the close of the temp and the rename: source old, complete temp on disk *)
Example C15_kill_nonvacuous :
  let r := run_ops default_namer (fault_fun [(6, Crash)]) (inplace_ops Stream ex_plan "a.txt") 0 (init ex_dir) in
  outc r = Crashed /\ lookup "a.txt" (sd (final r)) = Some "old A" /\ nrep (final r) = 0 /\
  lookup (tmp_of default_namer (init ex_dir) "a.txt") (sd (final r)) = Some "new A".
Proof. vm_compute. repeat split. Qed.

(* the loop: the rename of the SECOND file fails: first file complete-new, second old, no temp *)
Example C15_loop_nonvacuous :
  let r := run_files default_namer (fault_fun [(12, Raise)]) ex_xf Stream NoOut ["a.txt"; "missing"; "b.txt"] 0 (init ex_dir) in
  outc r = Raised (EInj 12) /\
  sd (final r) = [("a.txt", "new A"); ("b.txt", "old B"); ("other", "x")] /\
  inplace_mode NoOut ["a.txt"; "missing"; "b.txt"].
Proof. vm_compute. repeat split. intros p _. now left. Qed.

(* object rewriter: payload does not parse -> nothing created; formatting fails -> temp left *)
Example C15_object_nonvacuous :
  let r := run_ops default_namer (fun _ => NoFault) (inplace_ops Object (mkplan false []) "a.txt") 0 (init ex_dir) in
  let r2 := run_ops default_namer (fun _ => NoFault) (inplace_ops Object (mkplan true [None]) "a.txt") 0 (init ex_dir) in
  outc r = Raised ELoad /\ sd (final r) = ex_dir /\
  outc r2 = Raised EFormat /\ List.length (sd (final r2)) = 4.
Proof. vm_compute. repeat split. Qed.
