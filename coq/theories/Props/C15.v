(** Props/C15.v — in-place file rewrites are all-or-nothing.

    Statements over the operation model of Model/FsRewrite.v, for EVERY fault assignment
    [F : nat -> fmode] (any set of primitives raising, a kill at any primitive, including
    inside the clean-up paths), every data plan [pl] (any number of chunks, a formatting
    failure at any item, a payload that does not parse), every directory and every fresh-name
    supply.  [all_states r] lists the directory state before each primitive issued and the
    final one: these are exactly the states a kill can leave behind.

    Assumed, not modelled: atomicity of rename(2), durability (nothing is fsynced),
    user-space buffering (the bytes of a file with an open write handle are unspecified). *)
From PV Require Import FsRewrite FsRewriteProofs GenC15 GenC15Proofs.
Open Scope string_scope.

(** the name supply hypothesis is satisfiable *)
Theorem C15_fresh_names_exist : fresh_namer default_namer.
Proof. exact default_namer_fresh. Qed.
Print Assumptions C15_fresh_names_exist.

(** At every instant of every faulted run the source holds its complete old bytes, or -
    only once the rename has taken effect - its complete new bytes.
    ([in_try s0 = false]: the run starts outside the temp file's try block - true of [init d]
    and of the state any completed rewrite ends in.) *)
Theorem C15_source_old_or_new : forall nm F k pl src old s0 n,
  fresh_namer nm -> lookup src (sd s0) = Some old -> in_try s0 = false ->
  Forall (fun s => (nrep s = nrep s0 /\ lookup src (sd s) = Some old) \/
                   (nrep s = S (nrep s0) /\
                    exists nw, new_of k pl = Some nw /\ lookup src (sd s) = Some nw))
         (all_states (run_ops nm F (inplace_ops k pl src) n s0)).
Proof. exact source_old_or_new. Qed.
Print Assumptions C15_source_old_or_new.

(** If the rewrite does not complete (it raises - formatting, serialisation, any write, the
    temp file, the rename - or the process dies anywhere, including inside a clean-up path)
    the source is byte-for-byte intact, and the ONLY name that can differ from the original
    directory is the temp name, which was not an entry of it.  This is also everything a
    kill, or a clean-up whose own os.remove failed, can leave behind. *)
Theorem C15_failure_or_kill_leaves_source_intact : forall nm F k pl src old s0 n,
  fresh_namer nm -> lookup src (sd s0) = Some old -> in_try s0 = false ->
  outc (run_ops nm F (inplace_ops k pl src) n s0) <> Done ->
  lookup src (sd (final (run_ops nm F (inplace_ops k pl src) n s0))) = Some old /\
  nrep (final (run_ops nm F (inplace_ops k pl src) n s0)) = nrep s0 /\
  lookup (tmp_of nm s0 src) (sd s0) = None /\
  forall q, q <> tmp_of nm s0 src ->
    lookup q (sd (final (run_ops nm F (inplace_ops k pl src) n s0))) = lookup q (sd s0).
Proof. exact failure_leaves_old. Qed.
Print Assumptions C15_failure_or_kill_leaves_source_intact.

(** Files other than the source and the temp file are never touched, at any instant. *)
Theorem C15_others_untouched : forall nm F k pl src s0 n,
  fresh_namer nm -> lookup src (sd s0) <> None -> in_try s0 = false ->
  Forall (fun s => forall q, q <> src -> q <> tmp_of nm s0 src ->
                             lookup q (sd s) = lookup q (sd s0))
         (all_states (run_ops nm F (inplace_ops k pl src) n s0)).
Proof. exact others_untouched. Qed.
Print Assumptions C15_others_untouched.

(** A successful rewrite leaves exactly the original entries, the source holding the new bytes. *)
Theorem C15_success_same_entries : forall nm F k pl src s0 n,
  fresh_namer nm -> lookup src (sd s0) <> None -> in_try s0 = false ->
  outc (run_ops nm F (inplace_ops k pl src) n s0) = Done ->
  exists nw, new_of k pl = Some nw /\
    forall q, lookup q (sd (final (run_ops nm F (inplace_ops k pl src) n s0)))
              = if String.eqb q src then Some nw else lookup q (sd s0).
Proof. exact success_same_entries. Qed.
Print Assumptions C15_success_same_entries.

(** A rewrite that fails by RAISING leaves no temporary or partial file behind: the directory
    has exactly the original entries with the original bytes.  For every fault assignment
    (any number of raising primitives, also inside the clean-up paths) and every data failure,
    with two exemptions, both stated:
      [rmfail r = false]  no clean-up os.remove of the temp file itself raised ("the clean-up
                          itself failed" - remove_temp_file logs it and the first error
                          propagates; what is left then is bounded by the theorem above:
                          the temp name only);
      [stop r <> CloseSrc] the step that raised is not the close of the READ-ONLY source
                          handle (StreamRewriter closes it after the try block and before
                          move_temp_file; a failure there would leave the complete temp file -
                          see C15_source_close_failure_residual; no such failure is generated
                          by the harness, closing a read-only descriptor does not fail).
    A run that ends by being killed is not a raise: see the theorem above. *)
Theorem C15_raise_leaves_no_temp : forall nm F k pl src s0 n e,
  fresh_namer nm -> lookup src (sd s0) <> None -> in_try s0 = false ->
  outc (run_ops nm F (inplace_ops k pl src) n s0) = Raised e ->
  rmfail (run_ops nm F (inplace_ops k pl src) n s0) = false ->
  (forall kk, stop (run_ops nm F (inplace_ops k pl src) n s0) <> Some (kk, CloseSrc)) ->
  deq (sd (final (run_ops nm F (inplace_ops k pl src) n s0))) (sd s0).
Proof. exact raise_leaves_no_temp. Qed.
Print Assumptions C15_raise_leaves_no_temp.

(** the second exemption is needed (model of the code as it is): *)
Theorem C15_source_close_failure_residual :
  exists F pl,
    let r := run_ops default_namer F (inplace_ops Stream pl "a.txt") 0 (init [("a.txt", "old")]) in
    outc r = Raised (EInj 4) /\ rmfail r = false /\ stop r = Some (4, CloseSrc) /\
    lookup "a.txt" (sd (final r)) = Some "old" /\ List.length (sd (final r)) = 2.
Proof.
  exists (fault_fun [(4, Raise)]), (mkplan true [Some "new"]). vm_compute. repeat split.
Qed.
Print Assumptions C15_source_close_failure_residual.

(** In particular the former finding: whenever formatting an item raises (text line or object
    payload, any position, any number of chunks before it) and nothing else fails, the step
    raises the formatting error and the directory is exactly what it was. *)
Theorem C15_format_error_leaves_nothing : forall nm F k pl src s0 n pre post,
  fresh_namer nm -> lookup src (sd s0) <> None -> in_try s0 = false ->
  (forall i, F i = NoFault) ->
  (k = Object -> load_ok pl = true) ->
  items pl = (pre ++ None :: post)%list -> Forall (fun i => i <> None) pre ->
  let r := run_ops nm F (inplace_ops k pl src) n s0 in
  outc r = Raised EFormat /\ deq (sd (final r)) (sd s0).
Proof. exact format_error_clean. Qed.
Print Assumptions C15_format_error_leaves_nothing.

(** Same-file detection: no out, out == in, and out == the directory of in all take the
    in-place path; any other out file is written directly. *)
Theorem C15_same_file_routed_in_place : forall k pl p,
  file_ops k pl p NoOut = inplace_ops k pl p /\
  file_ops k pl p (OutFile p) = inplace_ops k pl p /\
  file_ops k pl p (OutDir (dirpart p)) = inplace_ops k pl p /\
  (forall o, o <> p -> file_ops k pl p (OutFile o) = direct_ops k pl p o).
Proof.
  intros k pl p. split; [apply route_no_out|]. split; [apply route_same_file|].
  split; [apply route_same_dir | apply route_other_file].
Qed.
Print Assumptions C15_same_file_routed_in_place.

(** When out is another file, nothing but that file ever changes (the source is only read). *)
Theorem C15_other_out_only_out_changes : forall nm F k pl src out s0 n,
  in_try s0 = false ->
  Forall (fun s => nrep s = nrep s0 /\ forall q, q <> out -> lookup q (sd s) = lookup q (sd s0))
         (all_states (run_ops nm F (direct_ops k pl src out) n s0)).
Proof. exact direct_spec. Qed.
Print Assumptions C15_other_out_only_out_changes.

(** The list / glob loop.  At every instant of every faulted run over [paths] (duplicates and
    names that are not files allowed) there is a j such that the directory is the original one
    with the first j files completely rewritten and all later ones untouched - give or take
    one extra name t that is not an entry of that directory (the temp file of the rewrite in
    progress, or what a kill left).  A completed run leaves exactly [apply_new paths]; a run
    that RAISES (same two exemptions) leaves exactly [apply_new] of the first j paths for some
    j: files before the failing one complete-new, the failing one and all later ones
    complete-old, no extra entry. *)
Theorem C15_list_files_all_or_nothing_in_order : forall nm F xf k m,
  fresh_namer nm -> forall paths, inplace_mode m paths -> forall n s0, in_try s0 = false ->
  let r := run_files nm F xf k m paths n s0 in
  Forall (snap_ok xf k paths (sd s0)) (all_states r) /\
  (outc r = Done -> deq (sd (final r)) (apply_new xf k paths (sd s0))) /\
  (forall e, outc r = Raised e -> rmfail r = false ->
     (forall kk, stop r <> Some (kk, CloseSrc)) ->
     exists j, j <= List.length paths /\
               deq (sd (final r)) (apply_new xf k (firstn j paths) (sd s0))).
Proof. exact loop_spec. Qed.
Print Assumptions C15_list_files_all_or_nothing_in_order.

(** Files not matched by in are never touched. *)
Theorem C15_unmatched_untouched : forall nm F xf k m paths n s0,
  fresh_namer nm -> inplace_mode m paths -> in_try s0 = false ->
  Forall (fun s => exists t, forall q, ~ In q paths -> q <> t ->
                                       lookup q (sd s) = lookup q (sd s0))
         (all_states (run_files nm F xf k m paths n s0)).
Proof. exact unmatched_untouched. Qed.
Print Assumptions C15_unmatched_untouched.

(** * Tie B: what is READ FROM THE SOURCE (Gen/GenC15.v, regenerated from
    pypyr/utils/filesystem.py on every run by tools/py2coq_c15.py) *)

(** is_same_file, as written, computes the model's routing decision: in_path is a file, a
    missing out_path is falsy, "same file" on the model's names (files, not spellings). *)
Theorem C15_source_same_file_test_is_model : forall d src out,
  isfile d src = true ->
  gen_is_same_file true (match out with Some _ => true | None => false end)
                   (isfile d src) (match out with Some o => isfile d o | None => false end)
                   (same_file src out)
  = same_file src out.
Proof. exact gen_is_same_file_is_model. Qed.
Print Assumptions C15_source_same_file_test_is_model.

(** The statement structure of the two in_to_out methods, of the three helpers and of the
    files_in_to_out loop in the source IS the structured program of Proofs/GenC15Proofs.v:
    which primitive is issued inside which with / try block and in which order, what each
    handler does and re-raises, where the temp file is created (next to the source,
    delete=False), which test routes to the in-place path.  (Their behaviour under faults is
    tied to the op model by the correspondence run; see GenC15Proofs.v for what is and is not
    proved.) *)
Theorem C15_source_stream_method_is_structured_model : gen_stream_in_to_out = stream_prog.
Proof. exact gen_stream_is_prog. Qed.
Print Assumptions C15_source_stream_method_is_structured_model.

Theorem C15_source_object_method_is_structured_model : gen_object_in_to_out = object_prog.
Proof. exact gen_object_is_prog. Qed.
Print Assumptions C15_source_object_method_is_structured_model.

Theorem C15_source_cleanup_helpers_are_structured_model :
  (forall p, gen_remove_temp_file p = remove_temp_file_prog p) /\
  (forall a b, gen_move_file a b = move_file_prog a b) /\
  (forall a b, gen_move_temp_file a b = move_temp_file_prog a b).
Proof. exact gen_helpers_are_progs. Qed.
Print Assumptions C15_source_cleanup_helpers_are_structured_model.

Theorem C15_source_loop_is_structured_model : gen_files_in_to_out = loop_prog.
Proof. exact gen_loop_is_prog. Qed.
Print Assumptions C15_source_loop_is_structured_model.

(** move_temp_file as written (try move_file; on any exception remove_temp_file, whose own
    failure is logged and dropped; re-raise the first error), run by the statement semantics, is
    the op model's rename step with its handler - for EVERY fault assignment and state. *)
Theorem C15_source_rename_step_is_model : forall nm F pl same x,
  src_open (p_st x) = false -> wh_is_open (p_st x) = false -> in_try (p_st x) = false ->
  p_stop x = None -> p_rf x = false ->
  pexec_summary (pexec nm F pl same (gen_move_temp_file XOutfileName XInfileName) x)
  = (let r := run_ops nm F [Replace (v_in (p_env x))] (p_n x) (p_st x) in
     (erase_st (final r), outc r, (p_hist x ++ map fst (hist r))%list, next r, stop r, rmfail r)).
Proof. exact move_temp_file_is_model. Qed.
Print Assumptions C15_source_rename_step_is_model.

(** * Non-vacuity: the theorems apply to concrete, non-trivial runs *)
Definition ex_dir : dir := [("a.txt", "old A"); ("b.txt", "old B"); ("other", "x")].
Definition ex_plan := mkplan true [Some "new "; Some "A"].
Definition ex_xf : xform := fun b =>
  if String.eqb b "old A" then Some ex_plan
  else if String.eqb b "old B" then Some (mkplan true [Some "new B"]) else None.

(* success: exactly the original names, a.txt complete-new *)
Example C15_success_nonvacuous :
  let r := run_ops default_namer (fun _ => NoFault) (inplace_ops Stream ex_plan "a.txt") 0 (init ex_dir) in
  outc r = Done /\ sd (final r) = [("a.txt", "new A"); ("b.txt", "old B"); ("other", "x")] /\
  List.length (hist r) = 7.
Proof. vm_compute. repeat split. Qed.

(* the second write raises: close-w, remove, close-src run; the write's error propagates and
   the directory is the original one.  If that remove fails too the temp (first chunk) stays,
   if the process dies at the remove likewise - neither is "raised with a working clean-up" *)
Example C15_write_fault_nonvacuous :
  let r := run_ops default_namer (fault_fun [(3, Raise)]) (inplace_ops Stream ex_plan "a.txt") 0 (init ex_dir) in
  let r2 := run_ops default_namer (fault_fun [(3, Raise); (5, Raise)]) (inplace_ops Stream ex_plan "a.txt") 0 (init ex_dir) in
  let r3 := run_ops default_namer (fault_fun [(3, Raise); (5, Crash)]) (inplace_ops Stream ex_plan "a.txt") 0 (init ex_dir) in
  outc r = Raised (EInj 3) /\ stop r = Some (3, Write "A") /\ rmfail r = false /\
  sd (final r) = ex_dir /\ List.length (hist r) = 7 /\
  outc r2 = Raised (EInj 3) /\ rmfail r2 = true /\
  lookup (tmp_of default_namer (init ex_dir) "a.txt") (sd (final r2)) = Some "new " /\
  outc r3 = Crashed /\ List.length (sd (final r3)) = 4.
Proof. vm_compute. repeat split. Qed.

(* the rename raises: the handler removes the temp, the directory is as it was;
   if the remove fails too the FIRST error is the one that propagates and the temp stays *)
Example C15_rename_fault_nonvacuous :
  let r := run_ops default_namer (fault_fun [(6, Raise)]) (inplace_ops Stream ex_plan "a.txt") 0 (init ex_dir) in
  let r2 := run_ops default_namer (fault_fun [(6, Raise); (7, Raise)]) (inplace_ops Stream ex_plan "a.txt") 0 (init ex_dir) in
  outc r = Raised (EInj 6) /\ sd (final r) = ex_dir /\ List.length (hist r) = 8 /\ rmfail r = false /\
  outc r2 = Raised (EInj 6) /\ List.length (sd (final r2)) = 4 /\ rmfail r2 = true.
Proof. vm_compute. repeat split. Qed.

(* a kill between the close of the temp and the rename: source old, complete temp on disk *)
Example C15_kill_nonvacuous :
  let r := run_ops default_namer (fault_fun [(6, Crash)]) (inplace_ops Stream ex_plan "a.txt") 0 (init ex_dir) in
  outc r = Crashed /\ lookup "a.txt" (sd (final r)) = Some "old A" /\ nrep (final r) = 0 /\
  lookup (tmp_of default_namer (init ex_dir) "a.txt") (sd (final r)) = Some "new A".
Proof. vm_compute. repeat split. Qed.

(* the loop: the rename of the SECOND file fails: first file complete-new, second old, no temp *)
Example C15_loop_nonvacuous :
  let r := run_files default_namer (fault_fun [(12, Raise)]) ex_xf Stream NoOut ["a.txt"; "missing"; "b.txt"] 0 (init ex_dir) in
  outc r = Raised (EInj 12) /\
  sd (final r) = [("a.txt", "new A"); ("b.txt", "old B"); ("other", "x")] /\
  inplace_mode NoOut ["a.txt"; "missing"; "b.txt"].
Proof. vm_compute. repeat split. intros p _. now left. Qed.

(* object rewriter: payload does not parse -> nothing created; formatting fails -> temp
   created, closed, removed: the directory is the original one *)
Example C15_object_nonvacuous :
  let r := run_ops default_namer (fun _ => NoFault) (inplace_ops Object (mkplan false []) "a.txt") 0 (init ex_dir) in
  let r2 := run_ops default_namer (fun _ => NoFault) (inplace_ops Object (mkplan true [None]) "a.txt") 0 (init ex_dir) in
  outc r = Raised ELoad /\ sd (final r) = ex_dir /\
  outc r2 = Raised EFormat /\ sd (final r2) = ex_dir /\ List.length (hist r2) = 5.
Proof. vm_compute. repeat split. Qed.
