(** Props/C15.v — placeholder, to be written. *)
