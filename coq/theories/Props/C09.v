(** Props/C09.v — formatting is pure and structure-preserving.
    Purity itself (input and context deep-equal afterwards) is true of any Gallina
    function by construction and carries no proof content; it is carried by the
    correspondence run (before/after snapshots on the real code).  What is proved here is
    shape preservation, leaf identity, brace-free identity and idempotence. *)
From PV Require Import Format FormatProofs.
Open Scope string_scope.

Theorem C09_leaf_identity : forall ctx f v r,
  is_leaf v = true -> fmt_iter ctx (S f) v r = Ok v.
Proof. exact fmt_iter_leaf. Qed.
Print Assumptions C09_leaf_identity.

Theorem C09_shape_list : forall ctx f l r v,
  fmt_iter ctx (S f) (VList l) r = Ok v ->
  exists l', v = VList l' /\ Forall2 (fun x y => fmt_iter ctx f x r = Ok y) l l'.
Proof. exact fmt_iter_list. Qed.
Print Assumptions C09_shape_list.

Theorem C09_shape_tuple : forall ctx f l r v,
  fmt_iter ctx (S f) (VTuple l) r = Ok v ->
  exists l', v = VTuple l' /\ Forall2 (fun x y => fmt_iter ctx f x r = Ok y) l l'.
Proof. exact fmt_iter_tuple. Qed.
Print Assumptions C09_shape_tuple.

Theorem C09_shape_set : forall ctx f l r v,
  fmt_iter ctx (S f) (VSet l) r = Ok v ->
  exists l' s, v = VSet s /\ set_of_list l' = Some s /\
               Forall2 (fun x y => fmt_iter ctx f x r = Ok y) l l'.
Proof. exact fmt_iter_set. Qed.
Print Assumptions C09_shape_set.

(** mappings: keys AND values formatted element-wise, same order (later duplicates of a
    formatted key overwrite, as [dict(generator)] does) *)
Theorem C09_shape_dict : forall ctx f l r v,
  fmt_iter ctx (S f) (VDict l) r = Ok v ->
  exists l', v = VDict (rebuild_dict l') /\
             Forall2 (fun kv kv' => fmt_iter ctx f (fst kv) r = Ok (fst kv') /\
                                    fmt_iter ctx f (snd kv) r = Ok (snd kv')) l l'.
Proof. exact fmt_iter_dict. Qed.
Print Assumptions C09_shape_dict.

(** values containing no braces (and no special tags), to any depth, are returned equal *)
Theorem C09_no_brace_id : forall ctx n v r, plainN n v -> fmt_iter ctx n v r = Ok v.
Proof. exact fmt_iter_plain. Qed.
Print Assumptions C09_no_brace_id.

(** formatting a brace-free result again changes nothing *)
Theorem C09_idempotent_on_result : forall ctx ctx' n m v v' r r',
  fmt_iter ctx n v r = Ok v' -> plainN m v' -> fmt_iter ctx' m v' r' = Ok v'.
Proof. intros ctx ctx' n m v v' r r' _ H. exact (fmt_iter_plain ctx' m v' r' H). Qed.
Print Assumptions C09_idempotent_on_result.

Example C09_plain_nonvacuous :
  plainN 4 (VDict [(VStr "k", VList [VStr "no braces"; VInt 1; VTuple [VNone]]);
                   (VStr "s", VSet [VInt 1; VInt 2])]).
Proof.
  simpl. repeat (first [reflexivity | exact I | split | constructor]; simpl).
Qed.

(** * Tie B: shape preservation read off the dispatch regenerated from the current
    pypyr/formatting.py (Gen/GenC08.v, by tools/py2coq_c08.py before every build). *)
From PV Require Import FormatSrc GenC08 GenC08Proofs.

Theorem C09_source_dispatch_is_model : forall ctx f v r,
  fmt_iter ctx (S f) v r
  = gen_get_formatted_iterable gen_context_passthrough_types gen_context_special_types
      parse (src_get_field ctx) (src_vformat ctx) convert_field format_field
      (src_special_value ctx (fmt_iter ctx f)) (fmt_iter ctx f) v r.
Proof. exact fmt_iter_unfolds_to_source. Qed.
Print Assumptions C09_source_dispatch_is_model.

Theorem C09_source_leaf_is_model : forall ctx rec v r,
  is_leaf v = true ->
  gen_get_formatted_iterable gen_context_passthrough_types gen_context_special_types
    parse (src_get_field ctx) (src_vformat ctx) convert_field format_field
    (src_special_value ctx rec) rec v r = Ok v.
Proof. exact gen_iter_leaf. Qed.
Print Assumptions C09_source_leaf_is_model.

Theorem C09_source_list_is_model : forall ctx rec l r,
  gen_get_formatted_iterable gen_context_passthrough_types gen_context_special_types
    parse (src_get_field ctx) (src_vformat ctx) convert_field format_field
    (src_special_value ctx rec) rec (VList l) r
  = (let* l' := mapM (fun x => rec x r) l in Ok (VList l')).
Proof. exact gen_iter_list. Qed.
Print Assumptions C09_source_list_is_model.

Theorem C09_source_tuple_is_model : forall ctx rec l r,
  gen_get_formatted_iterable gen_context_passthrough_types gen_context_special_types
    parse (src_get_field ctx) (src_vformat ctx) convert_field format_field
    (src_special_value ctx rec) rec (VTuple l) r
  = (let* l' := mapM (fun x => rec x r) l in Ok (VTuple l')).
Proof. exact gen_iter_tuple. Qed.
Print Assumptions C09_source_tuple_is_model.

Theorem C09_source_set_is_model : forall ctx rec l r,
  gen_get_formatted_iterable gen_context_passthrough_types gen_context_special_types
    parse (src_get_field ctx) (src_vformat ctx) convert_field format_field
    (src_special_value ctx rec) rec (VSet l) r
  = (let* l' := mapM (fun x => rec x r) l in
     let* s := res_of_opt (set_of_list l') in Ok (VSet s)).
Proof. exact gen_iter_set. Qed.
Print Assumptions C09_source_set_is_model.

(** mappings: keys AND values, pairwise, in order, same class *)
Theorem C09_source_dict_is_model : forall ctx rec l r,
  gen_get_formatted_iterable gen_context_passthrough_types gen_context_special_types
    parse (src_get_field ctx) (src_vformat ctx) convert_field format_field
    (src_special_value ctx rec) rec (VDict l) r
  = (let* l' := mapM (fun kv => let* k := rec (fst kv) r in
                                let* x := rec (snd kv) r in Ok (k, x)) l in
     Ok (VDict (rebuild_dict l'))).
Proof. exact gen_iter_dict. Qed.
Print Assumptions C09_source_dict_is_model.

From PV Require Import Leaves GenProofs.
Open Scope string_scope.
(** in which namespace a !py expression is evaluated, read from the source
    ([Context.get_eval_string]): a chain whose first map is a fresh empty dict made by that call, then
    the context, then the imports — a name bound by := in one expression can neither reach the context
    nor be seen by a later expression *)
Theorem C09_source_eval_scope_is_fresh_chain :
  gen_eval_scope = (["{}"; "self"; "self._pystring_globals"]%list, true).
Proof. exact gen_eval_scope_is_fresh_chain. Qed.
Print Assumptions C09_source_eval_scope_is_fresh_chain.


(** which isinstance test of the dispatch catches each Python type — including the kinds the
    value universe does not distinguish (bytearray, frozenset, dict / list subclasses): a
    bytearray is caught by the leaf test, so it comes through as the identical object *)
Theorem C09_source_isinstance_ladder_is_model :
  snd gen_get_formatted_iterable_isinstance_tests = []
  /\ gen_format_keep_type_isinstance_tests = ([], [])
  /\ gen_vformat_isinstance_tests = ([], [])
  /\ ladder_verdicts (fst gen_get_formatted_iterable_isinstance_tests)
     = [("str", ["str"]);
        ("bytes", ["bytearray"; "bytes"]);
        ("bytearray", ["bytearray"; "bytes"]);
        ("list", ["Sequence"; "Set"]);
        ("CommentedSeq", ["Sequence"; "Set"]);
        ("tuple", ["Sequence"; "Set"]);
        ("set", ["Sequence"; "Set"]);
        ("frozenset", ["Sequence"; "Set"]);
        ("dict", ["Mapping"]);
        ("OrderedDict", ["Mapping"]);
        ("CommentedMap", ["Mapping"]);
        ("Context", ["Mapping"]);
        ("PyString", ["self.special_types"]);
        ("SicString", ["self.special_types"]);
        ("Jsonify", ["self.special_types"]);
        ("NoneType", []);
        ("bool", []);
        ("int", []);
        ("float", []);
        ("object", [])].
Proof. exact isinstance_ladder_is_model. Qed.
Print Assumptions C09_source_isinstance_ladder_is_model.
