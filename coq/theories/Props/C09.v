(** Props/C09.v — formatting is pure and structure-preserving.
    Purity itself (input and context deep-equal afterwards) is true of any Gallina
    function by construction and carries no proof content; it is carried by the
    correspondence run (before/after snapshots on the real code).  What is proved here is
    shape preservation, leaf identity, brace-free identity and idempotence. *)
From PV Require Import Format FormatProofs.
Open Scope string_scope.

Theorem C09_leaf_identity : forall ctx f v r,
  is_leaf v = true -> fmt_iter ctx (S f) v r = Ok v.
Proof. exact fmt_iter_leaf. Qed.
Print Assumptions C09_leaf_identity.

Theorem C09_shape_list : forall ctx f l r v,
  fmt_iter ctx (S f) (VList l) r = Ok v ->
  exists l', v = VList l' /\ Forall2 (fun x y => fmt_iter ctx f x r = Ok y) l l'.
Proof. exact fmt_iter_list. Qed.
Print Assumptions C09_shape_list.

Theorem C09_shape_tuple : forall ctx f l r v,
  fmt_iter ctx (S f) (VTuple l) r = Ok v ->
  exists l', v = VTuple l' /\ Forall2 (fun x y => fmt_iter ctx f x r = Ok y) l l'.
Proof. exact fmt_iter_tuple. Qed.
Print Assumptions C09_shape_tuple.

Theorem C09_shape_set : forall ctx f l r v,
  fmt_iter ctx (S f) (VSet l) r = Ok v ->
  exists l' s, v = VSet s /\ set_of_list l' = Some s /\
               Forall2 (fun x y => fmt_iter ctx f x r = Ok y) l l'.
Proof. exact fmt_iter_set. Qed.
Print Assumptions C09_shape_set.

(** mappings: keys AND values formatted element-wise, same order (later duplicates of a
    formatted key overwrite, as [dict(generator)] does) *)
Theorem C09_shape_dict : forall ctx f l r v,
  fmt_iter ctx (S f) (VDict l) r = Ok v ->
  exists l', v = VDict (rebuild_dict l') /\
             Forall2 (fun kv kv' => fmt_iter ctx f (fst kv) r = Ok (fst kv') /\
                                    fmt_iter ctx f (snd kv) r = Ok (snd kv')) l l'.
Proof. exact fmt_iter_dict. Qed.
Print Assumptions C09_shape_dict.

(** values containing no braces (and no special tags), to any depth, are returned equal *)
Theorem C09_no_brace_id : forall ctx n v r, plainN n v -> fmt_iter ctx n v r = Ok v.
Proof. exact fmt_iter_plain. Qed.
Print Assumptions C09_no_brace_id.

(** formatting a brace-free result again changes nothing *)
Theorem C09_idempotent_on_result : forall ctx ctx' n m v v' r r',
  fmt_iter ctx n v r = Ok v' -> plainN m v' -> fmt_iter ctx' m v' r' = Ok v'.
Proof. intros ctx ctx' n m v v' r r' _ H. exact (fmt_iter_plain ctx' m v' r' H). Qed.
Print Assumptions C09_idempotent_on_result.

Example C09_plain_nonvacuous :
  plainN 4 (VDict [(VStr "k", VList [VStr "no braces"; VInt 1; VTuple [VNone]]);
                   (VStr "s", VSet [VInt 1; VInt 2])]).
Proof.
  simpl. repeat (first [reflexivity | exact I | split | constructor]; simpl).
Qed.
