(** Props/C12.v — runs are independent: a run never alters shared definitions or other runs.

    Model: Model/Alias.v, a heap machine.  [dh] is the DEFINITION heap (cached
    PipelineDefinition bodies and config.vars — it persists across runs: it is the cache),
    a run has a private state [priv] (its Context, the objects it creates — its own id
    namespace —, status, probe trace).  [step dh p o] is the effect of one operation;
    [run1 dh r] a whole run of [r] from a fresh context; [history dh rs] runs one after the
    other in one process; [sched_run step dh ps sch] threads [ps t] executing the schedule
    [sch] — an ARBITRARY merge of their operation lists, any length, any number of threads.

    Level: proof on the model, PARTIAL — CPython-level atomicity (GIL) of one dict/list
    operation, the logging module and third-party step modules are not modelled; steps are
    the unit of interleaving.

    FINDING (C12_no_def_mutation_refuted): the full statement

        forall dh r, closed dh = true -> fst (run1 dh r) = dh

    is FALSE of the faithful model and of the code: Step.set_step_input_context does
    context.update(in), so a container given under `in` IS the cached definition's object;
    append / contextmerge / default / py (and add) then change the definition in place and
    the next run of the same pipeline starts from a different definition.  The proved version
    carries the excluding hypothesis [disciplined]: a syntactic, decidable check of the run's
    operations — no in-place operation targets a key that may be bound to a definition object
    (bound by `in` / configvars, or a by-reference copy ({k:ff}, !py k, contextcopy, foreach
    element) of such a key), and no such by-reference value is stored inside a container. *)
From Coq Require Import List String ZArith.
From PV Require Import Alias AliasProofs.
Import ListNotations.
Open Scope string_scope.

(** (1) the defect: a definition list injected by `in`, appended to in place.  The definition
    heap differs after the run, and the SAME run made again yields a different result. *)
Theorem C12_no_def_mutation_refuted :
  exists defs r, let dh := fst (load defs []) in
    closed dh = true /\ fst (run1 dh r) <> dh /\
    snd (run1 (fst (run1 dh r)) r) <> snd (run1 dh r).
Proof. exact no_def_mutation_refuted. Qed.
Print Assumptions C12_no_def_mutation_refuted.

(** what the yaml loader builds holds no pointer into any run's heap *)
Theorem C12_loaded_definitions_closed : forall defs, closed (fst (load defs [])) = true.
Proof. exact load_closed. Qed.
Print Assumptions C12_loaded_definitions_closed.

(** (2) every disciplined run, of any length, leaves the definition heap exactly as it was ... *)
Theorem C12_no_def_mutation_partial : forall dh r,
  closed dh = true -> disciplined (r_ops r) = true -> fst (run1 dh r) = dh.
Proof. exact disciplined_run_unchanged. Qed.
Print Assumptions C12_no_def_mutation_partial.

(** ... after EVERY operation of the run, not only at its end ... *)
Theorem C12_no_def_mutation_every_step : forall dh r,
  disciplined (r_ops r) = true -> read_only step dh (start r) (r_ops r).
Proof. exact disciplined_run_read_only. Qed.
Print Assumptions C12_no_def_mutation_every_step.

(** ... and so does any number of such runs, each of which yields what it yields alone *)
Theorem C12_history_unchanged : forall rs dh,
  closed dh = true -> Forall (fun r => disciplined (r_ops r) = true) rs ->
  history dh rs = (dh, map (fun r => snd (run1 dh r)) rs).
Proof. exact disciplined_history. Qed.
Print Assumptions C12_history_unchanged.

(** (3) if no run of a history changes the definition heap, then run j of a pipeline from an
    equal initial context yields exactly what run i of it yielded — whatever other runs,
    how many and in which order, happened in between *)
Theorem C12_rerun_equal : forall rs dh i j r,
  Forall (fun r => fst (run1 dh r) = dh) rs ->
  nth_error rs i = Some r -> nth_error rs j = Some r ->
  nth_error (snd (history dh rs)) i = Some (snd (run1 dh r)) /\
  nth_error (snd (history dh rs)) j = Some (snd (run1 dh r)).
Proof. exact rerun_equal. Qed.
Print Assumptions C12_rerun_equal.

Theorem C12_rerun_equal_disciplined : forall rs dh i j r,
  closed dh = true -> Forall (fun r => disciplined (r_ops r) = true) rs ->
  nth_error rs i = Some r -> nth_error rs j = Some r ->
  nth_error (snd (history dh rs)) i = nth_error (snd (history dh rs)) j.
Proof. exact disciplined_rerun_equal. Qed.
Print Assumptions C12_rerun_equal_disciplined.

(** (4) interleaving, for ANY machine with a shared part and per-thread private parts: if each
    thread, run alone from [s], leaves the shared part equal to [s] at each of its steps, then
    under EVERY schedule the shared part is untouched and each thread ends in the private
    state it reaches alone *)
Theorem C12_interleaving : forall (S Pv O : Type) (stp : S -> Pv -> O -> S * Pv) sch s ps,
  (forall t, read_only stp s (ps t) (proj t sch)) ->
  fst (sched_run stp s ps sch) = s /\
  forall t, snd (sched_run stp s ps sch) t = snd (exec stp s (ps t) (proj t sch)).
Proof. exact @interleaving. Qed.
Print Assumptions C12_interleaving.

(** ... instantiated: disciplined runs on concurrent threads, each with its own context *)
Theorem C12_interleaving_disciplined : forall dh (sch : list (nat * op)) (inits : nat -> list (string * tree)),
  (forall t, disciplined (proj t sch) = true) ->
  let ps := fun t => init_ctx (inits t) empty_priv in
  fst (sched_run step dh ps sch) = dh /\
  forall t, snd (sched_run step dh ps sch) t = snd (run dh (ps t) (proj t sch)).
Proof. exact disciplined_interleaving. Qed.
Print Assumptions C12_interleaving_disciplined.

(** (5) the repair evaluated on the model.  [step_fixed] is [step] with the injection done as
    context.update(copy.deepcopy(in)) (likewise config.vars in pypyr.steps.configvars).  For that
    machine the FULL statements hold, for every operation list, with no discipline hypothesis:
    after the repair these replace (1)-(4) with [step := step_fixed]. *)
Theorem C12_no_def_mutation_after_repair : forall dh r,
  closed dh = true -> fst (run1_with step_fixed dh r) = dh.
Proof. exact fixed_run_unchanged. Qed.
Print Assumptions C12_no_def_mutation_after_repair.

Theorem C12_interleaving_after_repair : forall dh (sch : list (nat * op)) (inits : nat -> list (string * tree)),
  let ps := fun t => init_ctx (inits t) empty_priv in
  fst (sched_run step_fixed dh ps sch) = dh /\
  forall t, snd (sched_run step_fixed dh ps sch) t = snd (exec step_fixed dh (ps t) (proj t sch)).
Proof. exact fixed_interleaving. Qed.
Print Assumptions C12_interleaving_after_repair.

(* ---------------------------------------------------------------- non-vacuity *)
(* `in: {k: [1, 2]}`, set c = '{k}' (a rebuilt copy), append 3 to c, keep a by-reference
   alias r of the definition object without touching it *)
Definition good_defs : list tree := [TList [TInt 1; TInt 2]].
Definition good_run : runspec :=
  mkrun [("z", TList [TInt 0])]
        [InjectIn "k" (CPtr (D 0)); SetFmt "c" (TRef RCopy "k"); SetFmt "r" (TRef RFlat "k");
         AppendKey "c" (TInt 3); PyAppend "z" 9; Merge [("c", TList [TInt 4])]; Unset "k"; Probe].
Definition other_run : runspec :=
  mkrun [] [InjectIn "k" (CPtr (D 0)); SetFmt "m" (TDict [("x", TRef RCopy "k")]);
            Defaults [("m", TDict [("y", TInt 1)])]; Probe].

Example C12_partial_nonvacuous :
  let dh := fst (load good_defs []) in
  disciplined (r_ops good_run) = true /\
  o_final (snd (run1 dh good_run)) =
    [("z", TList [TInt 0; TInt 9]); ("c", TList [TInt 1; TInt 2; TInt 3; TInt 4]);
     ("r", TList [TInt 1; TInt 2])] /\
  fst (run1 dh good_run) = dh.
Proof. vm_compute. repeat split. Qed.

(* the refuted run is (of course) rejected by the discipline *)
Example C12_refuted_run_not_disciplined : disciplined (r_ops witness_run) = false.
Proof. reflexivity. Qed.

Example C12_rerun_nonvacuous :
  let dh := fst (load good_defs []) in
  let rs := [good_run; other_run; good_run; other_run; good_run] in
  Forall (fun r => disciplined (r_ops r) = true) rs /\
  nth_error (snd (history dh rs)) 0 = nth_error (snd (history dh rs)) 4 /\
  nth_error (snd (history dh rs)) 0 <> nth_error (snd (history dh rs)) 1.
Proof.
  cbv zeta. split; [repeat constructor|]. split; [vm_compute; reflexivity|].
  vm_compute. intro H. discriminate H.
Qed.

Example C12_interleaving_nonvacuous :
  let dh := fst (load good_defs []) in
  let sch := [(0, InjectIn "k" (CPtr (D 0))); (1, InjectIn "k" (CPtr (D 0)));
              (1, SetFmt "m" (TRef RCopy "k")); (0, SetFmt "c" (TRef RCopy "k"));
              (0, AppendKey "c" (TInt 3)); (1, PyAppend "m" 7); (0, Probe); (1, Probe)]%nat in
  (forall t, disciplined (proj t sch) = true) /\
  o_final (result_of dh (snd (sched_run step dh (fun _ => empty_priv) sch) 0%nat)) =
    [("k", TList [TInt 1; TInt 2]); ("c", TList [TInt 1; TInt 2; TInt 3])] /\
  o_final (result_of dh (snd (sched_run step dh (fun _ => empty_priv) sch) 1%nat)) =
    [("k", TList [TInt 1; TInt 2]); ("m", TList [TInt 1; TInt 2; TInt 7])].
Proof.
  cbv zeta. split.
  - intro t. destruct t as [|[|t]]; reflexivity.
  - vm_compute. split; reflexivity.
Qed.

(* the witness of (1) is harmless on the repaired machine, and still does its work *)
Example C12_after_repair_nonvacuous :
  let dh := fst (load witness_defs []) in
  fst (run1_with step_fixed dh witness_run) = dh /\
  o_final (snd (run1_with step_fixed dh witness_run)) = [("k", TList [TInt 1; TInt 2; TInt 3])] /\
  snd (run1_with step_fixed (fst (run1_with step_fixed dh witness_run)) witness_run)
    = snd (run1_with step_fixed dh witness_run).
Proof. vm_compute. repeat split. Qed.
