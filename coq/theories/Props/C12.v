(** Props/C12.v — runs are independent: a run never alters shared definitions or other runs.

    Model: Model/Alias.v, a heap machine.  [dh] is the DEFINITION heap (cached
    PipelineDefinition bodies and config.vars — it persists across runs: it is the cache),
    a run has a private state [priv] (its Context, the objects it creates — its own id
    namespace —, status, probe trace).  [step dh p o] is the effect of one operation;
    [run1 dh r] a whole run of [r] from a fresh context; [history dh rs] runs one after the
    other in one process; [sched_run step dh ps sch] threads [ps t] executing the schedule
    [sch] — an ARBITRARY merge of their operation lists, any length, any number of threads.
    All statements are for every operation list, of any length, with no side condition.

    Level: proof on the model, PARTIAL — CPython-level atomicity (GIL) of one dict/list
    operation, the logging module and third-party step modules are not modelled; steps are
    the unit of interleaving.

    History: before pypyr commit d9572b0 Step.set_step_input_context did context.update(in),
    so a container given under `in` WAS the cached definition's object and append /
    contextmerge / default / py / add changed the definition in place ([step_aliasing];
    Example C12_why_the_repair_was_needed); likewise, before fd90231, a shortcut's parser_args
    list was handed to the context parser itself, so pypyr.parser.list bound argList to the
    list held by config.shortcuts.  [step] is the repaired code: every such transfer
    ([InjectIn]) is a copy; the definition heap holds pipeline bodies, config.vars and the
    shortcuts' parser_args alike.  The invariant behind every theorem: no context key and no object of a run's
    own heap ever points into the definition heap (AliasProofs.pinv with the empty taint set). *)
From Coq Require Import List String ZArith.
From PV Require Import Alias AliasProofs GenC12 GenC12Proofs.
Import ListNotations.
Open Scope string_scope.

(** what the yaml loader builds holds no pointer into any run's heap *)
Theorem C12_loaded_definitions_closed : forall defs, closed (fst (load defs [])) = true.
Proof. exact load_closed. Qed.
Print Assumptions C12_loaded_definitions_closed.

(** (1) every run — any operation list — leaves the definition heap exactly as it was ... *)
Theorem C12_no_def_mutation : forall dh r, closed dh = true -> fst (run1 dh r) = dh.
Proof. exact run_unchanged. Qed.
Print Assumptions C12_no_def_mutation.

(** ... after EVERY operation of the run, not only at its end ... *)
Theorem C12_no_def_mutation_every_step : forall dh r, read_only step dh (start r) (r_ops r).
Proof. exact run_read_only. Qed.
Print Assumptions C12_no_def_mutation_every_step.

(** ... and so does any number of runs of any pipelines in any order, each of which yields
    exactly what it yields when it is the only run ever made *)
Theorem C12_history_unchanged : forall rs dh, closed dh = true ->
  history dh rs = (dh, map (fun r => snd (run1 dh r)) rs).
Proof. exact history_all. Qed.
Print Assumptions C12_history_unchanged.

(** (2) run j of a pipeline from an equal initial context yields exactly what run i of it
    yielded (and what it yields alone) — whatever other runs, how many and in which order,
    happened before or in between *)
Theorem C12_rerun_equal : forall rs dh i j r, closed dh = true ->
  nth_error rs i = Some r -> nth_error rs j = Some r ->
  nth_error (snd (history dh rs)) i = Some (snd (run1 dh r)) /\
  nth_error (snd (history dh rs)) j = Some (snd (run1 dh r)).
Proof. exact rerun_all. Qed.
Print Assumptions C12_rerun_equal.

(** (3) interleaving, for ANY machine with a shared part and per-thread private parts: if each
    thread, run alone from [s], leaves the shared part equal to [s] at each of its steps, then
    under EVERY schedule the shared part is untouched and each thread ends in the private
    state it reaches alone *)
Theorem C12_interleaving_generic : forall (S Pv O : Type) (stp : S -> Pv -> O -> S * Pv) sch s ps,
  (forall t, read_only stp s (ps t) (proj t sch)) ->
  fst (sched_run stp s ps sch) = s /\
  forall t, snd (sched_run stp s ps sch) t = snd (exec stp s (ps t) (proj t sch)).
Proof. exact @interleaving. Qed.
Print Assumptions C12_interleaving_generic.

(** ... instantiated: any number of runs on concurrent threads, each with its own context,
    any operation lists, EVERY schedule: the definition heap is untouched and each run ends
    in the private state (context, objects, trace, outcome) it reaches when run alone *)
Theorem C12_interleaving : forall dh (sch : list (nat * op)) (inits : nat -> list (string * tree)),
  let ps := fun t => init_ctx (inits t) empty_priv in
  fst (sched_run step dh ps sch) = dh /\
  forall t, snd (sched_run step dh ps sch) t = snd (run dh (ps t) (proj t sch)).
Proof. exact interleaving_all. Qed.
Print Assumptions C12_interleaving.

(** (4) Tie B: the model's transfer-point table is the one tools/py2coq_c12.py extracts from
    the CURRENT source ([gen_transfer], Gen/GenC12.v): Step.set_step_input_context,
    steps/configvars.py, Pipeline.new_pipe_and_args (shortcut args and parser_args),
    Step.save_error (onError), Step.foreach_loop, steps/pype.py get_arguments, and the formatter
    (Context.get_formatted_value -> RecursiveFormatter.vformat -> _get_formatted_iterable). *)
Theorem C12_source_transfer_points_is_model : forall tp, gen_transfer tp = model_discipline tp.
Proof. exact gen_transfer_is_model. Qed.
Print Assumptions C12_source_transfer_points_is_model.

(** the machine built from the source's table is the model's [step] ... *)
Theorem C12_source_machine_is_model : forall dh p o, step_of gen_transfer dh p o = step dh p o.
Proof. exact gen_machine_is_model. Qed.
Print Assumptions C12_source_machine_is_model.

Theorem C12_source_runs_is_model : forall ops dh p, exec (step_of gen_transfer) dh p ops = run dh p ops.
Proof. exact gen_exec_is_model. Qed.
Print Assumptions C12_source_runs_is_model.

(** ... and (proved from the generated table alone: no point is by reference) it never writes
    the definition heap, whatever the operations *)
Theorem C12_source_no_def_mutation : forall dh r,
  fst (exec (step_of gen_transfer) dh (start r) (r_ops r)) = dh.
Proof. exact gen_machine_run_unchanged. Qed.
Print Assumptions C12_source_no_def_mutation.

(* ---------------------------------------------------------------- non-vacuity *)
(* `in: {k: [1, 2]}`, append 3 to k in place; keep a by-reference alias; merge into it *)
Definition defs0 : list tree := [TList [TInt 1; TInt 2]].
Definition run_a : runspec :=
  mkrun [("z", TList [TInt 0])]
        [InjectIn TPIn "k" (CPtr (D 0)); AppendKey "k" (TInt 3); SetFmt "r" (TRef RFlat "k");
         PyAppend "r" 9; Merge [("r", TList [TInt 4])]; SetFmt "c" (TRef RCopy "k"); Unset "k"; Probe].
Definition run_b : runspec :=
  mkrun [] [InjectIn TPIn "k" (CPtr (D 0)); SetFmt "m" (TDict [("x", TRef RPy "k")]);
            Defaults [("m", TDict [("y", TInt 1)])]; PyAppend "k" 7; Probe].

Example C12_no_def_mutation_nonvacuous :
  let dh := fst (load defs0 []) in
  o_final (snd (run1 dh run_a)) =
    [("z", TList [TInt 0]); ("r", TList [TInt 1; TInt 2; TInt 3; TInt 9; TInt 4]);
     ("c", TList [TInt 1; TInt 2; TInt 3; TInt 9; TInt 4])] /\
  fst (run1 dh run_a) = dh.
Proof. vm_compute. repeat split. Qed.

Example C12_rerun_nonvacuous :
  let dh := fst (load defs0 []) in
  let rs := [run_a; run_b; run_a; run_b; run_a] in
  nth_error (snd (history dh rs)) 0 = nth_error (snd (history dh rs)) 4 /\
  nth_error (snd (history dh rs)) 0 <> nth_error (snd (history dh rs)) 1.
Proof. cbv zeta. split; [vm_compute; reflexivity|]. vm_compute. intro H. discriminate H. Qed.

Example C12_interleaving_nonvacuous :
  let dh := fst (load defs0 []) in
  let sch := [(0, InjectIn TPIn "k" (CPtr (D 0))); (1, InjectIn TPIn "k" (CPtr (D 0)));
              (1, PyAppend "k" 7); (0, AppendKey "k" (TInt 3)); (0, Probe); (1, Probe)]%nat in
  fst (sched_run step dh (fun _ => empty_priv) sch) = dh /\
  o_final (result_of dh (snd (sched_run step dh (fun _ => empty_priv) sch) 0%nat)) =
    [("k", TList [TInt 1; TInt 2; TInt 3])] /\
  o_final (result_of dh (snd (sched_run step dh (fun _ => empty_priv) sch) 1%nat)) =
    [("k", TList [TInt 1; TInt 2; TInt 7])].
Proof. vm_compute. repeat split. Qed.

(* a failing, swallowed step whose onError is a container: runErrors[-1]['customError'] is a
   rebuilt copy; a later step grows it in place (py: runErrors[-1]['customError']['by'].append(5)) *)
Definition run_err : runspec :=
  mkrun [] [SaveError (TDict [("code", TInt 42); ("by", TList [])]);
            BindPath "$t" "runErrors" [SLast; SKey "customError"; SKey "by"]; PyAppend "$t" 5;
            Unset "$t"; Probe].
Example C12_onError_nonvacuous :
  let dh := fst (load defs0 []) in
  o_final (snd (run1 dh run_err)) =
    [("runErrors", TList [TDict [("customError", TDict [("code", TInt 42); ("by", TList [TInt 5])])]])] /\
  nth_error (snd (history dh [run_err; run_err])) 0 = nth_error (snd (history dh [run_err; run_err])) 1.
Proof. vm_compute. split; reflexivity. Qed.

(* HISTORICAL witness (not a property of the current code): on the pre-d9572b0 machine
   [step_aliasing] the run `in: {k: [1, 2]}` + append 3 changed the definition heap, and the
   same run made again saw [1, 2, 3] instead of [1, 2]; on [step] it does not. *)
Definition witness_run : runspec := mkrun [] [InjectIn TPIn "k" (CPtr (D 0)); AppendKey "k" (TInt 3)].
Example C12_why_the_repair_was_needed :
  let dh := fst (load defs0 []) in
  fst (exec step_aliasing dh (start witness_run) (r_ops witness_run)) = [OList [CInt 1; CInt 2; CInt 3]] /\
  dh = [OList [CInt 1; CInt 2]] /\
  disciplined (r_ops witness_run) = false /\
  fst (run1 dh witness_run) = dh.
Proof. vm_compute. repeat split. Qed.
