(** Props/C12.v — placeholder, to be written. *)
