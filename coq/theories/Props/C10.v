(** Props/C10.v — contextmerge changes only the named paths; default never overwrites.

    Model: Model/Merge.v ([merge_rec] = Context.merge.merge_recurse, [defaults_rec] =
    Context.set_defaults.defaults_recurse, over the formatter of Model/Format.v).  The whole
    context is threaded, so a key or value is formatted against the context as it is at
    that moment; [s_tr] is the ghost trace of every path written; [named_by] ties each
    written path to a key path of the incoming tree, key by key, through formatting.

    All theorems hold for ALL pairs of trees, every fuel, every cursor, every status (an error
    half-way leaves a partially merged context — the frame covers that too).

    Findings (see the [_refuted] theorems):
      F1  a value the formatter returns BY REFERENCE ([{k:ff}], [!py k]) followed by an
          incoming key that formats to the same key mutates the shared object in place: a
          path nobody named changes.  Holds for merge and for set_defaults.  The full frame
          statements are therefore false; the [_partial] versions carry the hypothesis
          [s_sh s' = NoShare] (no by-reference value was stored during the run).
      F2  "named" cannot be read statically (format the incoming mapping against the context
          as it was before): keys are formatted one at a time against the context being
          merged into, so a key can read a key merged a moment earlier.

    "The incoming mapping is left unmodified": a Gallina function cannot mutate its argument,
    so this holds of the model by construction and has no proof content; it is carried by
    the correspondence run (before/after snapshots of the incoming tree, value and identity). *)
From PV Require Import Format FormatProofs Merge MergeProofs GenC10Proofs.
From PV.Gen Require Import GenC10.
Open Scope string_scope.

(** * merge: the frame *)
(** FULL STATEMENT (false, see [C10_merge_frame_refuted]):
      forall ff prot fuel s a items stt s',
        merge_rec ff prot fuel s a items = (stt, s') ->
        exists new, s_tr s' = new ++ s_tr s /\
          forall p, (forall w, In w new -> disjoint p w) ->
            lookup_path (VDict (s_root s')) p = lookup_path (VDict (s_root s)) p.
    PROVED with the excluding hypothesis inside [frame_rel]: [s_sh s' = NoShare]. *)
Theorem C10_merge_frame_partial : forall ff prot fuel s a items stt s',
  merge_rec ff prot fuel s a items = (stt, s') ->
  s_sh s' = NoShare ->
  s_sh s = NoShare /\
  exists new, s_tr s' = (new ++ s_tr s)%list /\
    forall p, (forall w, In w new -> disjoint p w) ->
      lookup_path (VDict (s_root s')) p = lookup_path (VDict (s_root s)) p.
Proof. exact merge_rec_frame. Qed.
Print Assumptions C10_merge_frame_partial.

(** the same for a whole [Context(root).merge(add)] *)
Theorem C10_merge_top_frame_partial : forall ff fuel root add stt s',
  merge_top ff fuel root add = (stt, s') -> s_sh s' = NoShare ->
  forall p, (forall w, In w (s_tr s') -> disjoint p w) ->
    lookup_path (VDict (s_root s')) p = lookup_path (VDict root) p.
Proof. exact merge_top_frame. Qed.
Print Assumptions C10_merge_top_frame_partial.

Theorem C10_merge_frame_refuted :
  exists root add p s',
    merge_top FUEL FUEL root add = (SOk, s') /\
    (forall w, In w (s_tr s') -> disjoint p w) /\
    lookup_path (VDict (s_root s')) p <> lookup_path (VDict root) p.
Proof. exact merge_frame_refuted. Qed.
Print Assumptions C10_merge_frame_refuted.

Theorem C10_merge_frame_static_refuted :
  exists root add fadd k s',
    format_value FUEL root (VDict add) = Ok (VDict fadd) /\
    merge_top FUEL FUEL root add = (SOk, s') /\ s_sh s' = NoShare /\
    dict_get k fadd = None /\
    lookup_path (VDict (s_root s')) [k] <> lookup_path (VDict root) [k].
Proof. exact merge_frame_static_refuted. Qed.
Print Assumptions C10_merge_frame_static_refuted.

(** * keys are formatted: every written path is named by the incoming tree *)
Theorem C10_keys_formatted : forall ff fuel root add stt s',
  merge_top ff fuel root add = (stt, s') ->
  forall w, In w (s_tr s') -> named_by ff [] add w.
Proof. exact merge_top_named. Qed.
Print Assumptions C10_keys_formatted.

Theorem C10_keys_formatted_anywhere : forall ff prot fuel s a items stt s',
  merge_rec ff prot fuel s a items = (stt, s') ->
  exists new, s_tr s' = (new ++ s_tr s)%list /\ forall w, In w new -> named_by ff a items w.
Proof. exact merge_rec_named. Qed.
Print Assumptions C10_keys_formatted_anywhere.

(** a brace-free (or non-string) key names itself *)
Theorem C10_literal_key_names_itself : forall f c k kf,
  lit_key k -> format_value (S f) c k = Ok kf -> kf = k.
Proof. exact lit_key_formats_to_itself. Qed.
Print Assumptions C10_literal_key_names_itself.

(** * merge: the type-clash table, one theorem per row *)
Theorem C10_table_str_or_tag_overwrites : forall ff prot rec s a k v kf,
  fmt ff s k = Ok kf -> key_kind_ok kf = true ->
  forall x, is_strtag v = true -> fmtv ff s v = Ok x ->
  merge_item ff prot rec s a k v = assign prot s a kf x (leaf_share (s_root s) v x).
Proof. exact row_str. Qed.
Print Assumptions C10_table_str_or_tag_overwrites.

Theorem C10_table_bytes_overwrite_raw : forall ff prot rec s a k v kf,
  fmt ff s k = Ok kf -> key_kind_ok kf = true ->
  forall b, v = VBytes b -> merge_item ff prot rec s a k v = assign prot s a kf v ShNone.
Proof. exact row_bytes. Qed.
Print Assumptions C10_table_bytes_overwrite_raw.

Theorem C10_table_absent_sets_formatted : forall ff prot rec s a k v kf,
  fmt ff s k = Ok kf -> key_kind_ok kf = true ->
  forall cur, cur_dict s a = Some cur ->
  is_strtag v = false -> (forall b, v <> VBytes b) ->
  forall x, dict_get kf cur = None -> fmtv ff s v = Ok x ->
  merge_item ff prot rec s a k v = assign prot s a kf x (tree_share ff (s_root s) v).
Proof. exact row_absent. Qed.
Print Assumptions C10_table_absent_sets_formatted.

Theorem C10_table_map_map_recurses : forall ff prot rec s a k v kf,
  fmt ff s k = Ok kf -> key_kind_ok kf = true ->
  forall cur, cur_dict s a = Some cur ->
  forall d l, dict_get kf cur = Some (VDict d) -> v = VDict l ->
  merge_item ff prot rec s a k v = rec s (a ++ [kf])%list l.
Proof. exact row_map_map. Qed.
Print Assumptions C10_table_map_map_recurses.

Theorem C10_table_list_list_extends : forall ff prot rec s a k v kf,
  fmt ff s k = Ok kf -> key_kind_ok kf = true ->
  forall cur, cur_dict s a = Some cur ->
  forall el l xl, dict_get kf cur = Some (VList el) -> v = VList l -> fmtv ff s v = Ok (VList xl) ->
  merge_item ff prot rec s a k v = extend prot s (a ++ [kf])%list xl (tree_share ff (s_root s) v).
Proof. exact row_list_list. Qed.
Print Assumptions C10_table_list_list_extends.

Theorem C10_table_tuple_tuple_concats : forall ff prot rec s a k v kf,
  fmt ff s k = Ok kf -> key_kind_ok kf = true ->
  forall cur, cur_dict s a = Some cur ->
  forall el l xl, dict_get kf cur = Some (VTuple el) -> v = VTuple l -> fmtv ff s v = Ok (VTuple xl) ->
  merge_item ff prot rec s a k v
  = assign prot s a kf (VTuple (el ++ xl)%list) (tree_share ff (s_root s) v).
Proof. exact row_tuple_tuple. Qed.
Print Assumptions C10_table_tuple_tuple_concats.

Theorem C10_table_set_set_unions : forall ff prot rec s a k v kf,
  fmt ff s k = Ok kf -> key_kind_ok kf = true ->
  forall cur, cur_dict s a = Some cur ->
  forall el l xl u, dict_get kf cur = Some (VSet el) -> v = VSet l -> fmtv ff s v = Ok (VSet xl) ->
  set_of_list (el ++ xl)%list = Some u ->
  merge_item ff prot rec s a k v = assign prot s a kf (VSet u) ShNone.
Proof. exact row_set_set. Qed.
Print Assumptions C10_table_set_set_unions.

Theorem C10_table_clash_overwrites : forall ff prot rec s a k v kf,
  fmt ff s k = Ok kf -> key_kind_ok kf = true ->
  forall cur, cur_dict s a = Some cur ->
  is_strtag v = false -> (forall b, v <> VBytes b) ->
  forall ev x, dict_get kf cur = Some ev -> mergeable ev v = false -> fmtv ff s v = Ok x ->
  merge_item ff prot rec s a k v = assign prot s a kf x (tree_share ff (s_root s) v).
Proof. exact row_clash. Qed.
Print Assumptions C10_table_clash_overwrites.

(** what the two primitive writes of the table do to the tree *)
Theorem C10_assign_overwrites : forall s a k x cur,
  s_sh s = NoShare -> cur_dict s a = Some cur ->
  exists s', assign None s a k x ShNone = (SOk, s') /\ s_sh s' = NoShare /\
    s_tr s' = (a ++ [k])%list :: s_tr s /\
    lookup_path (VDict (s_root s')) (a ++ [k])%list = Some x /\
    cur_dict s' a = Some (dict_set k x cur).
Proof. exact assign_effect. Qed.
Print Assumptions C10_assign_overwrites.

Theorem C10_extend_appends : forall s w xs el,
  s_sh s = NoShare -> lookup_path (VDict (s_root s)) w = Some (VList el) ->
  exists s', extend None s w xs ShNone = (SOk, s') /\ s_sh s' = NoShare /\
    s_tr s' = w :: s_tr s /\
    lookup_path (VDict (s_root s')) w = Some (VList (el ++ xs)%list).
Proof. exact extend_effect. Qed.
Print Assumptions C10_extend_appends.

(** * lists, tuples, sets: existing members first, the formatted incoming members after *)
Theorem C10_merge_appends_after_list : forall f rec s a k kf cur l el x,
  s_sh s = NoShare -> fmt (S f) s k = Ok kf -> key_kind_ok kf = true ->
  cur_dict s a = Some cur -> dict_get kf cur = Some (VList el) ->
  fmtv (S f) s (VList l) = Ok x -> tree_share (S f) (s_root s) (VList l) = ShNone ->
  exists xl s',
    Forall2 (fun m y => format_value f (s_root s) m = Ok y) l xl /\
    merge_item (S f) None rec s a k (VList l) = (SOk, s') /\
    lookup_path (VDict (s_root s')) (a ++ [kf])%list = Some (VList (el ++ xl)%list) /\
    s_tr s' = (a ++ [kf])%list :: s_tr s.
Proof. exact merge_list_appends_after. Qed.
Print Assumptions C10_merge_appends_after_list.

Theorem C10_merge_appends_after_tuple : forall f rec s a k kf cur l el x,
  s_sh s = NoShare -> fmt (S f) s k = Ok kf -> key_kind_ok kf = true ->
  cur_dict s a = Some cur -> dict_get kf cur = Some (VTuple el) ->
  fmtv (S f) s (VTuple l) = Ok x -> tree_share (S f) (s_root s) (VTuple l) = ShNone ->
  exists xl s',
    Forall2 (fun m y => format_value f (s_root s) m = Ok y) l xl /\
    merge_item (S f) None rec s a k (VTuple l) = (SOk, s') /\
    lookup_path (VDict (s_root s')) (a ++ [kf])%list = Some (VTuple (el ++ xl)%list).
Proof. exact merge_tuple_appends_after. Qed.
Print Assumptions C10_merge_appends_after_tuple.

Theorem C10_merge_set_union : forall f rec s a k kf cur l el,
  s_sh s = NoShare -> fmt (S f) s k = Ok kf -> key_kind_ok kf = true ->
  cur_dict s a = Some cur ->
  forall u xl, dict_get kf cur = Some (VSet el) -> fmtv (S f) s (VSet l) = Ok (VSet xl) ->
  set_of_list (el ++ xl)%list = Some u ->
  exists s',
    merge_item (S f) None rec s a k (VSet l) = (SOk, s') /\
    lookup_path (VDict (s_root s')) (a ++ [kf])%list = Some (VSet u) /\
    forall y, In y u <-> In y el \/ In y xl.
Proof. exact merge_set_union. Qed.
Print Assumptions C10_merge_set_union.

(** * set_defaults *)
(** FULL STATEMENT (false, see [C10_defaults_frame_refuted]): as below without
    [s_sh s' = NoShare]. *)
Theorem C10_defaults_never_overwrite_partial : forall ff fuel root add stt s',
  defaults_top ff fuel root add = (stt, s') -> s_sh s' = NoShare ->
  forall p x, lookup_path (VDict root) p = Some x ->
    exists x', lookup_path (VDict (s_root s')) p = Some x' /\
      match x with VDict _ => exists d', x' = VDict d' | _ => x' = x end.
Proof. exact defaults_top_never_overwrites. Qed.
Print Assumptions C10_defaults_never_overwrite_partial.

(** ... even when the existing value is None *)
Theorem C10_defaults_keeps_none_partial : forall ff fuel root add stt s' p,
  defaults_top ff fuel root add = (stt, s') -> s_sh s' = NoShare ->
  lookup_path (VDict root) p = Some VNone -> lookup_path (VDict (s_root s')) p = Some VNone.
Proof. exact defaults_top_keeps_none. Qed.
Print Assumptions C10_defaults_keeps_none_partial.

(** it adds exactly the missing ones: (1) every path it writes was missing, *)
Theorem C10_defaults_writes_only_missing_partial : forall ff fuel root add stt s',
  defaults_top ff fuel root add = (stt, s') -> s_sh s' = NoShare ->
  forall w, In w (s_tr s') -> lookup_path (VDict root) w = None.
Proof. exact defaults_top_writes_only_missing. Qed.
Print Assumptions C10_defaults_writes_only_missing_partial.

(** (2) nothing else appears or changes: the frame, *)
Theorem C10_defaults_frame_partial : forall ff fuel root add stt s',
  defaults_top ff fuel root add = (stt, s') -> s_sh s' = NoShare ->
  forall p, (forall w, In w (s_tr s') -> disjoint p w) ->
    lookup_path (VDict (s_root s')) p = lookup_path (VDict root) p.
Proof. exact defaults_top_frame. Qed.
Print Assumptions C10_defaults_frame_partial.

(** (3) every written path is named by the defaults tree (keys formatted), *)
Theorem C10_defaults_keys_formatted : forall ff fuel root add stt s',
  defaults_top ff fuel root add = (stt, s') ->
  forall w, In w (s_tr s') -> named_by ff [] add w.
Proof. exact defaults_top_named. Qed.
Print Assumptions C10_defaults_keys_formatted.

(** (4) and after a successful iteration the formatted key IS present. *)
Theorem C10_defaults_adds_missing : forall ff prot f s a k v s',
  defaults_item ff prot (defaults_rec ff prot f) s a k v = (SOk, s') -> s_sh s' = NoShare ->
  exists kf cur', fmt ff s k = Ok kf /\ cur_dict s' a = Some cur' /\ dict_has kf cur' = true.
Proof. exact defaults_rec_item_adds. Qed.
Print Assumptions C10_defaults_adds_missing.

Theorem C10_defaults_frame_refuted :
  exists root add p s',
    defaults_top FUEL FUEL root add = (SOk, s') /\
    (forall w, In w (s_tr s') -> disjoint p w) /\
    lookup_path (VDict root) p = None /\
    lookup_path (VDict (s_root s')) p <> None.
Proof. exact defaults_frame_refuted. Qed.
Print Assumptions C10_defaults_frame_refuted.

(** the set_defaults table *)
Theorem C10_defaults_table_present_untouched : forall ff prot rec s a k v kf,
  fmt ff s k = Ok kf -> key_kind_ok kf = true ->
  forall cur, cur_dict s a = Some cur ->
  forall ev, dict_get kf cur = Some ev ->
  mergeable ev v = false \/ (forall d, ev <> VDict d) ->
  defaults_item ff prot rec s a k v = (SOk, s).
Proof. exact drow_present. Qed.
Print Assumptions C10_defaults_table_present_untouched.

Theorem C10_defaults_table_map_map_recurses : forall ff prot rec s a k v kf,
  fmt ff s k = Ok kf -> key_kind_ok kf = true ->
  forall cur, cur_dict s a = Some cur ->
  forall d l, dict_get kf cur = Some (VDict d) -> v = VDict l ->
  defaults_item ff prot rec s a k v = rec s (a ++ [kf])%list l.
Proof. exact drow_map_map. Qed.
Print Assumptions C10_defaults_table_map_map_recurses.

Theorem C10_defaults_table_absent_sets_formatted : forall ff prot rec s a k v kf cur x,
  fmt ff s k = Ok kf -> key_kind_ok kf = true -> cur_dict s a = Some cur ->
  dict_get kf cur = None -> fmtv ff s v = Ok x ->
  defaults_item ff prot rec s a k v
  = assign prot s a kf x (if is_strtag v then leaf_share (s_root s) v x
                          else tree_share ff (s_root s) v).
Proof. exact drow_absent. Qed.
Print Assumptions C10_defaults_table_absent_sets_formatted.

(** * Tie B: the model's loop bodies ARE the current source
    [gen_merge_body] / [gen_defaults_body] (Gen/GenC10.v) are regenerated before every build
    from pypyr/context.py by tools/py2coq_c10.py: the syntax tree of the body of
    [for k, v in add_me.items()] in [merge_recurse] / [defaults_recurse].  [run_item] (Model/
    Merge.v) is the meaning of that statement fragment.  The hand-written model equals it for
    every state, cursor, key, value and EVERY behaviour of the recursive call. *)
Theorem C10_source_merge_item_is_model : forall ff prot rec s a k v,
  run_item ff prot rec gen_merge_body s a k v = merge_item ff prot rec s a k v.
Proof. intros. now apply gen_merge_item_is_model. Qed.
Print Assumptions C10_source_merge_item_is_model.

Theorem C10_source_defaults_item_is_model : forall ff prot rec s a k v,
  run_item ff prot rec gen_defaults_body s a k v = defaults_item ff prot rec s a k v.
Proof. intros. now apply gen_defaults_item_is_model. Qed.
Print Assumptions C10_source_defaults_item_is_model.

(** ... hence the whole recursion, for every fuel, and the two methods *)
Theorem C10_source_merge_recurse_is_model : forall ff prot fuel s a items,
  run_rec ff prot gen_merge_body fuel s a items = merge_rec ff prot fuel s a items.
Proof. exact gen_merge_rec_is_model. Qed.
Print Assumptions C10_source_merge_recurse_is_model.

Theorem C10_source_defaults_recurse_is_model : forall ff prot fuel s a items,
  run_rec ff prot gen_defaults_body fuel s a items = defaults_rec ff prot fuel s a items.
Proof. exact gen_defaults_rec_is_model. Qed.
Print Assumptions C10_source_defaults_recurse_is_model.

Theorem C10_source_merge_is_model : forall ff fuel root add,
  run_top ff fuel gen_merge_body root add = merge_top ff fuel root add.
Proof. exact gen_merge_top_is_model. Qed.
Print Assumptions C10_source_merge_is_model.

Theorem C10_source_set_defaults_is_model : forall ff fuel root add,
  run_top ff fuel gen_defaults_body root add = defaults_top ff fuel root add.
Proof. exact gen_defaults_top_is_model. Qed.
Print Assumptions C10_source_set_defaults_is_model.

(** pypyr/dsl.py: the classes derived from SpecialTagDirective are the three tags of [val] *)
Theorem C10_source_special_tags_is_model : gen_special_tag_classes = special_tag_classes.
Proof. exact gen_special_tags_is_model. Qed.
Print Assumptions C10_source_special_tags_is_model.

(** pypyr/steps/contextmerge.py and default.py: key asserted, method called on context[key],
    len(context[key]) taken afterwards *)
Theorem C10_source_contextmerge_step_is_model : forall ff fuel root,
  step_run_src gen_contextmerge_step ff fuel root = step_run true ff fuel root.
Proof. exact gen_contextmerge_step_is_model. Qed.
Print Assumptions C10_source_contextmerge_step_is_model.

Theorem C10_source_default_step_is_model : forall ff fuel root,
  step_run_src gen_default_step ff fuel root = step_run false ff fuel root.
Proof. exact gen_default_step_is_model. Qed.
Print Assumptions C10_source_default_step_is_model.

(** * Non-vacuity: concrete instances through the real formatter (evaluated) *)
Definition ex_root : dict :=
  [(VStr "k1", VStr "a"); (VStr "z", VInt 5);
   (VStr "a", VDict [(VStr "b", VInt 1); (VStr "c", VInt 2)]);
   (VStr "l", VList [VInt 1]); (VStr "t", VTuple [VInt 1]); (VStr "st", VSet [VInt 1]);
   (VStr "i", VInt 7); (VStr "n", VNone)].

(** formatted key, nested recursion, a value reading a key merged a moment earlier; the trace
    is exactly the written paths and the sibling [a/c] is untouched *)
Example C10_merge_frame_nonvacuous :
  let o := merge_top FUEL FUEL ex_root
             [(VStr "z", VInt 6); (VStr "{k1}", VDict [(VStr "b", VStr "{z}")]);
              (VStr "l", VList [VStr "{z}"]); (VStr "t", VTuple [VInt 2]);
              (VStr "st", VSet [VInt 2]); (VStr "i", VList [VInt 0]); (VStr "new", VBytes "{z}")] in
  fst o = SOk /\ s_sh (snd o) = NoShare /\
  s_tr (snd o) = [[VStr "new"]; [VStr "i"]; [VStr "st"]; [VStr "t"]; [VStr "l"];
                  [VStr "a"; VStr "b"]; [VStr "z"]] /\
  s_root (snd o) =
    [(VStr "k1", VStr "a"); (VStr "z", VInt 6);
     (VStr "a", VDict [(VStr "b", VInt 6); (VStr "c", VInt 2)]);
     (VStr "l", VList [VInt 1; VInt 6]); (VStr "t", VTuple [VInt 1; VInt 2]);
     (VStr "st", VSet [VInt 1; VInt 2]); (VStr "i", VList [VInt 0]); (VStr "n", VNone);
     (VStr "new", VBytes "{z}")] /\
  disjointb [VStr "a"; VStr "c"] [VStr "a"; VStr "b"] = true.
Proof. vm_compute. repeat split. Qed.

(** set_defaults: None is kept, a present key of another kind is kept, the missing nested
    key is added, the missing top-level key is added formatted *)
Example C10_defaults_nonvacuous :
  let o := defaults_top FUEL FUEL ex_root
             [(VStr "n", VStr "x"); (VStr "i", VDict [(VStr "q", VInt 1)]);
              (VStr "{k1}", VDict [(VStr "b", VInt 9); (VStr "d", VStr "{z}")]);
              (VStr "new{z}", VList [VStr "{i}"])] in
  fst o = SOk /\ s_sh (snd o) = NoShare /\
  s_tr (snd o) = [[VStr "new5"]; [VStr "a"; VStr "d"]] /\
  lookup_path (VDict (s_root (snd o))) [VStr "n"] = Some VNone /\
  lookup_path (VDict (s_root (snd o))) [VStr "i"] = Some (VInt 7) /\
  lookup_path (VDict (s_root (snd o))) [VStr "a"] =
    Some (VDict [(VStr "b", VInt 1); (VStr "c", VInt 2); (VStr "d", VInt 5)]) /\
  lookup_path (VDict (s_root (snd o))) [VStr "new5"] = Some (VList [VInt 7]).
Proof. vm_compute. repeat split. Qed.

(** an error half-way: the earlier items stay merged, the state is still reported *)
Example C10_partial_merge_nonvacuous :
  let o := merge_top FUEL FUEL ex_root [(VStr "z", VInt 6); (VStr "q", VStr "{nope}"); (VStr "i", VInt 0)] in
  fst o = SErr "pypyr.errors.KeyNotInContextError" "nope not found in the pypyr context." /\
  s_tr (snd o) = [[VStr "z"]] /\
  lookup_path (VDict (s_root (snd o))) [VStr "z"] = Some (VInt 6) /\
  lookup_path (VDict (s_root (snd o))) [VStr "i"] = Some (VInt 7).
Proof. vm_compute. repeat split. Qed.

(** the steps: the incoming mapping is context['contextMerge'] / context['defaults'] *)
Example C10_steps_nonvacuous :
  let o := step_run true FUEL FUEL (ex_root ++ [(VStr "contextMerge", VDict [(VStr "{k1}", VDict [(VStr "b", VInt 3)])])])%list in
  let d := step_run false FUEL FUEL (ex_root ++ [(VStr "defaults", VDict [(VStr "n", VInt 3); (VStr "m", VInt 3)])])%list in
  fst o = SOk /\ lookup_path (VDict (s_root (snd o))) [VStr "a"; VStr "b"] = Some (VInt 3) /\
  fst d = SOk /\ lookup_path (VDict (s_root (snd d))) [VStr "n"] = Some VNone /\
  lookup_path (VDict (s_root (snd d))) [VStr "m"] = Some (VInt 3).
Proof. vm_compute. repeat split. Qed.
