(** Props/C10.v — placeholder, to be written. *)
