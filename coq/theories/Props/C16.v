(** Props/C16.v — structured file steps round-trip and format every string node.

    Level: PARTIAL.  json.dump(indent=2, ensure_ascii=False) / json.load are modelled by a
    real printer and parser ([jprint], [json_parse]) and their round trip is proved.
    ruamel.yaml and tomllib / tomli-w are third-party code that is not modelled: for them
    the round-trip law is the named hypothesis [law] of each theorem (a Section hypothesis
    in Proofs/CodecProofs.v, tested on every generated payload by the correspondence run,
    not proved), stated on an explicit domain ([yaml_representable], [toml_representable]).
    Everything pypyr itself does around the codec - format the step input once, serialise
    the formatted payload to the formatted path, parse, store at the key / merge at the
    root, dump ∘ format ∘ load - is proved for an arbitrary codec satisfying the law and
    instantiated, closed, for JSON. *)
From PV Require Import Codec FormatProofs CodecProofs.
Open Scope string_scope.

(** * JSON: parse ∘ print = id
    for every JSON-representable value: None, bool, int, str (any bytes), lists and dicts
    with distinct str keys, nested to any depth, with the real 2-space indented layout. *)
Theorem C16_json_roundtrip : forall v,
  json_representable v -> exists s, json_print v = Some s /\ json_parse s = Some v.
Proof. exact json_print_parse. Qed.
Print Assumptions C16_json_roundtrip.

(** the same at any indentation level (a document embedded in a deeper one) *)
Theorem C16_json_roundtrip_any_indent : forall lvl v,
  json_rt v = true -> json_parse (jprint lvl v) = Some v.
Proof. exact json_roundtrip_at. Qed.
Print Assumptions C16_json_roundtrip_any_indent.

(** and inside any surrounding text: the parser consumes exactly the printed value *)
Theorem C16_json_roundtrip_in_context : forall v lvl fuel rest,
  json_rt v = true -> (need v <= fuel)%nat -> follow_ok rest = true ->
  parse_value fuel (jprint lvl v ++ rest) = Some (v, rest).
Proof. intros v lvl fuel rest H. exact (rt_at_all v H lvl fuel rest). Qed.
Print Assumptions C16_json_roundtrip_in_context.

(** strings alone: whatever bytes, the scanner undoes the escaping *)
Theorem C16_json_string_roundtrip : forall s rest,
  parse_str_body (json_str_body s ++ String dquote rest) = Some (s, rest).
Proof. exact parse_str_body_print. Qed.
Print Assumptions C16_json_string_roundtrip.

(** integers alone *)
Theorem C16_json_int_roundtrip : forall z rest,
  follow_ok rest = true -> parse_int (str_of_Z z ++ rest) = Some (z, rest).
Proof. exact parse_int_print. Qed.
Print Assumptions C16_json_int_roundtrip.

(** the domain is tight: what json.dump accepts but [json_representable] excludes does
    not come back equal (tuples come back as lists, int keys as str) *)
Theorem C16_json_tuple_refuted :
  exists v, json_ok v = true /\ json_parse (jprint 0 v) <> Some v.
Proof. exact json_tuple_not_roundtrip. Qed.
Print Assumptions C16_json_tuple_refuted.

Theorem C16_json_int_key_refuted :
  exists v, json_ok v = true /\ json_parse (jprint 0 v) <> Some v.
Proof. exact json_int_key_not_roundtrip. Qed.
Print Assumptions C16_json_int_key_refuted.

(** * fetch ∘ write, for ANY codec satisfying the round-trip law on [dom]
    [eqv] is document equality ([eq] for JSON and YAML; equality up to key order for TOML).
    [fp] is the formatted payload: the payload is formatted ONCE, as part of the step
    input, by the same [format_value] that C08/C09 are about. *)

(** with a key: the fetched value, equal to the formatted payload, is stored at the key -
    for ANY representable document, a scalar root (int, bool, None, float) included
    (since /repo bde1ca1; before it the closing log line raised TypeError on those) *)
Theorem C16_write_fetch : forall f c (dom : val -> Prop) (eqv : val -> val -> Prop),
  (forall v, dom v -> exists s v', c_print c v = Ok s /\ c_parse c s = Ok v' /\ eqv v' v) ->
  forall ctx1 ctx2 files p_raw pl_raw p2_raw k_raw path fp key,
    sget (write_key f) ctx1 = Some (VDict [(VStr "path", p_raw); (VStr "payload", pl_raw)]) ->
    format_value FUEL1 ctx1 p_raw = Ok (VStr path) ->
    format_value FUEL1 ctx1 pl_raw = Ok fp ->
    (f = FToml -> py_truth fp = true) ->
    dom fp ->
    sget (fetch_key f) ctx2 = Some (VDict [(VStr "path", p2_raw); (VStr "key", k_raw)]) ->
    format_value FUEL1 ctx2 p2_raw = Ok (VStr path) ->
    format_value FUEL1 ctx2 k_raw = Ok (VStr key) -> key <> EmptyString ->
    exists files' v',
      write_step f c ctx1 files = Ok files' /\
      fetch_step f c ctx2 files' = Ok (dict_set (VStr key) v' ctx2) /\
      eqv v' fp.
Proof. exact write_fetch_key. Qed.
Print Assumptions C16_write_fetch.

(** without a key: a mapping payload is merged into the context root *)
Theorem C16_write_fetch_root : forall f c (dom : val -> Prop) (eqv : val -> val -> Prop),
  (forall a b, eqv a b -> is_mapping a = is_mapping b) ->
  (forall v, dom v -> exists s v', c_print c v = Ok s /\ c_parse c s = Ok v' /\ eqv v' v) ->
  forall ctx1 ctx2 files p_raw pl_raw p2_raw path fp,
    sget (write_key f) ctx1 = Some (VDict [(VStr "path", p_raw); (VStr "payload", pl_raw)]) ->
    format_value FUEL1 ctx1 p_raw = Ok (VStr path) ->
    format_value FUEL1 ctx1 pl_raw = Ok fp ->
    (f = FToml -> py_truth fp = true) ->
    dom fp -> is_mapping fp = true ->
    sget (fetch_key f) ctx2 = Some (VDict [(VStr "path", p2_raw)]) ->
    format_value FUEL1 ctx2 p2_raw = Ok (VStr path) ->
    exists files' pl',
      write_step f c ctx1 files = Ok files' /\
      fetch_step f c ctx2 files' = Ok (dict_update ctx2 pl') /\
      eqv (VDict pl') fp.
Proof. exact write_fetch_root. Qed.
Print Assumptions C16_write_fetch_root.

(** the matching file context parser on the written file *)
Theorem C16_write_file_parser : forall f c (dom : val -> Prop) (eqv : val -> val -> Prop),
  (forall a b, eqv a b -> is_mapping a = is_mapping b) ->
  (forall v, dom v -> exists s v', c_print c v = Ok s /\ c_parse c s = Ok v' /\ eqv v' v) ->
  forall ctx1 files p_raw pl_raw path fp,
    sget (write_key f) ctx1 = Some (VDict [(VStr "path", p_raw); (VStr "payload", pl_raw)]) ->
    format_value FUEL1 ctx1 p_raw = Ok (VStr path) ->
    format_value FUEL1 ctx1 pl_raw = Ok fp ->
    (f = FToml -> py_truth fp = true) ->
    dom fp -> is_mapping fp = true ->
    exists files' v',
      write_step f c ctx1 files = Ok files' /\
      file_parser f c [path] files' = Ok (Some v') /\
      eqv v' fp.
Proof. exact write_file_parser. Qed.
Print Assumptions C16_write_file_parser.

(** ** closed for JSON: no hypothesis about the codec is left *)
Theorem C16_write_fetch_json :
  forall ctx1 ctx2 files p_raw pl_raw p2_raw k_raw path fp key,
    sget "fileWriteJson" ctx1 = Some (VDict [(VStr "path", p_raw); (VStr "payload", pl_raw)]) ->
    format_value FUEL1 ctx1 p_raw = Ok (VStr path) ->
    format_value FUEL1 ctx1 pl_raw = Ok fp ->
    json_representable fp ->
    sget "fetchJson" ctx2 = Some (VDict [(VStr "path", p2_raw); (VStr "key", k_raw)]) ->
    format_value FUEL1 ctx2 p2_raw = Ok (VStr path) ->
    format_value FUEL1 ctx2 k_raw = Ok (VStr key) -> key <> EmptyString ->
    exists files' v',
      write_step FJson json_codec ctx1 files = Ok files' /\
      fetch_step FJson json_codec ctx2 files' = Ok (dict_set (VStr key) v' ctx2) /\
      v' = fp.
Proof.
  intros ctx1 ctx2 files p_raw pl_raw p2_raw k_raw path fp key Hw Hp Hpl.
  exact (write_fetch_key FJson json_codec json_representable eq json_law
           ctx1 ctx2 files p_raw pl_raw p2_raw k_raw path fp key Hw Hp Hpl
           (fun H => json_not_toml H _)).
Qed.
Print Assumptions C16_write_fetch_json.

Theorem C16_write_fetch_root_json :
  forall ctx1 ctx2 files p_raw pl_raw p2_raw path fp,
    sget "fileWriteJson" ctx1 = Some (VDict [(VStr "path", p_raw); (VStr "payload", pl_raw)]) ->
    format_value FUEL1 ctx1 p_raw = Ok (VStr path) ->
    format_value FUEL1 ctx1 pl_raw = Ok fp ->
    json_representable fp -> is_mapping fp = true ->
    sget "fetchJson" ctx2 = Some (VDict [(VStr "path", p2_raw)]) ->
    format_value FUEL1 ctx2 p2_raw = Ok (VStr path) ->
    exists files' pl',
      write_step FJson json_codec ctx1 files = Ok files' /\
      fetch_step FJson json_codec ctx2 files' = Ok (dict_update ctx2 pl') /\
      VDict pl' = fp.
Proof.
  intros ctx1 ctx2 files p_raw pl_raw p2_raw path fp Hw Hp Hpl.
  exact (write_fetch_root FJson json_codec json_representable eq eq_shape json_law
           ctx1 ctx2 files p_raw pl_raw p2_raw path fp Hw Hp Hpl
           (fun H => json_not_toml H _)).
Qed.
Print Assumptions C16_write_fetch_root_json.

(** ** YAML and TOML: the same theorem with the third-party law as the only hypothesis,
    on its explicit domain.  [yaml_representable] excludes strings containing U+0085 and
    double-quoted strings containing a blank (known_findings.json: yaml-nel-not-roundtripped,
    yaml-dq-fold-extra-space). *)
Theorem C16_write_fetch_yaml : forall c,
  (forall v, yaml_representable v = true ->
     exists s v', c_print c v = Ok s /\ c_parse c s = Ok v' /\ v' = v) ->
  forall ctx1 ctx2 files p_raw pl_raw p2_raw k_raw path fp key,
    sget "fileWriteYaml" ctx1 = Some (VDict [(VStr "path", p_raw); (VStr "payload", pl_raw)]) ->
    format_value FUEL1 ctx1 p_raw = Ok (VStr path) ->
    format_value FUEL1 ctx1 pl_raw = Ok fp ->
    yaml_representable fp = true ->
    sget "fetchYaml" ctx2 = Some (VDict [(VStr "path", p2_raw); (VStr "key", k_raw)]) ->
    format_value FUEL1 ctx2 p2_raw = Ok (VStr path) ->
    format_value FUEL1 ctx2 k_raw = Ok (VStr key) -> key <> EmptyString ->
    exists files' v',
      write_step FYaml c ctx1 files = Ok files' /\
      fetch_step FYaml c ctx2 files' = Ok (dict_set (VStr key) v' ctx2) /\
      v' = fp.
Proof.
  intros c law ctx1 ctx2 files p_raw pl_raw p2_raw k_raw path fp key Hw Hp Hpl.
  exact (write_fetch_key FYaml c (fun v => yaml_representable v = true) eq law
           ctx1 ctx2 files p_raw pl_raw p2_raw k_raw path fp key Hw Hp Hpl
           (fun H => yaml_not_toml H _)).
Qed.
Print Assumptions C16_write_fetch_yaml.

Theorem C16_write_fetch_toml : forall c,
  (forall v, toml_representable v = true ->
     exists s v', c_print c v = Ok s /\ c_parse c s = Ok v' /\ val_eqv v' v = true) ->
  forall ctx1 ctx2 files p_raw pl_raw p2_raw k_raw path fp key,
    sget "fileWriteToml" ctx1 = Some (VDict [(VStr "path", p_raw); (VStr "payload", pl_raw)]) ->
    format_value FUEL1 ctx1 p_raw = Ok (VStr path) ->
    format_value FUEL1 ctx1 pl_raw = Ok fp ->
    py_truth fp = true ->
    toml_representable fp = true ->
    sget "fetchToml" ctx2 = Some (VDict [(VStr "path", p2_raw); (VStr "key", k_raw)]) ->
    format_value FUEL1 ctx2 p2_raw = Ok (VStr path) ->
    format_value FUEL1 ctx2 k_raw = Ok (VStr key) -> key <> EmptyString ->
    exists files' v',
      write_step FToml c ctx1 files = Ok files' /\
      fetch_step FToml c ctx2 files' = Ok (dict_set (VStr key) v' ctx2) /\
      val_eqv v' fp = true.
Proof.
  intros c law ctx1 ctx2 files p_raw pl_raw p2_raw k_raw path fp key Hw Hp Hpl Ht.
  exact (write_fetch_key FToml c (fun v => toml_representable v = true)
           (fun a b => val_eqv a b = true) law
           ctx1 ctx2 files p_raw pl_raw p2_raw k_raw path fp key Hw Hp Hpl (fun _ => Ht)).
Qed.
Print Assumptions C16_write_fetch_toml.

(** * fileformat{json,yaml,toml}: dump ∘ format ∘ load
    The output is the serialisation of [doc'], where [doc'] is the input document with
    every string node - mapping keys included - replaced by its formatted value
    ([FN_str]), every other scalar unchanged ([FN_leaf]), lists and mappings rebuilt
    element-wise in the same order ([FN_list], [FN_dict]); and, given the codec law on
    [doc'], parsing the output file gives [doc'] back. *)
Theorem C16_fileformat_string_nodes :
  forall c (dom : val -> Prop) (eqv : val -> val -> Prop),
  (forall v, dom v -> exists s v', c_print c v = Ok s /\ c_parse c s = Ok v' /\ eqv v' v) ->
  forall ctx text out,
  fileformat_obj c ctx text = Ok out ->
  exists doc doc',
    c_parse c text = Ok doc /\ format_value FUEL ctx doc = Ok doc' /\
    (is_doc doc = true -> fmt_nodes ctx false doc doc') /\
    (dom doc' -> exists doc'', c_parse c out = Ok doc'' /\ eqv doc'' doc').
Proof. exact fileformat_roundtrip. Qed.
Print Assumptions C16_fileformat_string_nodes.

(** the node relation is what the formatter computes on any document, at any depth *)
Theorem C16_string_nodes_of_format : forall ctx r n v v',
  is_doc v = true -> fmt_iter ctx n v r = Ok v' -> fmt_nodes ctx r v v'.
Proof. exact fmt_iter_string_nodes. Qed.
Print Assumptions C16_string_nodes_of_format.

(** closed for JSON *)
Theorem C16_fileformat_json : forall ctx text out,
  fileformat_obj json_codec ctx text = Ok out ->
  exists doc doc',
    json_parse text = Some doc /\ format_value FUEL ctx doc = Ok doc' /\
    json_print doc' = Some out /\
    (is_doc doc = true -> fmt_nodes ctx false doc doc') /\
    (json_representable doc' -> json_parse out = Some doc').
Proof. exact fileformat_json. Qed.
Print Assumptions C16_fileformat_json.

(** the step writes that text to [out], or over the in-file when no [out] is given *)
Theorem C16_fileformat_step_inplace : forall f c ctx files p_raw path text out,
  sget (format_key f) ctx = Some (VDict [(VStr "in", p_raw)]) ->
  format_value FUEL1 ctx p_raw = Ok (VStr path) ->
  fs_read path files = Some text ->
  fileformat_obj c ctx text = Ok out ->
  fileformat_step f c ctx files = Ok (fs_write path out files).
Proof. exact fileformat_step_inplace. Qed.
Print Assumptions C16_fileformat_step_inplace.

Theorem C16_fileformat_step_out : forall f c ctx files p_raw o_raw path opath text out,
  sget (format_key f) ctx = Some (VDict [(VStr "in", p_raw); (VStr "out", o_raw)]) ->
  format_value FUEL1 ctx p_raw = Ok (VStr path) ->
  format_value FUEL1 ctx o_raw = Ok (VStr opath) ->
  fs_read path files = Some text ->
  fileformat_obj c ctx text = Ok out ->
  fileformat_step f c ctx files = Ok (fs_write opath out files).
Proof. exact fileformat_step_out. Qed.
Print Assumptions C16_fileformat_step_out.

(** * Non-vacuity: concrete instances, evaluated *)
Definition doc0 : val :=
  VDict [(VStr "", VStr "true"); (VStr "1", VList [VStr "null"; VStr " x "; VInt (-7); VNone;
         VBool false; VList []; VDict []; VStr (String (ascii_of_nat 1) "é""\")]);
         (VStr "nested", VDict [(VStr "k", VDict [(VStr "deep", VList [VList [VInt 0]])])])].

Example C16_json_roundtrip_nonvacuous :
  json_representable doc0 /\
  json_print (VDict [(VStr "a", VList [VInt 1; VStr "x"])]) =
    Some ("{" ++ nl 1 ++ """a"": [" ++ nl 2 ++ "1," ++ nl 2 ++ """x""" ++ nl 1 ++ "]" ++ nl 0 ++ "}") /\
  (exists s, json_print doc0 = Some s /\ json_parse s = Some doc0) /\
  json_parse " [1 , ""é😀"", {""k"": null, ""k"": true}] "
    = Some (VList [VInt 1; VStr "é😀"; VDict [(VStr "k", VBool true)]]) /\
  json_parse "[1.5]" = None /\ json_parse "[01]" = None /\ json_parse "[1,]" = None.
Proof.
  split; [vm_compute; reflexivity|]. split; [vm_compute; reflexivity|].
  split; [exists (jprint 0 doc0); split; vm_compute; reflexivity|].
  vm_compute. repeat split.
Qed.

Definition wf_ctx : dict :=
  [(VStr "dir", VStr "/T"); (VStr "n", VInt 3); (VStr "who", VStr "w3");
   (VStr "fileWriteJson",
      VDict [(VStr "path", VStr "{dir}/o.json");
             (VStr "payload", VDict [(VStr "k{n}", VStr "{who}"); (VStr "lit", VStr "{{x}}");
                                     (VStr "t", VStr "true")])]);
   (VStr "fetchJson", VDict [(VStr "path", VStr "{dir}/o.json"); (VStr "key", VStr "out")])].

Example C16_write_fetch_nonvacuous :
  exists files,
    write_step FJson json_codec wf_ctx [] = Ok files /\
    fetch_step FJson json_codec wf_ctx files =
      Ok (wf_ctx ++ [(VStr "out", VDict [(VStr "k3", VStr "w3"); (VStr "lit", VStr "{x}");
                                         (VStr "t", VStr "true")])])%list /\
    format_value FUEL1 wf_ctx (VDict [(VStr "k{n}", VStr "{who}"); (VStr "lit", VStr "{{x}}");
                                      (VStr "t", VStr "true")])
      = Ok (VDict [(VStr "k3", VStr "w3"); (VStr "lit", VStr "{x}"); (VStr "t", VStr "true")]) /\
    json_representable (VDict [(VStr "k3", VStr "w3"); (VStr "lit", VStr "{x}");
                               (VStr "t", VStr "true")]).
Proof.
  exists [("/T/o.json",
           "{" ++ nl 1 ++ """k3"": ""w3""," ++ nl 1 ++ """lit"": ""{x}""," ++ nl 1
           ++ """t"": ""true""" ++ nl 0 ++ "}")].
  vm_compute. repeat split.
Qed.

(** the former counterexample (payload 5, see corpus/C16/03-json-scalar-root.json) *)
Example C16_write_fetch_scalar_root_nonvacuous :
  let ctx := [(VStr "fileWriteJson", VDict [(VStr "path", VStr "/T/n.json"); (VStr "payload", VInt 5)]);
              (VStr "fetchJson", VDict [(VStr "path", VStr "/T/n.json"); (VStr "key", VStr "out")])] in
  json_representable (VInt 5) /\
  write_step FJson json_codec ctx [] = Ok [("/T/n.json", "5")] /\
  fetch_step FJson json_codec ctx [("/T/n.json", "5")] = Ok (ctx ++ [(VStr "out", VInt 5)])%list.
Proof. vm_compute. repeat split. Qed.

Example C16_fileformat_nonvacuous :
  fileformat_obj json_codec [(VStr "n", VInt 3); (VStr "s", VStr "v")]
    "{""k{n}"": [""{s}"", ""{n}"", 1, null, ""{{b}}""]}"
  = Ok ("{" ++ nl 1 ++ """k3"": [" ++ nl 2 ++ """v""," ++ nl 2 ++ "3," ++ nl 2 ++ "1,"
        ++ nl 2 ++ "null," ++ nl 2 ++ """{b}""" ++ nl 1 ++ "]" ++ nl 0 ++ "}").
Proof. vm_compute. reflexivity. Qed.

(** the hypothesis domains are inhabited, and exclude what they are meant to exclude *)
Example C16_domains_nonvacuous :
  yaml_representable (VDict [(VStr "~", VList [VStr "true"; VStr "a b"; VNone; VInt 1])]) = true /\
  yaml_representable (VStr ("a" ++ String (ascii_of_nat 194) (String (ascii_of_nat 133) "b"))) = false /\
  yaml_representable (VStr (String (ascii_of_nat 27) "a a")) = false /\
  yaml_representable (VStr (String (ascii_of_nat 27) "aa")) = true /\
  toml_representable (VDict [(VStr "", VList [VStr "x"; VDict [(VStr "k", VBool true)]])]) = true /\
  toml_representable (VDict [(VStr "n", VNone)]) = false /\
  toml_representable (VDict []) = false /\
  val_eqv (VDict [(VStr "a", VInt 1); (VStr "d", VDict []); (VStr "b", VInt 2)])
          (VDict [(VStr "a", VInt 1); (VStr "b", VInt 2); (VStr "d", VDict [])]) = true.
Proof. vm_compute. repeat split. Qed.
