(** Props/C16.v — placeholder, to be written. *)
