(** Props/C19.v — pipeline and custom-module resolution order.
    Statements only; every proof is [exact] of a lemma of Proofs/LoaderProofs.v.
    [e] ranges over ALL environments: any working directory, any built-in directory and,
    above all, ANY pair of predicates [e_is_file] / [e_exists] — i.e. every subset of the
    candidate locations, every other content of the disk.  Nothing is bounded. *)
From PV Require Import Loader LoaderProofs GenC19 GenC19Proofs.
Open Scope string_scope.

(** ** Look-up order *)

(** A relative name resolves to the FIRST existing [<name>.yaml] in the documented order
    (parent directory if one is given, cwd, cwd/pipelines, built-in): some location [d] of
    that list holds the file and no location before it does.  When the look-up fails it is
    a PipelineNotFoundError and no documented location holds the file.
    [parent_wf] is the file-system sanity fact "a file below the parent directory implies
    that the directory exists". *)
Theorem C19_first_existing : forall e name parent,
  let fname := name ++ ".yaml" in
  is_abs fname = false -> parent_wf e parent fname ->
  match get_pipeline_path e name parent with
  | Ok p => exists pre d post,
        documented_order e parent = (pre ++ d :: post)%list /\
        p = resolve (e_cwd e) (joinpath d fname) /\
        e_is_file e (joinpath d fname) = true /\
        Forall (fun d' => e_is_file e (joinpath d' fname) = false) pre
  | Err n m => n = PNF /\ m = not_found_msg fname (search_locations e parent) /\
               Forall (fun d => e_is_file e (joinpath d fname) = false) (documented_order e parent)
  | Unsup => False
  end.
Proof. exact first_existing. Qed.
Print Assumptions C19_first_existing.

(** ... and conversely an existing candidate is never missed. *)
Theorem C19_existing_is_found : forall e name parent,
  let fname := name ++ ".yaml" in
  is_abs fname = false -> parent_wf e parent fname ->
  Exists (fun d => e_is_file e (joinpath d fname) = true) (documented_order e parent) ->
  exists p, get_pipeline_path e name parent = Ok p.
Proof. exact existing_is_found. Qed.
Print Assumptions C19_existing_is_found.

(** The list the code actually builds (parent skipped when it does not exist or is the
    same directory as cwd) gives the same answer as the documented list. *)
Theorem C19_code_order_equals_documented : forall e parent fname,
  parent_wf e parent fname ->
  find_first (e_is_file e) fname (search_locations e parent)
  = find_first (e_is_file e) fname (documented_order e parent).
Proof. exact search_eq_documented. Qed.
Print Assumptions C19_code_order_equals_documented.

(** An absolute name is looked up only at itself: the result depends on nothing but
    whether that one path is a file — not on the parent, not on any other file. *)
Theorem C19_absolute_only : forall e name parent,
  is_abs (name ++ ".yaml") = true ->
  get_pipeline_path e name parent =
  if e_is_file e (name ++ ".yaml") then Ok (norm_abs (name ++ ".yaml"))
  else Err PNF (abs_missing_msg (name ++ ".yaml")).
Proof. exact absolute_only. Qed.
Print Assumptions C19_absolute_only.

Theorem C19_absolute_nowhere_else : forall e e' name parent parent',
  is_abs (name ++ ".yaml") = true ->
  e_is_file e (name ++ ".yaml") = e_is_file e' (name ++ ".yaml") ->
  get_pipeline_path e name parent = get_pipeline_path e' name parent'.
Proof. exact absolute_nowhere_else. Qed.
Print Assumptions C19_absolute_nowhere_else.

(** ** The not-found error *)

(** none of the searched locations holds the file -> PipelineNotFoundError with the message
    built from the complete list of searched locations ... *)
Theorem C19_not_found_lists_all : forall e name parent,
  let fname := name ++ ".yaml" in
  is_abs fname = false ->
  Forall (fun d => e_is_file e (joinpath d fname) = false) (search_locations e parent) ->
  get_pipeline_path e name parent = Err PNF (not_found_msg fname (search_locations e parent)).
Proof. exact not_found_lists_all. Qed.
Print Assumptions C19_not_found_lists_all.

(** ... whose lines are: a header naming the file, then every searched location, one per
    line, in search order (names / directories containing a newline excluded). *)
Theorem C19_not_found_message_lines : forall fname dirs,
  dirs <> [] -> sep_free NL fname -> Forall (sep_free NL) dirs ->
  lines (not_found_msg fname dirs) = (fname ++ " not found in any of the following:") :: dirs.
Proof. exact not_found_msg_lines. Qed.
Print Assumptions C19_not_found_message_lines.

(** ** pype children *)

(** A pipeline loaded by the file loader — under ANY name, with ANY parent argument, hence
    at any depth of a pype chain — records its own directory as [parent], cascades parent
    and loader, and its directory has been handed to [add_sys_path]. *)
Theorem C19_file_loaded_records_own_dir : forall e st name parent st' d,
  load_pipeline e st FILE_LOADER LFile name parent = Ok (st', d) ->
  d_info d = file_info (d_file d) /\ d_is_file_info d = true /\
  st' = add_sys_path e st (PPath (dirname (d_file d))).
Proof. exact load_file_info. Qed.
Print Assumptions C19_file_loaded_records_own_dir.

(** Its child, invoked by pype with none of loader / resolveFromParent / parent set, is
    loaded by the same loader and searched for in the parent pipeline's directory FIRST,
    then cwd, cwd/pipelines, built-in. *)
Theorem C19_child_parent_first : forall e st name parent st' d,
  load_pipeline e st FILE_LOADER LFile name parent = Ok (st', d) ->
  child_loader (d_info d) default_opts = Some FILE_LOADER /\
  child_parent (d_info d) default_opts = PPath (dirname (d_file d)) /\
  documented_order e (child_parent (d_info d) default_opts)
  = [dirname (d_file d); e_cwd e; cwd_pipelines e; e_builtin e].
Proof. exact child_parent_first. Qed.
Print Assumptions C19_child_parent_first.

(** for every PipelineInfo that cascades (custom loaders included) the defaults cascade *)
Theorem C19_child_default_cascades : forall info,
  i_lcasc info = true -> i_pcasc info = true ->
  child_loader info default_opts = Some (i_loader info) /\
  child_parent info default_opts = i_parent info.
Proof. exact child_default_cascades. Qed.
Print Assumptions C19_child_default_cascades.

(** the three opt-outs *)
Theorem C19_optout_resolve_from_parent_false : forall info o,
  o_resolve o = Some false -> o_parent o = Absent -> child_parent info o = PNone.
Proof. exact optout_resolve_false. Qed.
Print Assumptions C19_optout_resolve_from_parent_false.

Theorem C19_optout_explicit_parent : forall info o s,
  o_parent o = Given s -> child_parent info o = PStr s.
Proof. exact optout_explicit_parent. Qed.
Print Assumptions C19_optout_explicit_parent.

Theorem C19_optout_other_loader : forall info o l,
  o_loader o = Given l -> l <> i_loader info -> o_parent o = Absent ->
  child_parent info o = PNone /\ child_loader info o = Some l.
Proof. exact optout_other_loader. Qed.
Print Assumptions C19_optout_other_loader.

(** naming the parent's own loader explicitly is not an opt-out *)
Theorem C19_same_loader_still_cascades : forall info o,
  o_loader o = Given (i_loader info) -> o_resolve o = None -> o_parent o = Absent ->
  i_pcasc info = true -> child_parent info o = i_parent info.
Proof. exact same_loader_still_cascades. Qed.
Print Assumptions C19_same_loader_still_cascades.

(** and without a parent the search is cwd, cwd/pipelines, built-in — for the root
    pipeline and after every opt-out *)
Theorem C19_no_parent_order : forall e,
  documented_order e PNone = [e_cwd e; cwd_pipelines e; e_builtin e]
  /\ search_locations e PNone = [e_cwd e; cwd_pipelines e; e_builtin e].
Proof. exact no_parent_order. Qed.
Print Assumptions C19_no_parent_order.

(** ** sys.path *)

(** [add_sys_path]: sys.path only grows, at the end, by that one directory, and only when
    it exists and is not there yet ... *)
Theorem C19_add_sys_path_appends : forall e st p,
  syspath (add_sys_path e st p) = syspath st \/
  (syspath (add_sys_path e st p) = (syspath st ++ [p_str p])%list /\
   str_in (p_str p) (syspath st) = false /\
   e_exists e (resolve (e_cwd e) (p_str p)) = true).
Proof. exact add_sys_path_appends. Qed.
Print Assumptions C19_add_sys_path_appends.

(** ... it is idempotent and never creates a duplicate. *)
Theorem C19_add_sys_path_idempotent : forall e st p,
  add_sys_path e (add_sys_path e st p) p = add_sys_path e st p.
Proof. exact add_sys_path_idempotent. Qed.
Print Assumptions C19_add_sys_path_idempotent.

Theorem C19_add_sys_path_nodup : forall e st p,
  NoDup (syspath st) -> NoDup (syspath (add_sys_path e st p)).
Proof. exact add_sys_path_nodup. Qed.
Print Assumptions C19_add_sys_path_nodup.

(** After a load by the file loader the pipeline's directory IS on sys.path ([sys_inv]:
    the known-dirs bookkeeping is consistent, which holds initially and is preserved) ... *)
Theorem C19_dir_on_sys_path : forall e st name parent st' d,
  load_pipeline e st FILE_LOADER LFile name parent = Ok (st', d) ->
  sys_inv e st -> e_exists e (dirname (d_file d)) = true ->
  In (dirname (d_file d)) (syspath st') /\ sys_inv e st'.
Proof. exact load_file_dir_on_sys_path. Qed.
Print Assumptions C19_dir_on_sys_path.

(** ... so a module file next to it is found by the import. *)
Theorem C19_sibling_module_importable : forall e sp dir m,
  In dir sp -> is_abs dir = true -> e_is_file e (joinpath dir (m ++ ".py")) = true ->
  exists mp, find_module e sp m = Some mp.
Proof. exact sibling_module_importable. Qed.
Print Assumptions C19_sibling_module_importable.

(** The bookkeeping invariant (and genuineness of the pipeline cache) holds in every state
    of every run: any world, any chain of pype calls, any depth (any fuel). *)
Theorem C19_run_invariant : forall fuel w st l pd n p,
  st_inv (w_env w) st -> st_inv (w_env w) (fst (fst (run_pipeline fuel w st l pd n p))).
Proof. exact run_pipeline_inv. Qed.
Print Assumptions C19_run_invariant.

(** ** The pipeline cache between pype and the look-up
    ([Loader.get_pipeline], keyed by the pair [(f'{parent}' if parent else None, name)] since
    /repo commit 0c7650b; the joined-string key it replaced made this statement false) *)

(** the key identifies two requests only when they have the same name and the same parent
    text — [None] and [''] both meaning "no parent", [str] and [Path] not distinguished *)
Theorem C19_cache_key_faithful : forall parent name parent' name',
  cache_key parent name = cache_key parent' name' ->
  name = name' /\ p_truthy parent = p_truthy parent' /\
  (p_truthy parent = true -> p_str parent = p_str parent').
Proof. exact cache_key_faithful. Qed.
Print Assumptions C19_cache_key_faithful.

(** a look-up served through the cache (whose entries all stem from real loads, which
    [C19_run_invariant] shows of every reachable state) returns the file that the uncached
    look-up of the same (parent, name) request finds — for every cache content *)
Theorem C19_cached_lookup : forall e st l k name parent st' d,
  cache_genuine e (s_cache st) ->
  get_pipeline e st l k name parent = Ok (st', d) ->
  get_pipeline_path e name parent = Ok (d_file d).
Proof. exact cached_lookup. Qed.
Print Assumptions C19_cached_lookup.

(** * Tie B: the model is the current source
    Gen/GenC19.v is regenerated from the Python source on every run (tools/py2coq_c19.py);
    these theorems identify its definitions with the model the theorems above are about, for
    all inputs.  [gen_path e repo] is the generated [get_pipeline_path] with the pathlib
    primitives instantiated by the model's (see Proofs/GenC19Proofs.v). *)

(** pypyr/loaders/file.py get_pipeline_path + find_pipeline: absolute test, parent conditions,
    the order parent / cwd / cwd/pipelines / built-in, [is_file] as the existence test, first
    hit wins, both error texts — for every environment whose built-in directory is the one the
    module computes ([Path(__file__).parents[1] / 'pipelines']) *)
Theorem C19_source_get_pipeline_path_is_model : forall e repo name parent,
  e_builtin e = default_builtin repo ->
  gen_path e repo name parent = get_pipeline_path e name parent.
Proof. exact gen_get_pipeline_path_is_model. Qed.
Print Assumptions C19_source_get_pipeline_path_is_model.

Theorem C19_source_find_pipeline_is_model : forall e fname dirs,
  gen_find_pipeline (e_is_file e) (resolve (e_cwd e)) joinpath fname dirs =
  match find_first (e_is_file e) fname (map fst dirs) with
  | Some p => Ok (resolve (e_cwd e) p)
  | None => Err PNF (not_found_msg fname (map fst dirs))
  end.
Proof. exact gen_find_pipeline_is_model. Qed.
Print Assumptions C19_source_find_pipeline_is_model.

(** module-level directories of the file loader *)
Theorem C19_source_search_roots_is_model : forall e repo,
  gen_cwd_pipelines_dir (e_cwd e) (e_subdir e) joinpath = cwd_pipelines e /\
  gen_builtin_pipelines_dir repo joinpath = default_builtin repo /\
  gen_config_default_loader = FILE_LOADER /\ gen_file_loader_name = FILE_LOADER.
Proof. intros e repo. repeat split. Qed.
Print Assumptions C19_source_search_roots_is_model.

(** get_pipeline_definition / load_pipeline_from_file: look-up, add_sys_path(path.parent),
    PipelineFileInfo(name=path.name, parent=path.parent, loader=__name__) with the cascading
    defaults of pipedef.py *)
Theorem C19_source_file_loader_is_model : forall e repo name parent st,
  e_builtin e = default_builtin repo ->
  gen_get_pipeline_definition repo (e_cwd e) (e_subdir e) (e_is_file e) (e_exists e) is_abs
      (resolve (e_cwd e)) dirname basename text_id joinpath String.eqb (add_sys_path e) name parent st
  = load_pipeline e st FILE_LOADER LFile name parent.
Proof. exact gen_get_pipeline_definition_is_model. Qed.
Print Assumptions C19_source_file_loader_is_model.

(** pypyr/moduleloader.py add_sys_path, statement by statement (in particular: a directory is
    skipped only when EXACTLY that string is on sys.path already) *)
Theorem C19_source_add_sys_path_is_model : forall e st p,
  gen_add_sys_path (fun s => e_exists e (resolve (e_cwd e) s)) text_id st p = add_sys_path e st p.
Proof. exact gen_add_sys_path_is_model. Qed.
Print Assumptions C19_source_add_sys_path_is_model.

(** pypyr/moduleloader.py get_module: nothing but one import attempt against the current
    sys.path per request (no memory of earlier failures), PyModuleNotFoundError otherwise *)
Theorem C19_source_get_module_is_model : forall e sp m,
  gen_get_module (find_module e sp) m = get_module e sp m.
Proof. exact gen_get_module_is_model. Qed.
Print Assumptions C19_source_get_module_is_model.

(** a module next to a file-loaded pipeline imports, whatever failed before *)
Theorem C19_get_module_sibling : forall e sp dir m,
  In dir sp -> is_abs dir = true -> e_is_file e (joinpath dir (m ++ ".py")) = true ->
  exists mp, get_module e sp m = Ok mp.
Proof. exact get_module_sibling. Qed.
Print Assumptions C19_get_module_sibling.

(** pypyr/steps/pype.py get_arguments (loader / pyDir / resolveFromParent / parent) and the
    fields run_step passes on to the child Pipeline and to load_and_run_pipeline *)
Theorem C19_source_pype_cascade_is_model : forall info o,
  gen_get_arguments info o = (child_loader info o, o_pydir o, child_parent info o) /\
  gen_run_step_request info o = (child_loader info o, o_pydir o, child_parent info o).
Proof. intros info o. split; [apply gen_get_arguments_is_model|apply gen_run_step_request_is_model]. Qed.
Print Assumptions C19_source_pype_cascade_is_model.

(** Pipeline.load_and_run_pipeline: py_dir goes to add_sys_path first (when truthy), then
    loader, name and parent reach the loader unchanged; a root pipeline has no parent *)
Theorem C19_source_load_and_run_is_model : forall e pydir loader name parent sys,
  gen_load_and_run_pipeline (add_sys_path e) pydir loader name parent sys
  = (pydir_sys e sys pydir, (loader, name, parent)) /\ gen_root_parent = PNone.
Proof. intros. split; [apply gen_load_and_run_pipeline_is_model|reflexivity]. Qed.
Print Assumptions C19_source_load_and_run_is_model.

(** loadercache: default loader, the (parent, name) cache key, wrapping of a bare mapping *)
Theorem C19_source_loadercache_is_model : forall parent name loader,
  gen_cache_key parent name = cache_key parent name /\
  gen_pype_loader_name gen_config_default_loader loader = effective_loader loader.
Proof. intros. split; [reflexivity|apply gen_pype_loader_name_is_model]. Qed.
Print Assumptions C19_source_loadercache_is_model.

Theorem C19_source_bare_mapping_is_model : forall e st lname name parent path,
  get_pipeline_path e name parent = Ok path ->
  load_pipeline e st lname LBare name parent = Ok (st, gen_wrap_bare_mapping lname name parent path).
Proof. exact gen_wrap_bare_mapping_is_model. Qed.
Print Assumptions C19_source_bare_mapping_is_model.

(** * Non-vacuity: concrete layouts, evaluated *)

Definition leafp (id : string) : pipe := mkpipe id false None [].

(** files in the caller's directory, cwd/pipelines and the built-in directory *)
Definition w1 : world :=
  mk_world "/w/cwd" "pipelines" "/w/blt"
    [("/w/par/c1.yaml", mkpipe "c1" false (Some "m1") [mkcall "leaf" default_opts]);
     ("/w/par/leaf.yaml", leafp "par");
     ("/w/cwd/pipelines/leaf.yaml", leafp "sub");
     ("/w/blt/leaf.yaml", leafp "blt")]
    ["/w/par/m1.py"]
    ["/"; "/w"; "/w/cwd"; "/w/cwd/pipelines"; "/w/par"; "/w/blt"].

Example C19_first_existing_nonvacuous :
  (* hypotheses of C19_first_existing hold ... *)
  is_abs ("leaf" ++ ".yaml") = false /\
  parent_wf (w_env w1) (PPath "/w/par") "leaf.yaml" /\
  (* ... and the look-up picks the parent directory first, cwd/pipelines without a parent *)
  get_pipeline_path (w_env w1) "leaf" (PPath "/w/par") = Ok "/w/par/leaf.yaml" /\
  get_pipeline_path (w_env w1) "leaf" PNone = Ok "/w/cwd/pipelines/leaf.yaml" /\
  get_pipeline_path (w_env w1) "nope" (PPath "/w/par") =
    Err PNF ("nope.yaml not found in any of the following:" ++ nl ++ "/w/par" ++ nl ++ "/w/cwd"
             ++ nl ++ "/w/cwd/pipelines" ++ nl ++ "/w/blt") /\
  get_pipeline_path (w_env w1) "/w/abs/leaf" (PPath "/w/par") =
    Err PNF "/w/abs/leaf.yaml does not exist." /\
  search_locations (w_env w1) (PPath "/w/cwd") = ["/w/cwd"; "/w/cwd/pipelines"; "/w/blt"] /\
  search_locations (w_env w1) (PStr "../gone") = ["/w/cwd"; "/w/cwd/pipelines"; "/w/blt"].
Proof. vm_compute. repeat split; discriminate || reflexivity || auto. Qed.

(** a whole run: root by absolute name, child found next to its caller, the caller's
    custom step module imported from the directory appended to sys.path *)
Example C19_chain_nonvacuous :
  run_case w1 "/R" None None "/w/par/c1" =
  Ok [["f"; "c1"; "c1.yaml"; FILE_LOADER; "P"; "/w/par"; "true"; "true"; "/w/par/c1.yaml"];
      ["m"; "/w/par/m1.py"];
      ["f"; "par"; "leaf.yaml"; FILE_LOADER; "P"; "/w/par"; "true"; "true"; "/w/par/leaf.yaml"];
      ["ok"]; ["syspath"; "/w/par"];
      ["env"; "/w/cwd"; "/w/cwd/pipelines"; "/R/pypyr/pipelines"; FILE_LOADER]].
Proof. vm_compute. reflexivity. Qed.

Example C19_dir_on_sys_path_nonvacuous :
  exists st' d,
    load_pipeline (w_env w1) sys0 FILE_LOADER LFile "leaf" (PPath "/w/par") = Ok (st', d) /\
    sys_inv (w_env w1) sys0 /\ e_exists (w_env w1) (dirname (d_file d)) = true /\
    syspath st' = ["/w/par"].
Proof.
  eexists. eexists. split; [vm_compute; reflexivity|].
  split; [apply sys_inv_init|]. split; vm_compute; reflexivity.
Qed.

(** the former cache-key collision, end to end: [/x/c0] runs [a+b] (found next to it), then
    [/x+a/c1], whose child [b] is [/x+a/b.yaml] — and that is the file that runs *)
Definition w2 : world :=
  mk_world "/cwd" "pipelines" "/blt"
    [("/x/c0.yaml", mkpipe "c0" false None [mkcall "a+b" default_opts; mkcall "/x+a/c1" default_opts]);
     ("/x/a+b.yaml", leafp "x/a+b");
     ("/x+a/c1.yaml", mkpipe "c1" false None [mkcall "b" default_opts]);
     ("/x+a/b.yaml", leafp "x+a/b")]
    [] ["/"; "/x"; "/x+a"; "/cwd"].

Definition ids_run (r : state * list event * status) : list string :=
  let '(_, ev, _) := r in map (fun e => nth 1 e "") ev.

Example C19_cached_lookup_nonvacuous :
  get_pipeline_path (w_env w2) "b" (PPath "/x+a") = Ok "/x+a/b.yaml" /\
  ids_run (run_pipeline FUEL w2 state0 None None "/x/c0" PNone) = ["c0"; "x/a+b"; "c1"; "x+a/b"] /\
  cache_key (PPath "/x") "a+b" <> cache_key (PPath "/x+a") "b" /\
  cache_key PNone "q" = cache_key (PStr "") "q".
Proof. vm_compute. repeat split; try reflexivity; discriminate. Qed.
