(** Props/C19.v — placeholder, to be written. *)
