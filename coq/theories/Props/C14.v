(** Props/C14.v — inline Python sees context as variables but cannot leak into it.

    Level: PARTIAL.  The theorems are about Model/PyScope.v: a model of CPython 3.12 name
    resolution for a mini-Python fragment (validated against the real interpreter by the
    correspondence run, not derived from it), parameterised by pypyr's own contribution — how
    the two namespaces are built ([eval_state]/[eval_env]: ChainMap-pretend-dict over
    [context; imports] with builtins in the dict part; [exec_globals]: shallow copy of the
    context plus __builtins__ and save).  Quantification is over ALL programs of the fragment,
    all contexts, heaps, module tables and builtins tables; no size bound. *)
From PV Require Import PyScope PyScopeProofs.
Open Scope string_scope.

(** * Reads *)

(** A context key is visible as a plain variable wherever the reference stands: [frames s] is an
    arbitrary stack of enclosing lambda / comprehension / function scopes (none of which binds
    [x]), [infn]/[gex] decide between LOAD_NAME and LOAD_GLOBAL — the value is the context's in
    every case.  No hypothesis on builtins or imports: the context shadows both. *)
Theorem C14_reads_context_key : forall E x v s,
  gk E = GChain -> cls E = false -> find_local x (frames s) false = LNotLocal ->
  ns_get x (ctx s) = Some v -> load_var E x s = (Ok v, s).
Proof. exact load_ctx_key. Qed.
Print Assumptions C14_reads_context_key.

(** the same, syntactically: under any number of enclosing lambdas *)
Theorem C14_reads_under_lambdas : forall k v xs n E s,
  gk E = GChain -> cls E = false -> ~ In k xs ->
  find_local k (frames s) false = LNotLocal -> ns_get k (ctx s) = Some v ->
  eval (length xs + S n) E (nest_lam xs (XName k)) s = (Ok v, s).
Proof. exact read_under_lambdas. Qed.
Print Assumptions C14_reads_under_lambdas.

(** names imported through pyimport are visible when the context does not define them *)
Theorem C14_reads_imports_after_context : forall E x v s,
  gk E = GChain -> cls E = false -> find_local x (frames s) false = LNotLocal ->
  ns_get x (ctx s) = None -> ns_get x (imps s) = Some v -> load_var E x s = (Ok v, s).
Proof. exact load_import. Qed.
Print Assumptions C14_reads_imports_after_context.

(** builtins come last *)
Theorem C14_reads_builtins_last : forall E x v s,
  gk E = GChain -> cls E = false -> find_local x (frames s) false = LNotLocal ->
  ns_get x (ctx s) = None -> ns_get x (imps s) = None -> ns_get x (nsd s) = None ->
  ns_get x (bi E) = Some v -> load_var E x s = (Ok v, s).
Proof. exact load_builtin. Qed.
Print Assumptions C14_reads_builtins_last.

(** py blocks: every context key (other than the two names pypyr injects) starts out as a
    global of the block, and a global is visible at every nesting depth *)
Theorem C14_exec_sees_context : forall c x, x <> "save" -> x <> "__builtins__" ->
  ns_get x (exec_globals c) = ns_get x c.
Proof. exact exec_globals_get. Qed.
Print Assumptions C14_exec_sees_context.

Theorem C14_exec_reads_global : forall E x v s,
  gk E = GPlain -> cls E = false -> find_local x (frames s) false = LNotLocal ->
  ns_get x (g s) = Some v -> load_var E x s = (Ok v, s).
Proof. exact load_exec_global. Qed.
Print Assumptions C14_exec_reads_global.

(** * exec cannot leak *)

(** Running ANY block: the final context is the initial one with the dicts that save(...) handed
    to context.update applied in order — nothing else — and every key of those dicts is an
    argument (positional name or keyword) of a save(...) statement of the block.  Locals,
    imports, defs, classes, __builtins__ and deletions stay in the copy. *)
Theorem C14_exec_no_leak : forall mt b blk c h,
  let s' := snd (run_exec mt b blk c h) in
  ctx s' = apply_saves c (saves s')
  /\ Forall (fun d => incl (ns_keys d) (block_targets blk)) (saves s').
Proof. exact run_exec_frame. Qed.
Print Assumptions C14_exec_no_leak.

(** a key that no save(...) names keeps its binding (same value, same object reference) *)
Theorem C14_exec_key_untouched : forall mt b blk c h k,
  ~ In k (block_targets blk) -> ns_get k (ctx (snd (run_exec mt b blk c h))) = ns_get k c.
Proof. exact run_exec_key_untouched. Qed.
Print Assumptions C14_exec_key_untouched.

(** every key of the final context was there before or is a save(...) argument *)
Theorem C14_exec_new_keys_are_saved : forall mt b blk c h k,
  In k (ns_keys (ctx (snd (run_exec mt b blk c h)))) -> In k (ns_keys c) \/ In k (block_targets blk).
Proof. exact run_exec_new_keys. Qed.
Print Assumptions C14_exec_new_keys_are_saved.

(** no expression evaluated against the exec globals touches context, save log or imports *)
Theorem C14_exec_expressions_frame : forall fuel E e s r s',
  gk E = GPlain -> eval fuel E e s = (r, s') ->
  ctx s' = ctx s /\ saves s' = saves s /\ imps s' = imps s.
Proof. intros fuel E e s r s' G H. exact (sound_eval_plain fuel E e G s r s' H). Qed.
Print Assumptions C14_exec_expressions_frame.

(** * In-place mutation stays visible *)
Theorem C14_inplace_visible_exec : forall mt b c h k r items z,
  ns_get k c = Some (PRef r) -> nth_error h r = Some (OList items) ->
  k <> "save" -> k <> "__builtins__" ->
  let res := run_exec mt b [SExpr (XAppend (XName k) (XInt z))] c h in
  fst res = Ok tt /\ ctx (snd res) = c
  /\ nth_error (heap (snd res)) r = Some (OList (items ++ [PInt z])).
Proof. exact exec_append_visible. Qed.
Print Assumptions C14_inplace_visible_exec.

Theorem C14_inplace_visible_eval : forall mt b c i d h k r items z,
  ns_get k c = Some (PRef r) -> nth_error h r = Some (OList items) -> k <> "__builtins__" ->
  let res := run_eval mt b (XAppend (XName k) (XInt z)) (eval_state c i d h) in
  fst res = Ok PNone /\ ctx (snd res) = c
  /\ nth_error (heap (snd res)) r = Some (OList (items ++ [PInt z])).
Proof. exact eval_append_visible. Qed.
Print Assumptions C14_inplace_visible_eval.

(** * eval cannot leak — FALSE of the faithful model.

    Full statement (kept visible, not provable):
      forall mt b e s, ctx (snd (run_eval mt b e s)) = ctx s.
    Witness: the !py expression [(y := a + 2)] over context {a: 1}.  A module-level assignment
    expression compiles to STORE_NAME, which goes to the locals mapping = the namespace object
    = ChainMap.__setitem__ = maps[0] = the context itself. *)
Theorem C14_eval_no_leak_refuted : exists mt b e s, ctx (snd (run_eval mt b e s)) <> ctx s.
Proof.
  exists std_mods, std_builtins, leak_expr, (eval_state leak_ctx [] [] []).
  rewrite eval_leak_witness. discriminate.
Qed.
Print Assumptions C14_eval_no_leak_refuted.

(** What does hold: if every [:=] that is not inside a lambda body targets a name the compiler
    made global-explicit (i.e. it sits inside a comprehension: STORE_GLOBAL goes to the raw dict
    part of the namespace object, not to the context), evaluation leaves context, save log and
    imports untouched.  Covers walrus-free expressions, [:=] inside lambdas and [:=] inside
    comprehensions; excludes exactly the module-level [:=]. *)
Theorem C14_eval_no_leak_partial : forall mt b e s,
  safe (gexs e) e = true ->
  let s' := snd (run_eval mt b e s) in
  ctx s' = ctx s /\ saves s' = saves s /\ imps s' = imps s.
Proof. intros mt b e s H. exact (run_eval_safe mt b e s H). Qed.
Print Assumptions C14_eval_no_leak_partial.

Theorem C14_eval_no_leak_walrus_free : forall mt b e s,
  walrus_free e = true -> ctx (snd (run_eval mt b e s)) = ctx s.
Proof. intros mt b e s H. apply run_eval_safe. apply walrus_free_safe. exact H. Qed.
Print Assumptions C14_eval_no_leak_walrus_free.

(** * Non-vacuity: concrete programs, evaluated *)
Definition c1 : ns := [("a", PInt 1); ("lst", PRef 0); ("len", PInt 9)].
Definition h1 : list obj := [OList [PInt 1; PInt 2]].
Definition N := XName.

(** reads at depth: lambda in comprehension in lambda; three for clauses; the context's [len]
    shadows the builtin at every depth *)
Example C14_reads_nonvacuous :
  eval_case std_mods std_builtins 1 h1 c1 [SFrom "math" "gcd" "gcd"]
    [ XLam ["q"] (XComp (XLam ["z"] (XBin BAdd (XBin BAdd (N "z") (N "x")) (XBin BAdd (N "q") (N "a"))) [XInt 1])
                        [("x", N "lst")]) [XInt 10];
      XComp (XBin BAdd (XBin BAdd (N "x") (N "y")) (XBin BAdd (N "z") (N "a")))
            [("x", N "lst"); ("y", N "lst"); ("z", XList [N "a"])];
      XList [N "len"; XLam [] (N "len") []; XComp (N "len") [("i", XList [XInt 0])] ];
      XCall (N "gcd") [XInt 4; XInt 6] ]
  = Some (mk_obs
      [ Ok (CList 1000 [CInt 13; CInt 14]);
        Ok (CList 1001 [CInt 4; CInt 5; CInt 5; CInt 6]);
        Ok (CList 1002 [CInt 9; CInt 9; CList 1003 [CInt 9]]);
        Ok (CInt 2) ]
      [("a", CInt 1); ("lst", CList 0 [CInt 1; CInt 2]); ("len", CInt 9)]
      [("gcd", CNative "math.gcd")] []).
Proof. vm_compute. reflexivity. Qed.

Example C14_reads_under_lambdas_nonvacuous :
  eval 4 (eval_env std_mods std_builtins XNone) (nest_lam ["x"; "y"; "z"] (XName "a"))
       (eval_state c1 [] [] h1) = (Ok (PInt 1), eval_state c1 [] [] h1).
Proof. vm_compute. reflexivity. Qed.

(** exec: locals, import, def, class, loop variable, deletion stay out; save's arguments go in;
    the function body reads the context key [a] *)
Example C14_exec_nonvacuous :
  exec_case std_mods std_builtins 1 h1 [("a", PInt 1); ("lst", PRef 0)]
    [ SAssign "x" (XBin BAdd (N "a") (XInt 1)); SImport "math";
      SDef "f" ["q"] (XBin BAdd (N "q") (N "a"));
      SClass "C" [("p", N "a")];
      SExpr (XComp (N "i") [("i", N "lst")]);
      SExpr (XAppend (N "lst") (XInt 3));
      SDel "lst";
      SSave ["x"] [("r", XCall (N "f") [XInt 1])] ]
  = Some (mk_obs [Ok CNone]
      [("a", CInt 1); ("lst", CList 0 [CInt 1; CInt 2; CInt 3]); ("x", CInt 2); ("r", CInt 2)]
      [] []).
Proof. vm_compute. reflexivity. Qed.

(** rebinding a context key inside the block rebinds the copy only; exactly the save(...)
    arguments arrive in the context *)
Example C14_exec_no_leak_nonvacuous :
  block_targets [SAssign "x" (XInt 1); SSave ["x"] [("r", XInt 2)]] = ["x"; "r"]
  /\ exec_case std_mods std_builtins 1 h1 [("a", PInt 1); ("lst", PRef 0)]
       [SAssign "x" (XInt 1); SAssign "a" (XInt 5); SSave ["x"] [("r", XInt 2)]]
     = Some (mk_obs [Ok CNone]
         [("a", CInt 1); ("lst", CList 0 [CInt 1; CInt 2]); ("x", CInt 1); ("r", CInt 2)] [] []).
Proof. split; vm_compute; reflexivity. Qed.

(** the partial theorem applies to [:=] inside a lambda and inside a comprehension; the latter
    does not reach the context but does pollute the namespace object's dict part, where a later
    module-level read (LOAD_NAME) finds it and a read from a lambda (LOAD_GLOBAL) does not *)
Definition e_lam : expr := XLam ["x"] (XWalrus "y" (N "x")) [XInt 5].
Definition e_comp : expr := XComp (XWalrus "y" (N "x")) [("x", N "lst")].
Example C14_eval_partial_nonvacuous :
  safe (gexs e_lam) e_lam = true /\ safe (gexs e_comp) e_comp = true
  /\ safe (gexs leak_expr) leak_expr = false
  /\ eval_case std_mods std_builtins 1 h1 [("a", PInt 1); ("lst", PRef 0)] []
       [e_lam; e_comp; N "y"; XLam [] (N "y") []]
     = Some (mk_obs
         [Ok (CInt 5); Ok (CList 1000 [CInt 1; CInt 2]); Ok (CInt 2);
          Err "NameError" "name 'y' is not defined"]
         [("a", CInt 1); ("lst", CList 0 [CInt 1; CInt 2])] [] [("y", CInt 2)]).
Proof. repeat split; vm_compute; reflexivity. Qed.

Example C14_inplace_nonvacuous :
  ns_get "lst" c1 = Some (PRef 0) /\ nth_error h1 0 = Some (OList [PInt 1; PInt 2]).
Proof. split; reflexivity. Qed.
