(** Props/C14.v — inline Python sees context as variables but cannot leak into it.

    Level: PARTIAL.  The theorems are about Model/PyScope.v: a model of CPython 3.12 name
    resolution for a mini-Python fragment (validated against the real interpreter by the
    correspondence run, not derived from it), parameterised by pypyr's own contribution — how
    the two namespaces are built ([run_eval]/[fresh_namespace]: per evaluation a ChainMap-pretend-dict
    over [throw-away scratch; context; imports] with builtins in its own dict part;
    [exec_globals]: shallow copy of the context plus __builtins__ and save).  Quantification is over ALL programs of the fragment,
    all contexts, heaps, module tables and builtins tables; no size bound. *)
From PV Require Import PyScope PyScopeProofs GenC14 GenC14Proofs.
Open Scope string_scope.

(** * Reads *)

(** A context key is visible as a plain variable wherever the reference stands: [frames s] is an
    arbitrary stack of enclosing lambda / comprehension / function scopes (none of which binds
    [x]), [infn]/[gex] decide between LOAD_NAME and LOAD_GLOBAL — the value is the context's in
    every case.  No hypothesis on builtins or imports: the context shadows both.  [scr s] is the
    expression's own scratch scope (empty when the evaluation starts; only a [:=] of the same
    expression can put [x] there). *)
Theorem C14_reads_context_key : forall E x v s,
  gk E = GChain -> cls E = false -> find_local x (frames s) false = LNotLocal ->
  ns_get x (scr s) = None -> ns_get x (ctx s) = Some v -> load_var E x s = (Ok v, s).
Proof. exact load_ctx_key. Qed.
Print Assumptions C14_reads_context_key.

(** the same, syntactically: under any number of enclosing lambdas *)
Theorem C14_reads_under_lambdas : forall k v xs n E s,
  gk E = GChain -> cls E = false -> ~ In k xs ->
  find_local k (frames s) false = LNotLocal -> ns_get k (scr s) = None -> ns_get k (ctx s) = Some v ->
  eval (length xs + S n) E (nest_lam xs (XName k)) s = (Ok v, s).
Proof. exact read_under_lambdas. Qed.
Print Assumptions C14_reads_under_lambdas.

(** names imported through pyimport are visible when the context does not define them *)
Theorem C14_reads_imports_after_context : forall E x v s,
  gk E = GChain -> cls E = false -> find_local x (frames s) false = LNotLocal ->
  ns_get x (scr s) = None -> ns_get x (ctx s) = None -> ns_get x (imps s) = Some v ->
  load_var E x s = (Ok v, s).
Proof. exact load_import. Qed.
Print Assumptions C14_reads_imports_after_context.

(** builtins come last *)
Theorem C14_reads_builtins_last : forall E x v s,
  gk E = GChain -> cls E = false -> find_local x (frames s) false = LNotLocal ->
  ns_get x (scr s) = None -> ns_get x (ctx s) = None -> ns_get x (imps s) = None ->
  ns_get x (nsd s) = None -> ns_get x (bi E) = Some v -> load_var E x s = (Ok v, s).
Proof. exact load_builtin. Qed.
Print Assumptions C14_reads_builtins_last.

(** py blocks: every context key (other than the two names pypyr injects) starts out as a
    global of the block, and a global is visible at every nesting depth *)
Theorem C14_exec_sees_context : forall c x, x <> "save" -> x <> "__builtins__" ->
  ns_get x (exec_globals c) = ns_get x c.
Proof. exact exec_globals_get. Qed.
Print Assumptions C14_exec_sees_context.

Theorem C14_exec_reads_global : forall E x v s,
  gk E = GPlain -> cls E = false -> find_local x (frames s) false = LNotLocal ->
  ns_get x (g s) = Some v -> load_var E x s = (Ok v, s).
Proof. exact load_exec_global. Qed.
Print Assumptions C14_exec_reads_global.

(** * exec cannot leak *)

(** Running ANY block: the final context is the initial one with the dicts that save(...) handed
    to context.update applied in order — nothing else — and every key of those dicts is an
    argument (positional name or keyword) of a save(...) statement of the block.  Locals,
    imports, defs, classes, __builtins__ and deletions stay in the copy. *)
Theorem C14_exec_no_leak : forall mt b blk c h,
  let s' := snd (run_exec mt b blk c h) in
  ctx s' = apply_saves c (saves s')
  /\ Forall (fun d => incl (ns_keys d) (block_targets blk)) (saves s').
Proof. exact run_exec_frame. Qed.
Print Assumptions C14_exec_no_leak.

(** a key that no save(...) names keeps its binding (same value, same object reference) *)
Theorem C14_exec_key_untouched : forall mt b blk c h k,
  ~ In k (block_targets blk) -> ns_get k (ctx (snd (run_exec mt b blk c h))) = ns_get k c.
Proof. exact run_exec_key_untouched. Qed.
Print Assumptions C14_exec_key_untouched.

(** every key of the final context was there before or is a save(...) argument *)
Theorem C14_exec_new_keys_are_saved : forall mt b blk c h k,
  In k (ns_keys (ctx (snd (run_exec mt b blk c h)))) -> In k (ns_keys c) \/ In k (block_targets blk).
Proof. exact run_exec_new_keys. Qed.
Print Assumptions C14_exec_new_keys_are_saved.

(** no expression evaluated against the exec globals touches context, save log or imports *)
Theorem C14_exec_expressions_frame : forall fuel E e s r s',
  gk E = GPlain -> eval fuel E e s = (r, s') ->
  ctx s' = ctx s /\ saves s' = saves s /\ imps s' = imps s.
Proof. intros fuel E e s r s' G H. exact (sound_eval_plain fuel E e G s r s' H). Qed.
Print Assumptions C14_exec_expressions_frame.

(** save() writes the context at the moment of the call: the rest of the block — whether it finishes
    or raises ([r] is any outcome) — leaves every key it does not save again as it was *)
Theorem C14_save_takes_effect_at_call : forall fuel E rest s1 r s' k,
  gk E = GPlain -> exec_block fuel E rest s1 = (r, s') ->
  ~ In k (block_targets rest) -> ns_get k (ctx s') = ns_get k (ctx s1).
Proof. exact rest_of_block_keeps_saved. Qed.
Print Assumptions C14_save_takes_effect_at_call.

(** * In-place mutation stays visible *)
Theorem C14_inplace_visible_exec : forall mt b c h k r items z,
  ns_get k c = Some (PRef r) -> nth_error h r = Some (OList items) ->
  k <> "save" -> k <> "__builtins__" ->
  let res := run_exec mt b [SExpr (XAppend (XName k) (XInt z))] c h in
  fst res = Ok tt /\ ctx (snd res) = c
  /\ nth_error (heap (snd res)) r = Some (OList (items ++ [PInt z])).
Proof. exact exec_append_visible. Qed.
Print Assumptions C14_inplace_visible_exec.

Theorem C14_inplace_visible_eval : forall mt b c i h k r items z,
  ns_get k c = Some (PRef r) -> nth_error h r = Some (OList items) -> k <> "__builtins__" ->
  let res := run_eval mt b (XAppend (XName k) (XInt z)) (eval_state c i h) in
  fst res = Ok PNone /\ ctx (snd res) = c
  /\ nth_error (heap (snd res)) r = Some (OList (items ++ [PInt z])).
Proof. exact eval_append_visible. Qed.
Print Assumptions C14_inplace_visible_eval.

(** * Imports (pyimport and import statements of a py block share CPython's import system)

    [import a.b.c] imports every module of the chain: afterwards each is in sys.modules ... *)
Theorem C14_import_loads_chain : forall mt ms ld ld',
  load_chain mt ms ld = (true, ld') ->
  (forall x, In x ms -> mem x ld' = true) /\ (forall x, mem x ld = true -> mem x ld' = true).
Proof. exact load_chain_loaded. Qed.
Print Assumptions C14_import_loads_chain.

(** ... and an imported submodule is an attribute of its package, so the dotted path resolves
    through the top-level name the statement binds; one that was never imported is not *)
Theorem C14_import_submodule_is_attribute : forall mt ld m a attrs sub,
  mod_get m mt = Some attrs -> a <> "<self>" -> ns_get a attrs = None ->
  mod_get (m ++ "." ++ a)%string mt = Some sub -> mem (m ++ "." ++ a)%string ld = true ->
  mod_attr mt ld m a = Some (mod_value mt (m ++ "." ++ a)%string).
Proof. exact mod_attr_submodule. Qed.
Print Assumptions C14_import_submodule_is_attribute.

Theorem C14_import_unimported_submodule_hidden : forall mt ld m a attrs,
  mod_get m mt = Some attrs -> ns_get a attrs = None -> mem (m ++ "." ++ a)%string ld = false ->
  mod_attr mt ld m a = None.
Proof. exact mod_attr_not_imported. Qed.
Print Assumptions C14_import_unimported_submodule_hidden.

(** [from m import n1, n2, ..]: every name is looked up on the one module the statement names *)
Theorem C14_fromlist_same_module : forall mt ld key names bs,
  from_binds mt ld key names = Some bs ->
  Forall2 (fun na b => fst b = snd na /\ mod_attr mt ld key (fst na) = Some (snd b)) names bs.
Proof. exact from_binds_same_module. Qed.
Print Assumptions C14_fromlist_same_module.

(** a later pyimport step re-binds a name an earlier one imported (dict.update: last wins), so every
    !py after it — whatever the scope, by [C14_reads_imports_after_context] — sees the new object *)
Theorem C14_pyimport_rebinds : forall k v stepns imports_before,
  NoDup (ns_keys stepns) -> ns_get k stepns = Some v ->
  ns_get k (ns_update imports_before stepns) = Some v.
Proof. intros k v d c. exact (ns_get_update_in k v d c). Qed.
Print Assumptions C14_pyimport_rebinds.

(** a pyimport step merges ALL its names into the imports namespace, also those a context key hides at
    that moment: when the key goes away the import is what a !py reads, from any scope *)
Theorem C14_import_survives_hidden_key : forall E k v stepns s,
  gk E = GChain -> cls E = false -> find_local k (frames s) false = LNotLocal ->
  ns_get k (scr s) = None -> NoDup (ns_keys (ctx s)) -> NoDup (ns_keys stepns) ->
  ns_get k stepns = Some v ->
  let s' := set_ctx (ns_del k (ctx s)) (set_imps (ns_update (imps s) stepns) s) in
  load_var E k s' = (Ok v, s').
Proof. exact import_survives_hidden_key. Qed.
Print Assumptions C14_import_survives_hidden_key.

(** * eval cannot leak (after the repair e6daded of Context.get_eval_string)

    For EVERY expression of the fragment — assignment expressions at module level, in lambdas, in
    comprehensions included — evaluating it leaves the context and the imports namespace (and the
    save log) exactly as they were.  A module-level [:=] is STORE_NAME = ChainMap.__setitem__ =
    maps[0], which is now the per-evaluation scratch dict; a [:=] inside a module-level
    comprehension is STORE_GLOBAL into the dict part of the per-evaluation namespace object. *)
Theorem C14_eval_no_leak : forall mt b e s,
  let s' := snd (run_eval mt b e s) in
  ctx s' = ctx s /\ imps s' = imps s /\ saves s' = saves s.
Proof. intros mt b e s. destruct (run_eval_frame mt b e s) as (A & B & C). cbv zeta. auto. Qed.
Print Assumptions C14_eval_no_leak.

(** and neither the scratch map nor the dict part outlives the call: the next !py string starts
    from context + imports + builtins only *)
Theorem C14_eval_namespace_dropped : forall mt b e s,
  wf_expr [] false false e = true ->
  scr (snd (run_eval mt b e s)) = [] /\ nsd (snd (run_eval mt b e s)) = [].
Proof. exact run_eval_namespace_dropped. Qed.
Print Assumptions C14_eval_namespace_dropped.

(** * Non-vacuity: concrete programs, evaluated *)
Definition c1 : ns := [("a", PInt 1); ("lst", PRef 0); ("len", PInt 9)].
Definition h1 : list obj := [OList [PInt 1; PInt 2]].
Definition N := XName.

(** reads at depth: lambda in comprehension in lambda; three for clauses; the context's [len]
    shadows the builtin at every depth *)
Example C14_reads_nonvacuous :
  eval_case std_mods std_builtins 1 h1 c1 [SFrom "math" "gcd" "gcd"]
    [ XLam ["q"] (XComp (XLam ["z"] (XBin BAdd (XBin BAdd (N "z") (N "x")) (XBin BAdd (N "q") (N "a"))) [XInt 1])
                        [("x", N "lst")]) [XInt 10];
      XComp (XBin BAdd (XBin BAdd (N "x") (N "y")) (XBin BAdd (N "z") (N "a")))
            [("x", N "lst"); ("y", N "lst"); ("z", XList [N "a"])];
      XList [N "len"; XLam [] (N "len") []; XComp (N "len") [("i", XList [XInt 0])] ];
      XCall (N "gcd") [XInt 4; XInt 6] ]
  = Some (mk_obs
      [ Ok (CList 1000 [CInt 13; CInt 14]);
        Ok (CList 1001 [CInt 4; CInt 5; CInt 5; CInt 6]);
        Ok (CList 1002 [CInt 9; CInt 9; CList 1003 [CInt 9]]);
        Ok (CInt 2) ]
      [("a", CInt 1); ("lst", CList 0 [CInt 1; CInt 2]); ("len", CInt 9)]
      [("gcd", CNative "math.gcd")] []).
Proof. vm_compute. reflexivity. Qed.

Example C14_reads_under_lambdas_nonvacuous :
  eval 4 (eval_env std_mods std_builtins XNone) (nest_lam ["x"; "y"; "z"] (XName "a"))
       (eval_state c1 [] h1) = (Ok (PInt 1), eval_state c1 [] h1).
Proof. vm_compute. reflexivity. Qed.

(** exec: locals, import, def, class, loop variable, deletion stay out; save's arguments go in;
    the function body reads the context key [a] *)
Example C14_exec_nonvacuous :
  exec_case std_mods std_builtins 1 h1 [("a", PInt 1); ("lst", PRef 0)]
    [ SAssign "x" (XBin BAdd (N "a") (XInt 1)); SImport "math";
      SDef "f" ["q"] (XBin BAdd (N "q") (N "a"));
      SClass "C" [("p", N "a")];
      SExpr (XComp (N "i") [("i", N "lst")]);
      SExpr (XAppend (N "lst") (XInt 3));
      SDel "lst";
      SSave ["x"] [("r", XCall (N "f") [XInt 1])] ]
  = Some (mk_obs [Ok CNone]
      [("a", CInt 1); ("lst", CList 0 [CInt 1; CInt 2; CInt 3]); ("x", CInt 2); ("r", CInt 2)]
      [] []).
Proof. vm_compute. reflexivity. Qed.

(** rebinding a context key inside the block rebinds the copy only; exactly the save(...)
    arguments arrive in the context *)
Example C14_exec_no_leak_nonvacuous :
  block_targets [SAssign "x" (XInt 1); SSave ["x"] [("r", XInt 2)]] = ["x"; "r"]
  /\ exec_case std_mods std_builtins 1 h1 [("a", PInt 1); ("lst", PRef 0)]
       [SAssign "x" (XInt 1); SAssign "a" (XInt 5); SSave ["x"] [("r", XInt 2)]]
     = Some (mk_obs [Ok CNone]
         [("a", CInt 1); ("lst", CList 0 [CInt 1; CInt 2]); ("x", CInt 1); ("r", CInt 2)] [] []).
Proof. split; vm_compute; reflexivity. Qed.

(** the former leak witnesses: [(y := a + 2)] and a rebinding [(lst := lst + [9])] give their
    values and leave the context alone; [y] is gone for the next !py string, from every kind of
    scope; within one expression a module-level [:=] is readable afterwards, also from a lambda *)
Definition leak_expr : expr := XWalrus "y" (XBin BAdd (N "a") (XInt 2)).
Definition e_comp : expr := XComp (XWalrus "y" (N "x")) [("x", N "lst")].
Example C14_eval_no_leak_nonvacuous :
  eval_case std_mods std_builtins 1 h1 [("a", PInt 1); ("lst", PRef 0)] []
    [ leak_expr; N "y";
      XWalrus "lst" (XBin BAdd (N "lst") (XList [XInt 9]));
      XBin BAdd (XWalrus "t" (XInt 5)) (XLam [] (N "t") []);
      e_comp; N "y"; XLam [] (N "y") [] ]
  = Some (mk_obs
      [ Ok (CInt 3); Err "NameError" "name 'y' is not defined";
        Ok (CList 1000 [CInt 1; CInt 2; CInt 9]);
        Ok (CInt 10);
        Ok (CList 1001 [CInt 1; CInt 2]);
        Err "NameError" "name 'y' is not defined"; Err "NameError" "name 'y' is not defined" ]
      [("a", CInt 1); ("lst", CList 0 [CInt 1; CInt 2])] [] []).
Proof. vm_compute. reflexivity. Qed.

Example C14_inplace_nonvacuous :
  ns_get "lst" c1 = Some (PRef 0) /\ nth_error h1 0 = Some (OList [PInt 1; PInt 2]).
Proof. split; reflexivity. Qed.

(** dotted imports: [import pkg.sub.mod] binds [pkg] and the whole path resolves — at module level,
    in a lambda, in a comprehension; [pkg.other] was not imported and is not an attribute;
    aliased and from-forms bind the leaf *)
Definition pkg_mods : list (string * ns) :=
  [("pkg", [("TOP", PInt 1)]); ("pkg.other", [("NAME", PStr "other")]);
   ("pkg.sub", [("SUBC", PInt 2)]); ("pkg.sub.mod", [("CONST", PInt 40)])].
Definition path_const : expr := XAttr (XAttr (XAttr (N "pkg") "sub") "mod") "CONST".
Example C14_import_nonvacuous :
  eval_case pkg_mods std_builtins 1 h1 [("a", PInt 1); ("lst", PRef 0)]
    [SImport "pkg.sub.mod"; SImportAs "pkg.sub.mod" "m"; SFrom "pkg.sub" "mod" "leaf"; SFrom "pkg.sub.mod" "CONST" "Y"]
    [ XBin BAdd path_const (N "a"); XLam ["k"] (XBin BAdd path_const (N "k")) [XInt 2];
      XComp (XBin BAdd path_const (N "x")) [("x", N "lst")];
      XAttr (XAttr (N "pkg") "other") "NAME";
      XList [XAttr (N "m") "CONST"; XAttr (N "leaf") "CONST"; N "Y"] ]
  = Some (mk_obs
      [ Ok (CInt 41); Ok (CInt 42); Ok (CList 1000 [CInt 41; CInt 42]); Err "AttributeError" "";
        Ok (CList 1001 [CInt 40; CInt 40; CInt 40]) ]
      [("a", CInt 1); ("lst", CList 0 [CInt 1; CInt 2])]
      [("pkg", CMod "pkg"); ("m", CMod "pkg.sub.mod"); ("leaf", CMod "pkg.sub.mod"); ("Y", CInt 40)] []).
Proof. vm_compute. reflexivity. Qed.

(** two pyimport steps binding the same name to different objects, reads in between and after, at
    module level, in a lambda and in a comprehension *)
Example C14_pyimport_rebinds_nonvacuous :
  session_case_ld pkg_mods std_builtins [] 1 h1 [("a", PInt 1); ("lst", PRef 0)]
    [ AImport [SFrom "pkg.sub" "mod" "m"]; AEval (XAttr (N "m") "CONST");
      AImport [SImportAs "pkg.other" "m"];
      AEval (XAttr (N "m") "NAME"); AEval (XLam [] (XAttr (N "m") "NAME") []);
      AEval (XComp (XAttr (N "m") "NAME") [("i", N "lst")]); AEval (XAttr (N "m") "CONST") ]
  = Some (mk_obs
      [ Ok (CInt 40); Ok (CStr "other"); Ok (CStr "other");
        Ok (CList 1000 [CStr "other"; CStr "other"]); Err "AttributeError" "" ]
      [("a", CInt 1); ("lst", CList 0 [CInt 1; CInt 2])] [("m", CMod "pkg.other")] []).
Proof. vm_compute. reflexivity. Qed.

(** [from pkg import sub, TOP, ONLY]: [sub] is a not-yet-imported sub-module that itself has a [TOP];
    the later names still come from [pkg] *)
Definition pkg_mods2 : list (string * ns) :=
  [("pkg", [("TOP", PInt 1); ("ONLY", PInt 11)]); ("pkg.sub", [("SUBC", PInt 2); ("TOP", PStr "sub-top")])].
Example C14_fromlist_nonvacuous :
  eval_case pkg_mods2 std_builtins 1 h1 [("a", PInt 1)]
    [SFromN "pkg" [("sub", "sub"); ("TOP", "TOP"); ("ONLY", "ONLY")]]
    [ XList [N "TOP"; N "ONLY"; XAttr (N "sub") "TOP"] ]
  = Some (mk_obs [Ok (CList 1000 [CInt 1; CInt 11; CStr "sub-top"])] [("a", CInt 1)]
           [("sub", CMod "pkg.sub"); ("TOP", CInt 1); ("ONLY", CInt 11)] []).
Proof. vm_compute. reflexivity. Qed.

(** context has a key [gcd] when `from math import gcd` runs: the key wins while it is there, the
    import is read once it is dropped — at module level, in a lambda, in a comprehension *)
Example C14_import_survives_hidden_key_nonvacuous :
  session_case_ld std_mods std_builtins [] 1 h1 [("gcd", PInt 5); ("lst", PRef 0)]
    [ AImport [SFrom "math" "gcd" "gcd"]; AEval (N "gcd"); ADrop "gcd";
      AEval (XCall (N "gcd") [XInt 4; XInt 6]); AEval (XLam [] (N "gcd") []);
      AEval (XComp (XCall (N "gcd") [N "x"; XInt 4]) [("x", N "lst")]) ]
  = Some (mk_obs
      [ Ok (CInt 5); Ok (CInt 2); Ok (CNative "math.gcd"); Ok (CList 1000 [CInt 1; CInt 2]) ]
      [("lst", CList 0 [CInt 1; CInt 2])] [("gcd", CNative "math.gcd")] []).
Proof. vm_compute. reflexivity. Qed.

(** save then raise: the key is in the context although the block failed; a live view of the context
    (a context value that reads the context when called) sees a saved key right after save() *)
Example C14_save_at_call_nonvacuous :
  exec_case std_mods std_builtins 1 h1 [("a", PInt 1); ("peek", PNative "c14_run.peek")]
    [SAssign "x" (XInt 5); SSave ["x"] [("k", XInt 7)]; SExpr (N "nope")]
  = Some (mk_obs [Err "NameError" "name 'nope' is not defined"]
           [("a", CInt 1); ("peek", CNative "c14_run.peek"); ("x", CInt 5); ("k", CInt 7)] [] [])
  /\ exec_case std_mods std_builtins 1 h1 [("a", PInt 1); ("peek", PNative "c14_run.peek")]
       [SAssign "x" (XInt 5); SSave ["x"] []; SAssign "r" (XCall (N "peek") [XStr "x"]); SSave ["r"] []]
     = Some (mk_obs [Ok CNone]
           [("a", CInt 1); ("peek", CNative "c14_run.peek"); ("x", CInt 5); ("r", CInt 5)] [] []).
Proof. split; vm_compute; reflexivity. Qed.

(** * Tie B: the namespace-building lines of pypyr, translated from the CURRENT source by
    tools/py2coq_c14.py (Gen/GenC14.v), are the model the theorems above are about *)

(** Context.pystring_globals_update merges its whole argument into the imports namespace (dict.update) *)
Theorem C14_source_pystring_globals_update_is_model : forall other s,
  gen_pystring_globals_update other s
  = (set_imps (ns_update (imps s) other) s, length (ns_update (imps s) other)).
Proof. exact gen_globals_update_is_ns_update. Qed.
Print Assumptions C14_source_pystring_globals_update_is_model.

(** pypyr.steps.pyimport.run_step is one AImport step of [run_session] *)
Theorem C14_source_pyimport_step_is_model : forall mt b blk r s,
  run_session mt b (AImport blk :: r) s
  = match pyimport_ns mt blk [] (loaded s) with
    | Some (stepns, ld) => run_session mt b r (set_loaded ld (gen_pyimport_step stepns s))
    | None => None
    end.
Proof. exact gen_pyimport_step_is_session. Qed.
Print Assumptions C14_source_pyimport_step_is_model.

(** Context.get_eval_string evaluates with ONE namespace object built by the call, whose maps are
    [fresh dict; context; imports]: lookups are [chain_get], STORE_NAME is [store_name] into the scratch map *)
Theorem C14_source_eval_namespace_is_model :
  gen_eval_maps = [MFresh; MCtx; MImps] /\ gen_eval_one_namespace = true /\ gen_eval_empty_raises = true
  /\ (forall x s, chain_lookup gen_eval_maps x s = chain_get x s)
  /\ (forall E x v s, gk E = GChain -> cls E = false ->
        store_name E x v s = match chain_store gen_eval_maps x v s with
                             | Some s' => (Ok tt, s') | None => (Unsup, s) end).
Proof.
  repeat split; [exact gen_chain_lookup_is_chain_get|exact gen_chain_store_is_store_name].
Qed.
Print Assumptions C14_source_eval_namespace_is_model.

(** class _ChainMapPretendDict overrides nothing of ChainMap's lookup/store protocol *)
Theorem C14_source_namespace_class_is_model :
  gen_namespace_bases = ["ChainMap"; "dict"]
  /\ gen_namespace_methods = ["__init__"]
  /\ gen_namespace_init = ["dict.__setitem__(self, '__builtins__', builtins.__dict__)"; "super().__init__(*maps)"].
Proof. exact gen_namespace_class_is_model. Qed.
Print Assumptions C14_source_namespace_class_is_model.

(** pypyr.steps.py: the namespace handed to exec, and save *)
Theorem C14_source_exec_globals_is_model : forall c, gen_exec_globals c = exec_globals c.
Proof. exact gen_exec_globals_is_model. Qed.
Print Assumptions C14_source_exec_globals_is_model.

Theorem C14_source_save_is_model : forall names kvs s, gen_save names kvs s = do_save names kvs s.
Proof. exact gen_save_is_do_save. Qed.
Print Assumptions C14_source_save_is_model.
