(** Props/C14.v — placeholder, to be written. *)
