(** Props/C17.v — command steps report exit status faithfully and in declaration order.

    Model: Model/Cmd.v.  [orc : string -> outcome] is the operating system (exit code and
    output of every command line, or a spawn failure); [shell] selects shell/shells vs
    cmd/cmds; [cf] is ANY step input (plain string, expanded map, list, nested serial
    sub-lists); [sched : list nat] is ANY completion order of the concurrently running
    processes.  No bound on the number of commands anywhere.

    Assumed, not proved (level: partial): asyncio.gather starts every awaitable and returns
    results in argument order (= one result slot per task); OS process semantics. *)
From PV Require Import Cmd CmdProofs GenC17 GenC17Proofs.
Import ListNotations.
Open Scope string_scope.
Open Scope list_scope.

(** * cmd / shell *)

(** the step succeeds iff every command it ran exited 0 ... *)
Theorem C17_serial_iff_all_zero : forall orc shell cf,
  ob_err (run_sync orc shell cf) = NoError <->
  all_zero orc (ob_started (run_sync orc shell cf)).
Proof. exact serial_ok_iff_ran_all_zero. Qed.
Print Assumptions C17_serial_iff_all_zero.

(** ... equivalently iff every DECLARED command exits 0, and then all of them ran, in
    declaration order *)
Theorem C17_serial_iff_declared_all_zero : forall orc shell cf,
  ob_err (run_sync orc shell cf) = NoError <-> all_zero orc (sconf_cmds cf).
Proof. exact serial_ok_iff_declared_all_zero. Qed.
Print Assumptions C17_serial_iff_declared_all_zero.

Theorem C17_serial_all_zero_runs_all : forall orc shell cf,
  all_zero orc (sconf_cmds cf) -> ob_started (run_sync orc shell cf) = sconf_cmds cf.
Proof. exact serial_all_zero_runs_all. Qed.
Print Assumptions C17_serial_all_zero_runs_all.

(** the commands started are exactly the declared ones up to and including the first that
    does not exit 0, in declaration order: nothing later is started *)
Theorem C17_serial_stops_at_first : forall orc shell cf pre c post,
  sconf_cmds cf = pre ++ c :: post -> all_zero orc pre -> exit_zero orc c = false ->
  ob_started (run_sync orc shell cf) = pre ++ [c].
Proof. exact serial_stops_at_first. Qed.
Print Assumptions C17_serial_stops_at_first.

(** and the error raised carries that command and its exit code *)
Theorem C17_serial_error_carries_cmd_and_code : forall orc shell cf pre c post rc o e,
  sconf_cmds cf = pre ++ c :: post -> all_zero orc pre ->
  orc c = Exited rc o e -> rc <> 0%Z ->
  exists so se, ob_err (run_sync orc shell cf) =
                Raised (PErr "subprocess.CalledProcessError" (sync_args shell c) rc so se).
Proof. exact serial_error_carries. Qed.
Print Assumptions C17_serial_error_carries_cmd_and_code.

(** a command that cannot be spawned stops the step with the spawn error itself *)
Theorem C17_serial_spawn_error : forall orc shell cf pre c post n m,
  sconf_cmds cf = pre ++ c :: post -> all_zero orc pre -> orc c = SpawnFail n m ->
  ob_err (run_sync orc shell cf) = Raised (PExn n m).
Proof. exact serial_spawn_error. Qed.
Print Assumptions C17_serial_spawn_error.

(** cmdOut: the saved results of the commands actually run (the started prefix), failed
    one included, in declaration order — the bare object when there is exactly one, a list
    otherwise, untouched when there is none *)
Theorem C17_serial_cmdOut : forall orc shell cf,
  ob_out (run_sync orc shell cf) =
  sync_cmdout (flat_map (saved orc shell) (upto_bad_p orc (spairs (sync_commands cf)))).
Proof. exact serial_cmdout. Qed.
Print Assumptions C17_serial_cmdOut.

(** * cmds / shells *)

(** everything the step reports — commands started, the error, cmdOut — is the same for
    every completion order of the spawned processes *)
Theorem C17_async_schedule_independent : forall orc shell s1 s2 cf,
  run_async orc shell s1 cf = run_async orc shell s2 cf.
Proof. intros. apply async_schedule_independent. Qed.
Print Assumptions C17_async_schedule_independent.

(** the underlying confluence: from a well-formed state, every schedule and every amount
    of fuel that covers the remaining work lead to the same final state *)
Theorem C17_async_machine_confluent : forall orc shell fuel sched sls,
  Forall wf sls -> (total_work sls <= fuel)%nat ->
  run_machine orc shell fuel sched sls = map (finish orc shell) sls.
Proof. exact run_machine_finish. Qed.
Print Assumptions C17_async_machine_confluent.

(** every top-level entry is started, and before any process has completed *)
Theorem C17_async_all_started : forall orc shell sched cf k e c,
  In k (async_commands cf) -> In e (entries k) -> In c (entry_head e) ->
  In c (ob_wave (run_async orc shell sched cf)) /\
  In c (ob_started (run_async orc shell sched cf)).
Proof. intros. apply async_all_top_level_started with (k := k) (e := e); assumption. Qed.
Print Assumptions C17_async_all_started.

(** each entry runs its commands up to and including its first non-zero exit, no further;
    entries do not affect each other *)
Theorem C17_async_sublist_stops : forall orc shell sched cf,
  ob_started (run_async orc shell sched cf) =
  flat_map (fun p => upto_bad orc (entry_cmds (snd p))) (aentries (async_commands cf)).
Proof. intros. apply async_started. Qed.
Print Assumptions C17_async_sublist_stops.

(** reading of [upto_bad]: the whole list when all exit 0, else the prefix ending at the
    first that does not *)
Theorem C17_upto_bad_meaning : forall orc,
  (forall l, all_zero orc l -> upto_bad orc l = l) /\
  (forall pre c post, all_zero orc pre -> exit_zero orc c = false ->
                      upto_bad orc (pre ++ c :: post) = pre ++ [c]).
Proof. intro orc. split; [exact (upto_bad_all orc)|exact (upto_bad_split orc)]. Qed.
Print Assumptions C17_upto_bad_meaning.

(** the step succeeds iff every command it ran exited 0 *)
Theorem C17_async_iff_all_zero : forall orc shell sched cf,
  ob_err (run_async orc shell sched cf) = NoError <->
  all_zero orc (ob_started (run_async orc shell sched cf)).
Proof. intros. apply async_ok_iff_ran_all_zero. Qed.
Print Assumptions C17_async_iff_all_zero.

(** otherwise exactly one MultiError, listing every failure of a started command —
    non-zero exits with command and code, spawn errors as raised — in declaration order *)
Theorem C17_async_one_multierror : forall orc shell sched cf,
  ob_err (run_async orc shell sched cf) =
  match all_failures orc shell (async_commands cf) with [] => NoError | l => Multi l end.
Proof. intros. apply async_err. Qed.
Print Assumptions C17_async_one_multierror.

(** cmdOut, for EVERY schedule: one element per top-level entry of every saving Command in
    declaration order — the result object, or for a serial sub-list the list of results of
    the commands it ran, failed ones included; untouched when nothing saves *)
Theorem C17_cmdOut_declaration_order : forall orc shell sched cf,
  ob_out (run_async orc shell sched cf) =
  if any_save (async_commands cf)
  then OutList (flat_map (fun p => if ac_save (fst p)
                                   then [entry_out orc shell (fst p) (snd p)] else [])
                         (aentries (async_commands cf)))
  else OutUnset.
Proof. intros. apply async_out. Qed.
Print Assumptions C17_cmdOut_declaration_order.

(** * Non-vacuity: concrete instances, evaluated *)
Definition orc0 : oracle :=
  oracle_of [("b", Exited 3 "out-b " "err-b"); ("d", Exited 1 "" ""); ("x", SpawnFail "E" "nope")].

(** cmd: [a; {run: [b; c], save}; d] — b exits 3: a and b ran, c and d did not *)
Definition scf0 : sconf :=
  CfList [IStr "a"; IMap (mkSmap (RunList ["b"; "c"]) true false); IStr "d"].

Example C17_serial_nonvacuous :
  sconf_cmds scf0 = ["a"] ++ "b" :: ["c"; "d"]
  /\ all_zero orc0 ["a"] /\ exit_zero orc0 "b" = false
  /\ run_sync orc0 false scf0 =
     mkObs ["a"; "b"] []
           (Raised (PErr "subprocess.CalledProcessError" (VList [VStr "b"]) 3
                         (VStr "out-b ") (VStr "err-b")))
           (OutSingle (R1 (VList [VStr "b"]) 3 (VStr "out-b") (VStr "err-b"))).
Proof. vm_compute. repeat split. Qed.

(** cmds: [a; [b; c]; {run: [d; [e; x; f]], save}] under two different completion orders *)
Definition acf0 : aconf :=
  ACfList [AIStr "a"; AISub ["b"; "c"];
           AIMap (mkAmap (ARunList [AOne "d"; ASer ["e"; "x"; "f"]]) true false)].

Example C17_async_nonvacuous :
  (* the machine really takes different paths ... *)
  step orc0 false 0 (init_slots orc0 (async_commands acf0))
    <> step orc0 false 3 (init_slots orc0 (async_commands acf0))
  (* ... and reports the same *)
  /\ run_async orc0 false ([0; 0; 0; 0; 0])%nat acf0 = run_async orc0 false ([3; 2; 1; 0; 7])%nat acf0
  /\ run_async orc0 false ([3; 2; 1; 0; 7])%nat acf0 =
     mkObs ["a"; "b"; "d"; "e"; "x"] ["a"; "b"; "d"; "e"]
           (Multi [PErr "pypyr.errors.SubprocessError" (VList [VStr "b"]) 3 VNone VNone;
                   PErr "pypyr.errors.SubprocessError" (VList [VStr "d"]) 1 (VBytes "") (VBytes "");
                   PExn "E" "nope"])
           (OutList [EOne (R1 (VList [VStr "d"]) 1 (VBytes "") (VBytes ""));
                     ESer [R1 (VList [VStr "e"]) 0 (VBytes "") (VBytes ""); X1 "E" "nope"]]).
Proof. vm_compute. split; [discriminate|split; reflexivity]. Qed.

Example C17_all_started_nonvacuous :
  In (async_sub ["b"; "c"]) (async_commands acf0)
  /\ In (ASer ["b"; "c"]) (entries (async_sub ["b"; "c"]))
  /\ In "b" (entry_head (ASer ["b"; "c"])).
Proof. vm_compute. auto 10. Qed.

(** * Tie B — the model IS the current source

    Gen/GenC17.v is regenerated from pypyr/subproc.py, pypyr/steps/dsl/cmd.py,
    pypyr/aio/subproc.py and pypyr/steps/dsl/cmdasync.py before every build (tools/py2coq_c17.py).
    [os args shell] is what the operating system does with an argv; the model's oracle is the OS
    applied to what pypyr hands it: [orc_of os shell c = os (sync_args shell c) shell].
    [G_*] are the generated methods with CPython's subprocess / asyncio calls plugged in
    ([py_subprocess_run], [py_check_returncode], [py_create_subprocess], [py_communicate]). *)

(** pypyr.subproc.Command._run = [run1]: spawn; when saving, append the result BEFORE the
    exit-status check; raise on non-zero / spawn failure *)
Theorem C17_source_Command__run_is_model : forall os shell k c s,
  G__run os (py_of shell k) c s =
  (to_gout (snd (run1 (orc_of os shell) shell k c)),
   after shell s [c] (fst (run1 (orc_of os shell) shell k c))).
Proof. exact gen__run_is_model. Qed.
Print Assumptions C17_source_Command__run_is_model.

(** pypyr.subproc.Command.run = [run_strs]: str -> one run; list -> each in order, stop at the
    first raise *)
Theorem C17_source_Command_run_is_model : forall os shell k s,
  G_run os (py_of shell k) s =
  (let '(st, rs, er) := run_strs (orc_of os shell) shell k (run_list (sc_run k)) in
   (to_gout er, after shell s st rs)).
Proof. exact gen_run_is_model. Qed.
Print Assumptions C17_source_Command_run_is_model.

(** CmdStep.run_step = [run_cmds] + [sync_cmdout]: the two try/finally levels, when cmdOut is
    written and in which shape, when the error propagates *)
Theorem C17_source_CmdStep_run_step_is_model : forall os shell ks s,
  gobs (G_run_step os (map (py_of shell) ks) s) =
  (let '(st, rs, er) := run_cmds (orc_of os shell) shell ks in
   (to_gout er, g_trace s ++ spawned shell st,
    match rs with [] => g_out s | _ => sync_cmdout rs end)).
Proof. exact gen_run_step_is_model. Qed.
Print Assumptions C17_source_CmdStep_run_step_is_model.

(** end to end: the generated cmd/shell step reports exactly what [run_sync] reports *)
Theorem C17_source_sync_step_is_model : forall os shell cf s,
  g_trace s = [] -> g_out s = OutUnset ->
  gobs (G_run_step os (map (py_of shell) (sync_commands cf)) s) =
  (let m := run_sync (orc_of os shell) shell cf in
   (match ob_err m with Raised e => GExc e | _ => GOk end,
    spawned shell (ob_started m), ob_out m)).
Proof. exact gen_sync_step_is_run_sync. Qed.
Print Assumptions C17_source_sync_step_is_model.

(** SubprocessResult.check_returncode = [res_error] on result objects *)
Theorem C17_source_check_returncode_is_model : forall cmd rc o e,
  opt_list (gen_SubprocessResult_check_returncode (R1 cmd rc o e)) = res_error (R1 cmd rc o e).
Proof. exact gen_check_returncode_is_model. Qed.
Print Assumptions C17_source_check_returncode_is_model.

(** aio Command._parse_result: the model's per-element errors are the (unique) fixpoint of the
    generated recursion; parse_results flattens them in order *)
Theorem C17_source_parse_result_is_model : forall rec x,
  G_parse_result entry_errors x = entry_errors x /\
  G_parse_result (G_parse_result rec) x = entry_errors x.
Proof. intros. split; [apply gen_parse_result_is_model|apply gen_parse_result_unique]. Qed.
Print Assumptions C17_source_parse_result_is_model.

Theorem C17_source_parse_results_is_model : forall results,
  G_parse_results entry_errors results = flat_map entry_errors results.
Proof. exact gen_parse_results_is_model. Qed.
Print Assumptions C17_source_parse_results_is_model.

(** aio Command._spawn = the model's [async_result] (handles: PIPE exactly when saving) *)
Theorem C17_source_aio_spawn_is_model : forall os shell k c s,
  G_spawn os (apy_of shell k) c (ac_save k) (ac_save k) s =
  (match orc_of os shell c with
   | Exited rc o e => GVal (async_result shell (ac_save k) (ac_text k) c rc o e)
   | SpawnFail n m => GRaise (PExn n m)
   end, aafter shell s [c] []).
Proof. exact gen_spawn_is_model. Qed.
Print Assumptions C17_source_aio_spawn_is_model.

(** aio Command._run on a serial sub-list = [ser_spec]: in order, stop after the first
    non-zero exit, a spawn error is recorded as the last element; exactly [upto_bad] is spawned *)
Theorem C17_source_aio_serial_run_is_model : forall os shell k l s,
  G_arun os (apy_of shell k) (ASer l) (ac_save k) (ac_save k) s =
  (GVal (ESer (map snd (ser_spec (orc_of os shell) shell (ac_save k) (ac_text k) l))),
   aafter shell (aset_local s []) (upto_bad (orc_of os shell) l)
          (map snd (ser_spec (orc_of os shell) shell (ac_save k) (ac_text k) l))).
Proof. exact gen_arun_list_is_model. Qed.
Print Assumptions C17_source_aio_serial_run_is_model.

Theorem C17_source_aio_single_run_is_model : forall os shell k c s,
  G_arun os (apy_of shell k) (AOne c) (ac_save k) (ac_save k) s =
  (match orc_of os shell c with
   | Exited rc o e => GVal (EOne (async_result shell (ac_save k) (ac_text k) c rc o e))
   | SpawnFail n m => GRaise (PExn n m)
   end, aafter shell s [c] []).
Proof. exact gen_arun_one_is_model. Qed.
Print Assumptions C17_source_aio_single_run_is_model.

(** aio Commands.run: results of the saving Commands in order; ONE MultiError with every error
    of every Command in order iff there is any *)
Theorem C17_source_Commands_run_is_model : forall cs s,
  G_commands_run cs s =
  (match errors_of cs with [] => GOk | _ => GExc (PExn "pypyr.errors.MultiError" "") end,
   mkAst (a_trace s) (a_local s) true (a_results s ++ saved_of cs) (errors_of cs) (a_out s)).
Proof. exact gen_commands_run_is_model. Qed.
Print Assumptions C17_source_Commands_run_is_model.

(** end to end, for every schedule: Commands.run + AsyncCmdStep.run_step on the Commands as the
    event loop leaves them report the model's cmdOut and error *)
Theorem C17_source_async_step_is_model : forall os shell sched cf s,
  a_results s = [] -> a_out s = OutUnset ->
  let m := run_async (orc_of os shell) shell sched cf in
  let r := G_async_step os shell (async_commands cf) s in
  a_out (snd r) = ob_out m /\
  match ob_err m with
  | NoError => fst r = GOk
  | Raised _ => False
  | Multi l => fst r = GExc (PExn "pypyr.errors.MultiError" "") /\ a_errors (snd r) = l
  end.
Proof. exact gen_async_step_is_run_async. Qed.
Print Assumptions C17_source_async_step_is_model.

(** every oracle that depends on the command line only through what pypyr passes to the OS is
    of the form [orc_of os shell]; instance: *)
Example C17_source_nonvacuous :
  let os := fun (a : val) (sh : bool) =>
              if val_eqb a (VList [VStr "b"]) then Exited 3 "out-b " "err-b" else Exited 0 "" "" in
  gobs (G_run_step os (map (py_of false) (sync_commands scf0)) (mkGst [] [] [] OutUnset)) =
  (GExc (PErr "subprocess.CalledProcessError" (VList [VStr "b"]) 3 (VStr "out-b ") (VStr "err-b")),
   [(VList [VStr "a"], false); (VList [VStr "b"], false)],
   OutSingle (R1 (VList [VStr "b"]) 3 (VStr "out-b") (VStr "err-b"))).
Proof. vm_compute. reflexivity. Qed.
