(** Props/C17.v — placeholder, to be written. *)
