(** Props/C17.v — command steps report exit status faithfully and in declaration order.

    Model: Model/Cmd.v.  [orc : string -> outcome] is the operating system (exit code and
    output of every command line, or a spawn failure); [shell] selects shell/shells vs
    cmd/cmds; [cf] is ANY step input (plain string, expanded map, list, nested serial
    sub-lists); [sched : list nat] is ANY completion order of the concurrently running
    processes.  No bound on the number of commands anywhere.

    Assumed, not proved (level: partial): asyncio.gather starts every awaitable and returns
    results in argument order (= one result slot per task); OS process semantics. *)
From PV Require Import Cmd CmdProofs.
Import ListNotations.
Open Scope string_scope.
Open Scope list_scope.

(** * cmd / shell *)

(** the step succeeds iff every command it ran exited 0 ... *)
Theorem C17_serial_iff_all_zero : forall orc shell cf,
  ob_err (run_sync orc shell cf) = NoError <->
  all_zero orc (ob_started (run_sync orc shell cf)).
Proof. exact serial_ok_iff_ran_all_zero. Qed.
Print Assumptions C17_serial_iff_all_zero.

(** ... equivalently iff every DECLARED command exits 0, and then all of them ran, in
    declaration order *)
Theorem C17_serial_iff_declared_all_zero : forall orc shell cf,
  ob_err (run_sync orc shell cf) = NoError <-> all_zero orc (sconf_cmds cf).
Proof. exact serial_ok_iff_declared_all_zero. Qed.
Print Assumptions C17_serial_iff_declared_all_zero.

Theorem C17_serial_all_zero_runs_all : forall orc shell cf,
  all_zero orc (sconf_cmds cf) -> ob_started (run_sync orc shell cf) = sconf_cmds cf.
Proof. exact serial_all_zero_runs_all. Qed.
Print Assumptions C17_serial_all_zero_runs_all.

(** the commands started are exactly the declared ones up to and including the first that
    does not exit 0, in declaration order: nothing later is started *)
Theorem C17_serial_stops_at_first : forall orc shell cf pre c post,
  sconf_cmds cf = pre ++ c :: post -> all_zero orc pre -> exit_zero orc c = false ->
  ob_started (run_sync orc shell cf) = pre ++ [c].
Proof. exact serial_stops_at_first. Qed.
Print Assumptions C17_serial_stops_at_first.

(** and the error raised carries that command and its exit code *)
Theorem C17_serial_error_carries_cmd_and_code : forall orc shell cf pre c post rc o e,
  sconf_cmds cf = pre ++ c :: post -> all_zero orc pre ->
  orc c = Exited rc o e -> rc <> 0%Z ->
  exists so se, ob_err (run_sync orc shell cf) =
                Raised (PErr "subprocess.CalledProcessError" (sync_args shell c) rc so se).
Proof. exact serial_error_carries. Qed.
Print Assumptions C17_serial_error_carries_cmd_and_code.

(** a command that cannot be spawned stops the step with the spawn error itself *)
Theorem C17_serial_spawn_error : forall orc shell cf pre c post n m,
  sconf_cmds cf = pre ++ c :: post -> all_zero orc pre -> orc c = SpawnFail n m ->
  ob_err (run_sync orc shell cf) = Raised (PExn n m).
Proof. exact serial_spawn_error. Qed.
Print Assumptions C17_serial_spawn_error.

(** cmdOut: the saved results of the commands actually run (the started prefix), failed
    one included, in declaration order — the bare object when there is exactly one, a list
    otherwise, untouched when there is none *)
Theorem C17_serial_cmdOut : forall orc shell cf,
  ob_out (run_sync orc shell cf) =
  sync_cmdout (flat_map (saved orc shell) (upto_bad_p orc (spairs (sync_commands cf)))).
Proof. exact serial_cmdout. Qed.
Print Assumptions C17_serial_cmdOut.

(** * cmds / shells *)

(** everything the step reports — commands started, the error, cmdOut — is the same for
    every completion order of the spawned processes *)
Theorem C17_async_schedule_independent : forall orc shell s1 s2 cf,
  run_async orc shell s1 cf = run_async orc shell s2 cf.
Proof. intros. apply async_schedule_independent. Qed.
Print Assumptions C17_async_schedule_independent.

(** the underlying confluence: from a well-formed state, every schedule and every amount
    of fuel that covers the remaining work lead to the same final state *)
Theorem C17_async_machine_confluent : forall orc shell fuel sched sls,
  Forall wf sls -> (total_work sls <= fuel)%nat ->
  run_machine orc shell fuel sched sls = map (finish orc shell) sls.
Proof. exact run_machine_finish. Qed.
Print Assumptions C17_async_machine_confluent.

(** every top-level entry is started, and before any process has completed *)
Theorem C17_async_all_started : forall orc shell sched cf k e c,
  In k (async_commands cf) -> In e (entries k) -> In c (entry_head e) ->
  In c (ob_wave (run_async orc shell sched cf)) /\
  In c (ob_started (run_async orc shell sched cf)).
Proof. intros. apply async_all_top_level_started with (k := k) (e := e); assumption. Qed.
Print Assumptions C17_async_all_started.

(** each entry runs its commands up to and including its first non-zero exit, no further;
    entries do not affect each other *)
Theorem C17_async_sublist_stops : forall orc shell sched cf,
  ob_started (run_async orc shell sched cf) =
  flat_map (fun p => upto_bad orc (entry_cmds (snd p))) (aentries (async_commands cf)).
Proof. intros. apply async_started. Qed.
Print Assumptions C17_async_sublist_stops.

(** reading of [upto_bad]: the whole list when all exit 0, else the prefix ending at the
    first that does not *)
Theorem C17_upto_bad_meaning : forall orc,
  (forall l, all_zero orc l -> upto_bad orc l = l) /\
  (forall pre c post, all_zero orc pre -> exit_zero orc c = false ->
                      upto_bad orc (pre ++ c :: post) = pre ++ [c]).
Proof. intro orc. split; [exact (upto_bad_all orc)|exact (upto_bad_split orc)]. Qed.
Print Assumptions C17_upto_bad_meaning.

(** the step succeeds iff every command it ran exited 0 *)
Theorem C17_async_iff_all_zero : forall orc shell sched cf,
  ob_err (run_async orc shell sched cf) = NoError <->
  all_zero orc (ob_started (run_async orc shell sched cf)).
Proof. intros. apply async_ok_iff_ran_all_zero. Qed.
Print Assumptions C17_async_iff_all_zero.

(** otherwise exactly one MultiError, listing every failure of a started command —
    non-zero exits with command and code, spawn errors as raised — in declaration order *)
Theorem C17_async_one_multierror : forall orc shell sched cf,
  ob_err (run_async orc shell sched cf) =
  match all_failures orc shell (async_commands cf) with [] => NoError | l => Multi l end.
Proof. intros. apply async_err. Qed.
Print Assumptions C17_async_one_multierror.

(** cmdOut, for EVERY schedule: one element per top-level entry of every saving Command in
    declaration order — the result object, or for a serial sub-list the list of results of
    the commands it ran, failed ones included; untouched when nothing saves *)
Theorem C17_cmdOut_declaration_order : forall orc shell sched cf,
  ob_out (run_async orc shell sched cf) =
  if any_save (async_commands cf)
  then OutList (flat_map (fun p => if ac_save (fst p)
                                   then [entry_out orc shell (fst p) (snd p)] else [])
                         (aentries (async_commands cf)))
  else OutUnset.
Proof. intros. apply async_out. Qed.
Print Assumptions C17_cmdOut_declaration_order.

(** * Non-vacuity: concrete instances, evaluated *)
Definition orc0 : oracle :=
  oracle_of [("b", Exited 3 "out-b " "err-b"); ("d", Exited 1 "" ""); ("x", SpawnFail "E" "nope")].

(** cmd: [a; {run: [b; c], save}; d] — b exits 3: a and b ran, c and d did not *)
Definition scf0 : sconf :=
  CfList [IStr "a"; IMap (mkSmap (RunList ["b"; "c"]) true false); IStr "d"].

Example C17_serial_nonvacuous :
  sconf_cmds scf0 = ["a"] ++ "b" :: ["c"; "d"]
  /\ all_zero orc0 ["a"] /\ exit_zero orc0 "b" = false
  /\ run_sync orc0 false scf0 =
     mkObs ["a"; "b"] []
           (Raised (PErr "subprocess.CalledProcessError" (VList [VStr "b"]) 3
                         (VStr "out-b ") (VStr "err-b")))
           (OutSingle (R1 (VList [VStr "b"]) 3 (VStr "out-b") (VStr "err-b"))).
Proof. vm_compute. repeat split. Qed.

(** cmds: [a; [b; c]; {run: [d; [e; x; f]], save}] under two different completion orders *)
Definition acf0 : aconf :=
  ACfList [AIStr "a"; AISub ["b"; "c"];
           AIMap (mkAmap (ARunList [AOne "d"; ASer ["e"; "x"; "f"]]) true false)].

Example C17_async_nonvacuous :
  (* the machine really takes different paths ... *)
  step orc0 false 0 (init_slots orc0 (async_commands acf0))
    <> step orc0 false 3 (init_slots orc0 (async_commands acf0))
  (* ... and reports the same *)
  /\ run_async orc0 false ([0; 0; 0; 0; 0])%nat acf0 = run_async orc0 false ([3; 2; 1; 0; 7])%nat acf0
  /\ run_async orc0 false ([3; 2; 1; 0; 7])%nat acf0 =
     mkObs ["a"; "b"; "d"; "e"; "x"] ["a"; "b"; "d"; "e"]
           (Multi [PErr "pypyr.errors.SubprocessError" (VList [VStr "b"]) 3 VNone VNone;
                   PErr "pypyr.errors.SubprocessError" (VList [VStr "d"]) 1 (VBytes "") (VBytes "");
                   PExn "E" "nope"])
           (OutList [EOne (R1 (VList [VStr "d"]) 1 (VBytes "") (VBytes ""));
                     ESer [R1 (VList [VStr "e"]) 0 (VBytes "") (VBytes ""); X1 "E" "nope"]]).
Proof. vm_compute. split; [discriminate|split; reflexivity]. Qed.

Example C17_all_started_nonvacuous :
  In (async_sub ["b"; "c"]) (async_commands acf0)
  /\ In (ASer ["b"; "c"]) (entries (async_sub ["b"; "c"]))
  /\ In "b" (entry_head (ASer ["b"; "c"])).
Proof. vm_compute. auto 10. Qed.
