(** Props/C01.v — step-groups run in order, fail fast, route to success/failure handlers.
    [rg] = the nested run_step_groups (re-entered by call/jump), [rp] = the nested pipeline
    run (pype): every theorem holds for ALL behaviours of nested calls, all step lists, all
    states — i.e. for every pipeline definition and every nesting depth. *)
From PV Require Import Engine EngineProofs Ctl Control CtlProofs.
Open Scope string_scope.
Notation RG := (list val -> option string -> option string -> st -> R).
Notation RP := (string -> option (list string) -> option (list val) -> option string -> option string -> st -> R).

(** steps execute in declaration order: running [a ++ b] is running [a], then — only if [a]
    completed normally — [b] on the state [a] left *)
Theorem C01_steps_in_order : forall (rg : RG) (rp : RP) (a b : list step) (s : st),
  run_steps rg rp (a ++ b) s = andthen (run_steps rg rp a s) (run_steps rg rp b).
Proof. exact run_steps_app. Qed.
Print Assumptions C01_steps_in_order.

(** fail fast inside a group: once a step ends abnormally nothing after it matters *)
Theorem C01_step_failfast : forall (rg : RG) (rp : RP) pre sp post s s1 o s2,
  run_steps rg rp pre s = (OOk, s1) -> run_step rg rp sp s1 = (o, s2) -> o <> OOk ->
  run_steps rg rp (pre ++ sp :: post) s = (o, s2).
Proof. exact run_steps_stops_at. Qed.
Print Assumptions C01_step_failfast.

(** groups run in order, group after group *)
Theorem C01_groups_in_order : forall lib (rg : RG) (rp : RP) (a b : list string) s,
  run_group_seq lib rg rp (a ++ b) s
  = andthen (run_group_seq lib rg rp a s) (run_group_seq lib rg rp b).
Proof. exact run_group_seq_app. Qed.
Print Assumptions C01_groups_in_order.

Theorem C01_group_failfast : forall lib (rg : RG) (rp : RP) pre g post s s1 o s2,
  run_group_seq lib rg rp pre s = (OOk, s1) -> run_group lib rg rp g false s1 = (o, s2) ->
  o <> OOk -> run_group_seq lib rg rp (pre ++ g :: post) s = (o, s2).
Proof. exact run_group_seq_stops_at. Qed.
Print Assumptions C01_group_failfast.

(** the success group runs once, after ALL requested groups completed ... *)
Theorem C01_success_after_all : forall lib (rg : RG) (rp : RP) names sg s s1,
  run_group_seq lib rg rp names s = (OOk, s1) -> sg <> "" ->
  main_part lib rg rp names (Some sg) s = run_group lib rg rp sg false s1.
Proof. exact main_part_all_ok. Qed.
Print Assumptions C01_success_after_all.

(** ... and only then: if a group ended abnormally the success group is irrelevant *)
Theorem C01_success_only_then : forall lib (rg : RG) (rp : RP) names success s o s1,
  run_group_seq lib rg rp names s = (o, s1) -> o <> OOk ->
  main_part lib rg rp names success s = (o, s1).
Proof. exact main_part_not_ok. Qed.
Print Assumptions C01_success_only_then.

(** an error escaped: the failure group runs (once, on the state the error left); the caller
    receives the ORIGINAL error (same identity [e]) whatever the handler does — complete,
    raise its own error — unless the handler itself issues a Stop instruction:
    stopstepgroup = quiet end, stop/stoppipeline propagate as instructions *)
Theorem C01_failure_routing : forall lib (rg : RG) (rp : RP) g gs names success fg s n m e s1,
  names_of (g :: gs) = Some names -> fg <> "" ->
  main_part lib rg rp names success s = (ORaise (RExn n m e), s1) ->
  groups_body lib rg rp (g :: gs) success (Some fg) s =
  match run_group lib rg rp fg true s1 with
  | (ORaise (RSig SStopStepGroup), s2) => (OOk, s2)
  | (ORaise (RSig SStop), s2) => (ORaise (RSig SStop), s2)
  | (ORaise (RSig SStopPipeline), s2) => (ORaise (RSig SStopPipeline), s2)
  | (OUnsup, s2) => (OUnsup, s2)
  | (_, s2) => (ORaise (RExn n m e), s2)
  end.
Proof. exact groups_body_error. Qed.
Print Assumptions C01_failure_routing.

Theorem C01_error_without_handler : forall lib (rg : RG) (rp : RP) g gs names success s n m e s1,
  names_of (g :: gs) = Some names ->
  main_part lib rg rp names success s = (ORaise (RExn n m e), s1) ->
  groups_body lib rg rp (g :: gs) success None s = (ORaise (RExn n m e), s1).
Proof. exact groups_body_error_no_handler. Qed.
Print Assumptions C01_error_without_handler.

(** no error escapes: the run returns normally with the final context *)
Theorem C01_ok_returns_context : forall lib (rg : RG) (rp : RP) g gs names success failure s s1,
  names_of (g :: gs) = Some names ->
  main_part lib rg rp names success s = (OOk, s1) ->
  groups_body lib rg rp (g :: gs) success failure s = (OOk, s1).
Proof. exact groups_body_ok. Qed.
Print Assumptions C01_ok_returns_context.

(** default groups steps / on_success / on_failure only when none of the three is given;
    a failing context parser routes to the failure group and re-raises its own error *)
Theorem C01_defaults : forall (rg : RG) (rfail : string -> st -> R) parser parse groups su fa s,
  run_pipeline_inner rg rfail parser parse groups su fa s =
  match prepare_context parser parse s with
  | (OOk, s0) =>
      match rg (effective_groups groups)
               (if defaulted groups su fa then Some "on_success" else su)
               (if defaulted groups su fa then Some "on_failure" else fa) s0 with
      | (ORaise (RSig SStopPipeline), s1) => (OOk, s1)
      | r => r
      end
  | (ORaise (RExn n m e), s0) =>
      match (if defaulted groups su fa then Some "on_failure" else fa) with
      | Some (String _ _ as fg) =>
          match rfail fg s0 with
          | (ORaise (RSig SStopStepGroup), s1) | (OOk, s1) => (ORaise (RExn n m e), s1)
          | (ORaise (RSig SStopPipeline), s1) => (OOk, s1)
          | r => r
          end
      | _ => (ORaise (RExn n m e), s0)
      end
  | r => r
  end.
Proof. exact run_pipeline_inner_unfold. Qed.
Print Assumptions C01_defaults.

Theorem C01_api_ok : forall fuel lib name d gs su fa j s1,
  run_pipeline fuel lib name None gs su fa (mkst d [] [] [] 0 j) = (OOk, s1) ->
  api_run fuel lib name d gs su fa j = (OOk, s1).
Proof. exact api_run_ok. Qed.
Print Assumptions C01_api_ok.

Theorem C01_api_error : forall fuel lib name d gs su fa j s1 n m e,
  run_pipeline fuel lib name None gs su fa (mkst d [] [] [] 0 j) = (ORaise (RExn n m e), s1) ->
  api_run fuel lib name d gs su fa j = (ORaise (RExn n m e), s1).
Proof. exact api_run_error. Qed.
Print Assumptions C01_api_error.

(** whole-program fact (induction on fuel): for EVERY library and fuel the probe trace and the
    clock only grow, and the pipeline call-stack is what it was *)
Theorem C01_history_monotone : forall fuel lib gs su fa, good (run_groups fuel lib gs su fa).
Proof. exact good_run_groups. Qed.
Print Assumptions C01_history_monotone.

(** a whole-program instance, for step lists of ANY length: straight-line probe steps run
    through the complete step machinery (in-arguments set, run/skip evaluated, body invoked,
    in-arguments removed) record exactly their tags, in declaration order, and leave the context
    as it was *)
Theorem C01_straight_line : forall (rg : RG) (rp : RP) tags s,
  sget "ptag" (ctx s) = None -> sget "pwatch" (ctx s) = None ->
  run_steps rg rp (map plain_probe tags) s =
  (OOk, mkst (ctx s) (stack s) (trace s ++ map (probe_event s) tags) (sleeps s) (next_eid s) (jit s)).
Proof. exact run_steps_plain_probes. Qed.
Print Assumptions C01_straight_line.

(** * Non-vacuity: a concrete pipeline through the whole interpreter *)
Definition probe (tag : string) : step :=
  mkstep "vprobe" BProbe (Some [(VStr "ptag", VStr tag)]) None None None
         (VBool true) (VBool false) (VBool false) None (Some (1, 5)%Z) None.
Definition boom : step :=
  mkstep "vfail" BFail (Some [(VStr "vfail", VDict [(VStr "err", VStr "ValueError"); (VStr "msg", VStr "boom")])])
         None None None (VBool true) (VBool false) (VBool false) None (Some (2, 5)%Z) None.
Definition lib0 : library :=
  [("main", [("steps", Some [probe "a"; boom; probe "never"]);
             ("on_success", Some [probe "success"]);
             ("on_failure", Some [probe "handler"; boom])])].

Definition tags (r : R) : list val :=
  map (fun e => match e with VList (t :: _) => t | _ => VNone end) (trace (snd r)).

Example C01_nonvacuous :
  let r := api_run EFUEL lib0 "main" [] None None None (1 # 4) in
  tags r = [VStr "a"; VStr "handler"] /\
  fst r = ORaise (RExn "ValueError" "boom" 0).
Proof. vm_compute. split; reflexivity. Qed.

(** * Tie B: the routing ladder READ FROM THE SOURCE is the model's ladder.
    [gen_run_step_groups] is generated on every run by tools/py2coq_ctl.py from the statements of
    [StepsRunner.run_step_groups] (and, through it, run_step_group, run_failure_step_group,
    run_pipeline_steps, get_pipeline_steps, and the class table of pypyr/errors.py).  For every
    library, every behaviour of nested calls that keeps the call stack balanced, every group list
    and every state, it computes exactly [groups_body], about which the theorems above speak. *)
Theorem C01_source_ladder_is_model : forall lib (rg : RG) (rp : RP),
  (forall gs su fa, good (rg gs su fa)) -> (forall n pr gs su fa, good (rp n pr gs su fa)) ->
  forall names groups success failure s,
  names_of groups = Some names ->
  gen_run_step_groups (run_step rg rp) rg (pipeline_of lib s) names success failure s
  = groups_body lib rg rp groups success failure s.
Proof. exact gen_run_step_groups_is_model. Qed.
Print Assumptions C01_source_ladder_is_model.

Theorem C01_source_step_loop_is_model : forall (rg : RG) (rp : RP) steps s,
  gen_run_pipeline_steps (run_step rg rp) steps s = run_steps rg rp (steps_or_nil steps) s.
Proof. exact gen_run_pipeline_steps_is_model. Qed.
Print Assumptions C01_source_step_loop_is_model.

(** the entry of a pipeline READ FROM THE SOURCE ([Pipeline._run_pipeline], with the default group
    names read from [Config.__init__]): groups default to [steps] when none are given, the handlers
    to on_success / on_failure only when no group and no handler at all was given; the runner is
    installed before the context parser runs; a parser error routes to the failure group, whose own
    StopStepGroup / completion re-raises the parser's error; StopPipeline ends this pipeline only.
    It is the model's [run_pipeline_inner] for every parser behaviour, argument choice and state. *)
Theorem C01_source_pipeline_entry_is_model : forall (rg : RG) (rfail : string -> st -> R)
    parser parse groups success failure s,
  gen_run_pipeline groups success failure (prepare_context parser parse) rg (rfail_prim rfail) s
  = run_pipeline_inner rg rfail parser parse groups success failure s.
Proof. exact gen_run_pipeline_is_model. Qed.
Print Assumptions C01_source_pipeline_entry_is_model.

(** closed form of the tie: at every fuel the engine is the ladder generated from the source, run
    over the engine one level down — nothing is assumed about nested calls any more *)
Theorem C01_source_engine_closed : forall fuel lib names groups success failure s,
  names_of groups = Some names ->
  gen_run_step_groups (run_step (run_groups fuel lib) (run_pipe fuel lib)) (run_groups fuel lib)
                      (pipeline_of lib s) names success failure s
  = run_groups (S fuel) lib groups success failure s.
Proof. exact gen_engine_closed. Qed.
Print Assumptions C01_source_engine_closed.
