(** Props/C01.v — placeholder, to be written. *)
