(** Base/PyVal.v — the value universe shared by every model: Python values as far as
    pypyr's context, formatter and step decorators distinguish them. *)
From Coq Require Export QArith.
From PV Require Export PyStr.
Open Scope string_scope.

(** * A small expression language for [!py] strings.
    The harness generates these as ASTs and renders them to Python source; the model
    never parses Python. *)
Inductive cmpop := CEq | CNe | CLt | CLe | CGt | CGe.

Inductive pyexpr : Type :=
| ENone
| EBool (b : bool)
| EInt (z : Z)
| EStr (s : string)
| EName (x : string)
| EList (l : list pyexpr)
| ETuple (l : list pyexpr)
| ECmp (op : cmpop) (a b : pyexpr)
| EAnd (a b : pyexpr)
| EOr (a b : pyexpr)
| ENot (a : pyexpr)
| EAdd (a b : pyexpr)
| ESub (a b : pyexpr)
| EMul (a b : pyexpr)
| ELen (a : pyexpr)
| EIn (a b : pyexpr)
| EIndex (a b : pyexpr)
| EWalrus (x : string) (a : pyexpr)      (* (x := a) *)
| ELambdaCall (x : string) (body arg : pyexpr)   (* (lambda x: body)(arg) *)
| EListComp (body : pyexpr) (x : string) (src : pyexpr)  (* [body for x in src] *).

(** * Values *)
Inductive val : Type :=
| VNone
| VBool (b : bool)
| VInt (z : Z)
| VFloat (q : Q)
| VStr (s : string)
| VBytes (s : string)
| VList (l : list val)
| VTuple (l : list val)
| VSet (l : list val)                  (* canonical: sorted, duplicate-free scalars *)
| VDict (l : list (val * val))         (* insertion-ordered, unique keys *)
| VPy (src : string) (e : pyexpr)      (* !py  — [src] is the rendered source of [e] *)
| VSic (s : string)                    (* !sic *)
| VJsonify (v : val)                   (* !jsonify *)
| VObj (id : Z)                        (* opaque object, identified by first-seen index *)
| VExn (name msg : string) (eid : Z).  (* an exception object *)

Definition dict := list (val * val).

(** Results of model functions that can raise. [Unsup] marks inputs outside the
    modelled fragment: the harness skips and counts such cases. *)
Inductive res (A : Type) : Type :=
| Ok (a : A)
| Err (name msg : string)
| Unsup.
Arguments Ok {A} a.
Arguments Err {A} name msg.
Arguments Unsup {A}.

Definition bind {A B} (r : res A) (f : A -> res B) : res B :=
  match r with Ok a => f a | Err n m => Err n m | Unsup => Unsup end.
Notation "'let*' x ':=' r 'in' k" := (bind r (fun x => k))
  (at level 200, x pattern, r at level 100, k at level 200, right associativity).

Fixpoint mapM {A B} (f : A -> res B) (l : list A) : res (list B) :=
  match l with
  | [] => Ok []
  | x :: r => let* y := f x in let* ys := mapM f r in Ok (y :: ys)
  end.

(** * Structural equality (used to compare observations; distinguishes [True] from [1]) *)
Definition cmpop_eqb (a b : cmpop) : bool :=
  match a, b with
  | CEq, CEq | CNe, CNe | CLt, CLt | CLe, CLe | CGt, CGt | CGe, CGe => true
  | _, _ => false
  end.

Fixpoint pyexpr_eqb (a b : pyexpr) : bool :=
  let fix go (l1 l2 : list pyexpr) : bool :=
    match l1, l2 with
    | [], [] => true
    | x :: xs, y :: ys => pyexpr_eqb x y && go xs ys
    | _, _ => false
    end in
  match a, b with
  | ENone, ENone => true
  | EBool x, EBool y => Bool.eqb x y
  | EInt x, EInt y => Z.eqb x y
  | EStr x, EStr y => String.eqb x y
  | EName x, EName y => String.eqb x y
  | EList x, EList y => go x y
  | ETuple x, ETuple y => go x y
  | ECmp o a1 b1, ECmp o' a2 b2 => cmpop_eqb o o' && pyexpr_eqb a1 a2 && pyexpr_eqb b1 b2
  | EAnd a1 b1, EAnd a2 b2 | EOr a1 b1, EOr a2 b2 | EAdd a1 b1, EAdd a2 b2
  | ESub a1 b1, ESub a2 b2 | EMul a1 b1, EMul a2 b2
  | EIn a1 b1, EIn a2 b2 | EIndex a1 b1, EIndex a2 b2 => pyexpr_eqb a1 a2 && pyexpr_eqb b1 b2
  | ENot a1, ENot a2 | ELen a1, ELen a2 => pyexpr_eqb a1 a2
  | EWalrus x a1, EWalrus y a2 => String.eqb x y && pyexpr_eqb a1 a2
  | ELambdaCall x a1 b1, ELambdaCall y a2 b2 => String.eqb x y && pyexpr_eqb a1 a2 && pyexpr_eqb b1 b2
  | EListComp a1 x b1, EListComp a2 y b2 => String.eqb x y && pyexpr_eqb a1 a2 && pyexpr_eqb b1 b2
  | _, _ => false
  end.

Definition Q_eqb (a b : Q) : bool :=
  Z.eqb (Qnum a) (Qnum b) && Pos.eqb (Qden a) (Qden b).

Fixpoint val_eqb (a b : val) : bool :=
  let fix go (l1 l2 : list val) : bool :=
    match l1, l2 with
    | [], [] => true
    | x :: xs, y :: ys => val_eqb x y && go xs ys
    | _, _ => false
    end in
  let fix god (l1 l2 : list (val * val)) : bool :=
    match l1, l2 with
    | [], [] => true
    | (k1, v1) :: xs, (k2, v2) :: ys => val_eqb k1 k2 && val_eqb v1 v2 && god xs ys
    | _, _ => false
    end in
  match a, b with
  | VNone, VNone => true
  | VBool x, VBool y => Bool.eqb x y
  | VInt x, VInt y => Z.eqb x y
  | VFloat x, VFloat y => Q_eqb x y
  | VStr x, VStr y => String.eqb x y
  | VBytes x, VBytes y => String.eqb x y
  | VList x, VList y => go x y
  | VTuple x, VTuple y => go x y
  | VSet x, VSet y => go x y
  | VDict x, VDict y => god x y
  | VPy s1 e1, VPy s2 e2 => String.eqb s1 s2 && pyexpr_eqb e1 e2
  | VSic x, VSic y => String.eqb x y
  | VJsonify x, VJsonify y => val_eqb x y
  | VObj x, VObj y => Z.eqb x y
  | VExn n1 m1 i1, VExn n2 m2 i2 => String.eqb n1 n2 && String.eqb m1 m2 && Z.eqb i1 i2
  | _, _ => false
  end.

Fixpoint list_eqb {A} (eqb : A -> A -> bool) (l1 l2 : list A) : bool :=
  match l1, l2 with
  | [], [] => true
  | x :: xs, y :: ys => eqb x y && list_eqb eqb xs ys
  | _, _ => false
  end.

Definition dict_eqb (a b : dict) : bool := val_eqb (VDict a) (VDict b).

Definition res_eqb {A} (eqb : A -> A -> bool) (a b : res A) : bool :=
  match a, b with
  | Ok x, Ok y => eqb x y
  | Err n m, Err n' m' => String.eqb n n' && String.eqb m m'
  | _, _ => false
  end.

Definition is_unsup {A} (r : res A) : bool := match r with Unsup => true | _ => false end.

(** * Dictionaries: insertion-ordered association lists *)
Fixpoint dict_get (k : val) (d : dict) : option val :=
  match d with
  | [] => None
  | (k', v) :: r => if val_eqb k k' then Some v else dict_get k r
  end.

Definition dict_has (k : val) (d : dict) : bool :=
  match dict_get k d with Some _ => true | None => false end.

(** Python [d[k] = v]: update in place when present, append otherwise. *)
Fixpoint dict_set (k v : val) (d : dict) : dict :=
  match d with
  | [] => [(k, v)]
  | (k', v') :: r => if val_eqb k k' then (k', v) :: r else (k', v') :: dict_set k v r
  end.

Fixpoint dict_del (k : val) (d : dict) : dict :=
  match d with
  | [] => []
  | (k', v') :: r => if val_eqb k k' then r else (k', v') :: dict_del k r
  end.

(** Python [d.update(e)]. *)
Definition dict_update (d e : dict) : dict :=
  fold_left (fun acc kv => dict_set (fst kv) (snd kv) acc) e d.

Definition dict_keys (d : dict) : list val := map fst d.

Definition sget (k : string) (d : dict) : option val := dict_get (VStr k) d.
Definition sset (k : string) (v : val) (d : dict) : dict := dict_set (VStr k) v d.
Definition shas (k : string) (d : dict) : bool := dict_has (VStr k) d.
Definition sdel (k : string) (d : dict) : dict := dict_del (VStr k) d.

(** * Python truthiness ([bool(x)]) *)
Definition is_nil {A} (l : list A) : bool := match l with [] => true | _ => false end.

Fixpoint py_truth (v : val) : bool :=
  match v with
  | VNone => false
  | VBool b => b
  | VInt z => negb (Z.eqb z 0)
  | VFloat q => negb (Z.eqb (Qnum q) 0)
  | VStr s | VBytes s => negb (String.eqb s "")
  | VList l | VTuple l | VSet l => negb (is_nil l)
  | VDict l => negb (is_nil l)
  | VPy s _ => negb (String.eqb s "")
  | VSic s => negb (String.eqb s "")
  | VJsonify v => py_truth v
  | VObj _ => true
  | VExn _ _ _ => true
  end.

(** * Python [==] *)
Definition as_num (v : val) : option Q :=
  match v with
  | VBool b => Some (if b then 1 else 0)%Q
  | VInt z => Some (inject_Z z)
  | VFloat q => Some q
  | _ => None
  end.

Fixpoint py_eq (a b : val) : bool :=
  let fix go (l1 l2 : list val) : bool :=
    match l1, l2 with
    | [], [] => true
    | x :: xs, y :: ys => py_eq x y && go xs ys
    | _, _ => false
    end in
  (* dict equality is order-insensitive: every (k,v) of l1 has an equal value under k in l2 *)
  let fix sub (l1 : list (val * val)) (l2 : list (val * val)) : bool :=
    match l1 with
    | [] => true
    | (k, v) :: xs =>
        (fix find (l : list (val * val)) : bool :=
           match l with
           | [] => false
           | (k', v') :: r => if val_eqb k k' then py_eq v v' else find r
           end) l2 && sub xs l2
    end in
  match a, b with
  | VNone, VNone => true
  | VStr x, VStr y => String.eqb x y
  | VBytes x, VBytes y => String.eqb x y
  | VList x, VList y => go x y
  | VTuple x, VTuple y => go x y
  | VSet x, VSet y => go x y
  | VDict x, VDict y => Nat.eqb (List.length x) (List.length y) && sub x y
  | VPy s1 _, VPy s2 _ => String.eqb s1 s2
  | VSic x, VSic y => String.eqb x y
  | VJsonify x, VJsonify y => val_eqb x y
  | VObj x, VObj y => Z.eqb x y
  | VExn _ _ i1, VExn _ _ i2 => Z.eqb i1 i2
  | _, _ =>
      match as_num a, as_num b with
      | Some x, Some y => Qeq_bool x y
      | _, _ => false
      end
  end.

Fixpoint py_in (x : val) (l : list val) : bool :=
  match l with [] => false | y :: r => py_eq x y || py_in x r end.

(** * [str()] / [repr()] for the value universe; [None] = outside the modelled fragment *)
Definition hex_digit (n : nat) : ascii :=
  if Nat.ltb n 10 then ascii_of_nat (48 + n) else ascii_of_nat (87 + n).

Definition hex2 (n : nat) : string :=
  String (hex_digit (n / 16)) (String (hex_digit (n mod 16)) EmptyString).

Fixpoint repr_body (q : ascii) (s : string) : string :=
  match s with
  | EmptyString => EmptyString
  | String c r =>
      let n := nat_of_ascii c in
      let rest := repr_body q r in
      if Ascii.eqb c "\"%char then "\\" ++ rest
      else if Ascii.eqb c q then String "\"%char (String c rest)
      else if Nat.eqb n 10 then "\n" ++ rest
      else if Nat.eqb n 13 then "\r" ++ rest
      else if Nat.eqb n 9 then "\t" ++ rest
      else if Nat.ltb n 32 || Nat.eqb n 127 then "\x" ++ hex2 n ++ rest
      else String c rest
  end.

Definition squote : ascii := "'"%char.
Definition dquote : ascii := """"%char.

Definition repr_str (s : string) : string :=
  let q := if contains_char squote s && negb (contains_char dquote s) then dquote else squote in
  String q (repr_body q s ++ String q EmptyString).

(** bytes repr: like str but [b] prefix and every byte >= 128 escaped. *)
Fixpoint repr_bytes_body (q : ascii) (s : string) : string :=
  match s with
  | EmptyString => EmptyString
  | String c r =>
      let n := nat_of_ascii c in
      let rest := repr_bytes_body q r in
      if Ascii.eqb c "\"%char then "\\" ++ rest
      else if Ascii.eqb c q then String "\"%char (String c rest)
      else if Nat.eqb n 10 then "\n" ++ rest
      else if Nat.eqb n 13 then "\r" ++ rest
      else if Nat.eqb n 9 then "\t" ++ rest
      else if Nat.ltb n 32 || Nat.leb 127 n then "\x" ++ hex2 n ++ rest
      else String c rest
  end.

Definition repr_bytes (s : string) : string :=
  let q := if contains_char squote s && negb (contains_char dquote s) then dquote else squote in
  "b" ++ String q (repr_bytes_body q s ++ String q EmptyString).

(** float repr for dyadic rationals of small size (what the generators emit). *)
Fixpoint frac_digits (fuel : nat) (num den : Z) : string :=
  match fuel with
  | O => EmptyString
  | S f =>
      if Z.eqb num 0 then EmptyString
      else String (digit_char (num * 10 / den)%Z) (frac_digits f ((num * 10) mod den)%Z den)
  end.

Definition is_pow2 (p : positive) : bool := Z.eqb (2 ^ Z.log2 (Zpos p)) (Zpos p).

Definition repr_float (q : Q) : option string :=
  let n := Qnum q in let d := Zpos (Qden q) in
  if negb (is_pow2 (Qden q)) || (1024 <? d)%Z || (1000000000000000 <=? Z.abs n / d)%Z
     || negb (Z.eqb (Z.gcd n d) 1) then None
  else
    let a := Z.abs n in
    let ip := (a / d)%Z in
    let fr := frac_digits 12 (a mod d)%Z d in
    Some ((if (n <? 0)%Z then "-" else "") ++ str_of_nonneg ip ++ "." ++
          (if String.eqb fr "" then "0" else fr)).

Definition opt_bind {A B} (o : option A) (f : A -> option B) : option B :=
  match o with Some a => f a | None => None end.

Fixpoint opt_mapM {A B} (f : A -> option B) (l : list A) : option (list B) :=
  match l with
  | [] => Some []
  | x :: r => opt_bind (f x) (fun y => opt_bind (opt_mapM f r) (fun ys => Some (y :: ys)))
  end.

Fixpoint py_repr (v : val) : option string :=
  let fix reprs (l : list val) : option (list string) :=
    match l with
    | [] => Some []
    | x :: r => opt_bind (py_repr x) (fun y => opt_bind (reprs r) (fun ys => Some (y :: ys)))
    end in
  let fix reprd (l : list (val * val)) : option (list string) :=
    match l with
    | [] => Some []
    | (k, x) :: r =>
        opt_bind (py_repr k) (fun ks => opt_bind (py_repr x) (fun xs =>
        opt_bind (reprd r) (fun ys => Some ((ks ++ ": " ++ xs) :: ys))))
    end in
  match v with
  | VNone => Some "None"
  | VBool true => Some "True"
  | VBool false => Some "False"
  | VInt z => Some (str_of_Z z)
  | VFloat q => repr_float q
  | VStr s => Some (repr_str s)
  | VBytes s => Some (repr_bytes s)
  | VList l => opt_bind (reprs l) (fun ss => Some ("[" ++ join ", " ss ++ "]"))
  | VTuple l =>
      opt_bind (reprs l) (fun ss =>
        match ss with
        | [x] => Some ("(" ++ x ++ ",)")
        | _ => Some ("(" ++ join ", " ss ++ ")")
        end)
  | VSet l =>
      match l with
      | [] => Some "set()"
      | [x] => opt_bind (py_repr x) (fun s => Some ("{" ++ s ++ "}"))
      | _ => None   (* iteration order of a set is hash-dependent *)
      end
  | VDict l => opt_bind (reprd l) (fun ss => Some ("{" ++ join ", " ss ++ "}"))
  | VPy s _ => Some ("PyString(" ++ repr_str s ++ ")")
  | VSic s => Some ("SicString(" ++ repr_str s ++ ")")
  | VJsonify x => opt_bind (py_repr x) (fun s => Some ("Jsonify(" ++ s ++ ")"))
  | VObj _ => None
  | VExn _ _ _ => None
  end.

Fixpoint py_str (v : val) : option string :=
  match v with
  | VStr s => Some s
  | VPy s _ => Some s
  | VSic s => Some s
  | VJsonify x => py_str x        (* SpecialTagDirective.__str__ = str(self.value) *)
  | VExn _ m _ => Some m
  | _ => py_repr v
  end.

(** * [json.dumps(v)] with default arguments (ensure_ascii, separators ", " / ": ") *)
Fixpoint all_ascii (s : string) : bool :=
  match s with
  | EmptyString => true
  | String c r => Nat.ltb (nat_of_ascii c) 128 && all_ascii r
  end.

(** ASCII-only escape body (kept for Model/Codec.v, whose printer has ensure_ascii=False) *)
Fixpoint json_str_body (s : string) : string :=
  match s with
  | EmptyString => EmptyString
  | String c r =>
      let n := nat_of_ascii c in
      let rest := json_str_body r in
      if Ascii.eqb c dquote then "\""" ++ rest
      else if Ascii.eqb c "\"%char then "\\" ++ rest
      else if Nat.eqb n 10 then "\n" ++ rest
      else if Nat.eqb n 13 then "\r" ++ rest
      else if Nat.eqb n 9 then "\t" ++ rest
      else if Nat.eqb n 8 then "\b" ++ rest
      else if Nat.eqb n 12 then "\f" ++ rest
      else if Nat.ltb n 32 then "\u00" ++ hex2 n ++ rest
      else String c rest
  end.

Definition hexz (z : Z) : ascii := hex_digit (Z.to_nat (z mod 16)).

Definition hex4 (z : Z) : string :=
  String (hexz (z / 4096)) (String (hexz (z / 256)) (String (hexz (z / 16)) (String (hexz z) EmptyString))).

Definition u_escape (cp : Z) : string :=
  if (cp <? 65536)%Z then "\u" ++ hex4 cp
  else let c := (cp - 65536)%Z in
       "\u" ++ hex4 (55296 + c / 1024) ++ "\u" ++ hex4 (56320 + c mod 1024).

Definition zb (c : ascii) : Z := Z.of_nat (nat_of_ascii c).

Definition is_cont (c : ascii) : bool :=
  let n := nat_of_ascii c in Nat.leb 128 n && Nat.ltb n 192.

(** body of a JSON string as [json.dumps] (ensure_ascii=True) writes it; the input is UTF-8,
    non-ASCII code points become \uXXXX (surrogate pairs above the BMP); [None] on malformed UTF-8 *)
Fixpoint json_str_body_u (s : string) : option string :=
  match s with
  | EmptyString => Some EmptyString
  | String c r =>
      let n := nat_of_ascii c in
      let ascii_case :=
          opt_bind (json_str_body_u r) (fun rest =>
          Some (if Ascii.eqb c dquote then "\""" ++ rest
                else if Ascii.eqb c "\"%char then "\\" ++ rest
                else if Nat.eqb n 10 then "\n" ++ rest
                else if Nat.eqb n 13 then "\r" ++ rest
                else if Nat.eqb n 9 then "\t" ++ rest
                else if Nat.eqb n 8 then "\b" ++ rest
                else if Nat.eqb n 12 then "\f" ++ rest
                else if Nat.ltb n 32 then "\u00" ++ hex2 n ++ rest
                else String c rest)) in
      if Nat.ltb n 128 then ascii_case
      else if Nat.ltb n 192 then None
      else if Nat.ltb n 224 then
        match r with
        | String c2 r2 =>
            if is_cont c2 then
              opt_bind (json_str_body_u r2) (fun rest =>
              Some (u_escape ((zb c - 192) * 64 + (zb c2 - 128))%Z ++ rest))
            else None
        | _ => None
        end
      else if Nat.ltb n 240 then
        match r with
        | String c2 (String c3 r3) =>
            if is_cont c2 && is_cont c3 then
              opt_bind (json_str_body_u r3) (fun rest =>
              Some (u_escape ((zb c - 224) * 4096 + (zb c2 - 128) * 64 + (zb c3 - 128))%Z ++ rest))
            else None
        | _ => None
        end
      else if Nat.ltb n 248 then
        match r with
        | String c2 (String c3 (String c4 r4)) =>
            if is_cont c2 && is_cont c3 && is_cont c4 then
              opt_bind (json_str_body_u r4) (fun rest =>
              Some (u_escape ((zb c - 240) * 262144 + (zb c2 - 128) * 4096
                              + (zb c3 - 128) * 64 + (zb c4 - 128))%Z ++ rest))
            else None
        | _ => None
        end
      else None
  end.

Definition json_str (s : string) : option string :=
  opt_bind (json_str_body_u s) (fun b => Some (String dquote (b ++ String dquote EmptyString))).

Fixpoint json_dumps (v : val) : option string :=
  let fix items (l : list val) : option (list string) :=
    match l with
    | [] => Some []
    | x :: r => opt_bind (json_dumps x) (fun y => opt_bind (items r) (fun ys => Some (y :: ys)))
    end in
  let fix pairs (l : list (val * val)) : option (list string) :=
    match l with
    | [] => Some []
    | (k, x) :: r =>
        match k with
        | VStr ks =>
            opt_bind (json_str ks) (fun kj => opt_bind (json_dumps x) (fun xs =>
            opt_bind (pairs r) (fun ys => Some ((kj ++ ": " ++ xs) :: ys))))
        | _ => None
        end
    end in
  match v with
  | VNone => Some "null"
  | VBool true => Some "true"
  | VBool false => Some "false"
  | VInt z => Some (str_of_Z z)
  | VFloat q => repr_float q
  | VStr s => json_str s
  | VList l | VTuple l => opt_bind (items l) (fun ss => Some ("[" ++ join ", " ss ++ "]"))
  | VDict l => opt_bind (pairs l) (fun ss => Some ("{" ++ join ", " ss ++ "}"))
  | _ => None
  end.

(** * Sets: canonical sorted lists over scalar members *)
Definition scalar_key (v : val) : option (Z * string) :=
  match v with
  | VInt z => Some (z, "")
  | VStr s => Some (0%Z, String "s"%char s)
  | _ => None
  end.

Definition key_ltb (a b : Z * string) : bool :=
  match String.compare (snd a) (snd b) with
  | Lt => true
  | Gt => false
  | Eq => (fst a <? fst b)%Z
  end.

Fixpoint set_insert (v : val) (l : list val) : option (list val) :=
  match scalar_key v with
  | None => None
  | Some kv =>
      match l with
      | [] => Some [v]
      | x :: r =>
          match scalar_key x with
          | None => None
          | Some kx =>
              if val_eqb v x then Some l
              else if key_ltb kv kx then Some (v :: l)
              else opt_bind (set_insert v r) (fun r' => Some (x :: r'))
          end
      end
  end.

Fixpoint set_of_list (l : list val) : option (list val) :=
  match l with
  | [] => Some []
  | x :: r => opt_bind (set_of_list r) (set_insert x)
  end.

(** * Verdict codes used by the correspondence shards: 0 agree, 1 disagree, 2 outside the model *)
Definition verdict {A} (eqb : A -> A -> bool) (model obs : res A) : nat :=
  match model with
  | Unsup => 2%nat
  | _ => if res_eqb eqb model obs then 0%nat else 1%nat
  end.
