(** Base/PyStr.v — byte strings and the handful of Python [str] methods the models use.
    Strings are Coq [string]s of bytes; the harness encodes Python [str] as UTF-8.
    Only ASCII case folding is modelled. *)
From Coq Require Export String Ascii List ZArith Bool.
From Coq Require Import Lia.
Export ListNotations.
Open Scope string_scope.

Definition chr (n : nat) : string := String (ascii_of_nat n) EmptyString.

Definition is_upper (c : ascii) : bool :=
  let n := nat_of_ascii c in andb (Nat.leb 65 n) (Nat.leb n 90).

Definition lower_ascii (c : ascii) : ascii :=
  if is_upper c then ascii_of_nat (nat_of_ascii c + 32) else c.

Fixpoint lower (s : string) : string :=
  match s with
  | EmptyString => EmptyString
  | String c r => String (lower_ascii c) (lower r)
  end.

Definition is_digit (c : ascii) : bool :=
  let n := nat_of_ascii c in andb (Nat.leb 48 n) (Nat.leb n 57).

Fixpoint all_digits (s : string) : bool :=
  match s with
  | EmptyString => true
  | String c r => andb (is_digit c) (all_digits r)
  end.

(** Python's [str.isdigit] on ASCII: non-empty and all digits. *)
Definition isdigit (s : string) : bool :=
  match s with EmptyString => false | _ => all_digits s end.

Fixpoint str_in (s : string) (l : list string) : bool :=
  match l with
  | [] => false
  | x :: r => orb (String.eqb s x) (str_in s r)
  end.

(** [partition_first c s] = Python [s.partition(c)] for a one-character separator:
    [(before, found, after)]. *)
Fixpoint partition_first (c : ascii) (s : string) : string * bool * string :=
  match s with
  | EmptyString => (EmptyString, false, EmptyString)
  | String d r =>
      if Ascii.eqb c d then (EmptyString, true, r)
      else let '(a, f, b) := partition_first c r in (String d a, f, b)
  end.

Fixpoint join (sep : string) (l : list string) : string :=
  match l with
  | [] => EmptyString
  | [x] => x
  | x :: r => x ++ sep ++ join sep r
  end.

Fixpoint contains_char (c : ascii) (s : string) : bool :=
  match s with
  | EmptyString => false
  | String d r => orb (Ascii.eqb c d) (contains_char c r)
  end.

Fixpoint str_rev_aux (s acc : string) : string :=
  match s with
  | EmptyString => acc
  | String c r => str_rev_aux r (String c acc)
  end.
Definition str_rev (s : string) : string := str_rev_aux s EmptyString.

(** Decimal rendering of integers, Python [str(int)]. *)
Definition digit_char (n : Z) : ascii := ascii_of_nat (48 + Z.to_nat n).

Fixpoint pos_digits (fuel : nat) (n : Z) (acc : string) : string :=
  match fuel with
  | O => acc
  | S f =>
      if (n <? 10)%Z then String (digit_char n) acc
      else pos_digits f (n / 10)%Z (String (digit_char (n mod 10)%Z) acc)
  end.

Definition str_of_nonneg (n : Z) : string :=
  pos_digits (S (Z.to_nat (Z.log2 n))) n EmptyString.

Definition str_of_Z (z : Z) : string :=
  if (z <? 0)%Z then String "-"%char (str_of_nonneg (- z)) else str_of_nonneg z.

Fixpoint repeat_char (c : ascii) (n : nat) : string :=
  match n with O => EmptyString | S m => String c (repeat_char c m) end.

Definition startswith (p s : string) : bool := String.prefix p s.

(** Parse a non-empty all-digit string to Z. *)
Fixpoint digits_to_Z (s : string) (acc : Z) : Z :=
  match s with
  | EmptyString => acc
  | String c r => digits_to_Z r (acc * 10 + Z.of_nat (nat_of_ascii c - 48))%Z
  end.

(** Split on a single character (Python [s.split(c)]). *)
Fixpoint split_on (c : ascii) (s : string) (cur : string) : list string :=
  match s with
  | EmptyString => [str_rev cur]
  | String d r =>
      if Ascii.eqb c d then str_rev cur :: split_on c r EmptyString
      else split_on c r (String d cur)
  end.

(** * Lemmas *)

Lemma lower_ascii_idem c : lower_ascii (lower_ascii c) = lower_ascii c.
Proof.
  unfold lower_ascii.
  destruct (is_upper c) eqn:E; [|rewrite E; reflexivity].
  unfold is_upper in *.
  apply andb_true_iff in E. destruct E as [E1 E2].
  apply Nat.leb_le in E1. apply Nat.leb_le in E2.
  rewrite nat_ascii_embedding by lia.
  assert (H : Nat.leb (nat_of_ascii c + 32) 90 = false) by (apply Nat.leb_gt; lia).
  rewrite H, andb_false_r. reflexivity.
Qed.

Lemma lower_idem s : lower (lower s) = lower s.
Proof. induction s as [|c r IH]; simpl; [reflexivity|]. now rewrite lower_ascii_idem, IH. Qed.

Lemma partition_first_join c s a b :
  partition_first c s = (a, true, b) -> s = a ++ String c b.
Proof.
  revert a b; induction s as [|d r IH]; simpl; intros a b H; [discriminate|].
  destruct (Ascii.eqb c d) eqn:E.
  - apply Ascii.eqb_eq in E; subst d. inversion H; subst. reflexivity.
  - destruct (partition_first c r) as [[a' f'] b'] eqn:P.
    inversion H; subst. simpl. f_equal. now apply IH.
Qed.

Lemma partition_first_nosep c s a b :
  partition_first c s = (a, false, b) -> a = s /\ b = EmptyString /\ contains_char c s = false.
Proof.
  revert a b; induction s as [|d r IH]; simpl; intros a b H.
  - inversion H; auto.
  - destruct (Ascii.eqb c d) eqn:E; [discriminate|].
    destruct (partition_first c r) as [[a' f'] b'] eqn:P.
    inversion H; subst. destruct (IH _ _ eq_refl) as (-> & -> & ->). auto.
Qed.

Lemma partition_first_before_nosep c s a f b :
  partition_first c s = (a, f, b) -> contains_char c a = false.
Proof.
  revert a f b; induction s as [|d r IH]; simpl; intros a f b H.
  - inversion H; reflexivity.
  - destruct (Ascii.eqb c d) eqn:E.
    + inversion H; reflexivity.
    + destruct (partition_first c r) as [[a' f'] b'] eqn:P.
      inversion H; subst. simpl. rewrite E. simpl. eapply IH; eauto.
Qed.
