#!/bin/sh
# MANIFEST.setup_cmd: full offline build of the Coq development (every .vo, no -vos).
set -e
cd "$(dirname "$0")/coq"
mkdir -p cases
for t in ../tools/py2coq*.py; do /venv/bin/python "$t" >/dev/null; done
flock .build.lock coq_makefile -f _CoqProject -o Makefile >/dev/null
if ! flock .build.lock timeout 3000 make -j16 > .setup.log 2>&1; then
  tail -40 .setup.log; echo "setup: make failed" >&2; exit 1
fi
tail -3 .setup.log
# fail-closed self-grep: nothing in the development may declare an axiom
if grep -rnE '\b(Admitted|admit|Axiom|Parameter|Conjecture)\b|Unset Guard|bypass_check' theories --include=*.v ; then
  echo "setup: forbidden construct found" >&2; exit 1
fi
echo "setup: ok"
