#!/bin/sh
# MANIFEST.setup_cmd: full offline build of the Coq development (every .vo, no -vos).
set -e
cd "$(dirname "$0")/coq"
coq_makefile -f _CoqProject -o Makefile >/dev/null
timeout 3000 make -j16 2>&1 | tail -5
# fail-closed self-grep: nothing in the development may declare an axiom
if grep -rnE '\b(Admitted|admit|Axiom|Parameter|Conjecture)\b|Unset Guard|bypass_check' theories --include=*.v | grep -v '^\S*:[0-9]*:\s*(\*' ; then
  echo "setup: forbidden construct found" >&2; exit 1
fi
echo "setup: ok"
