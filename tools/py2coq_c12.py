"""Tie B for C12 (placeholder until the property's translator is written): writes an empty
coq/theories/Gen/GenC12.v so that the project builds."""
from pathlib import Path
OUT = Path(__file__).resolve().parent.parent / 'coq' / 'theories' / 'Gen' / 'GenC12.v'
TEXT = '(* Gen/GenC12.v - placeholder *)\n'
if not OUT.exists() or OUT.read_text() != TEXT:
    OUT.write_text(TEXT)
