"""Tie B for C12: regenerate coq/theories/Gen/GenC12.v from the CURRENT source - the table

    transfer point  ->  copy discipline

for every place at which a shared, cached object (pipeline definition, config.vars,
config.shortcuts) is handed towards a run's context.  Proofs/GenC12Proofs.v proves the table
equal to Alias.model_discipline (what Model/Alias.v's `step` assumes) and re-derives the C12
invariant for the machine built from the generated table.

How a discipline is found: a small abstract interpretation of the function's body.  Abstract
values (sets, joined at control-flow merges) say how a value relates to the point's SOURCE
expression (e.g. `self.in_parameters`):
    SRC      the shared object itself (or a component of it)
    FRESH    a new list whose elements are the shared object's elements: list(x), x + y, x.copy()
    DEEP     copy.deepcopy(x)
    REBUILT  x after formatting (get_formatted_value / get_formatted / vformat): every container
             rebuilt - itself established from the formatter's source (point TPFormat)
    OTHER    unrelated to the source
The discipline of the point is the worst value reaching its SINK (e.g. argument 0 of
`context.update(...)`) over all paths: SRC -> ByRef, FRESH -> FreshList, REBUILT -> Rebuilt,
DEEP -> DeepCopy.

Fail-closed: a statement / expression outside the subset below, a source value flowing into a
call or display the interpreter does not know, or a source that never reaches the sink, makes the
table come out as `gen_transfer_UNTRANSLATED` (reason in a comment), so every lemma of
Proofs/GenC12Proofs.v stops compiling.
Dropped (assumed effect-free for this analysis): docstrings, logger.* calls, assert, pass.
Accepted: assignments to names, `x[k] = e`, augmented assignments of untainted values,
expression statements (calls), if/elif/else, for, while, try/except/else, with, return, raise;
expressions: names, attributes, constants, calls, subscripts, `.get`, `+`, conditional
expressions, and/or, comparisons, displays and comprehensions that contain no source value.
"""
import ast
import os
import sys
from pathlib import Path

REPO = Path(os.environ.get('VERIF_REPO', '/repo'))
OUT = Path(os.environ.get('C12_GEN_OUT') or
           Path(__file__).resolve().parent.parent / 'coq' / 'theories' / 'Gen' / 'GenC12.v')

SRC, FRESH, DEEP, REBUILT, OTHER = 'SRC', 'FRESH', 'DEEP', 'REBUILT', 'OTHER'
BADNESS = {DEEP: 0, REBUILT: 1, FRESH: 2, SRC: 3}
COQ_NAME = {DEEP: 'DeepCopy', REBUILT: 'Rebuilt', FRESH: 'FreshList', SRC: 'ByRef'}
HARMLESS_CALLS = {'split', 'isinstance', 'len', 'str', 'bool', 'int', 'float', 'type', 'id', 'repr', 'print',
                  'get_error_name', 'Path', 'hasattr'}
MUTATORS = {'update', 'append', 'extend', 'insert', 'add', 'setdefault', 'appendleft'}


class Untranslatable(Exception):
    pass


def dump(e):
    return ast.dump(e, annotate_fields=False)


def expr_of(text):
    return ast.parse(text, mode='eval').body


def is_logging(st):
    return (isinstance(st, ast.Expr) and isinstance(st.value, ast.Call)
            and isinstance(st.value.func, ast.Attribute) and isinstance(st.value.func.value, ast.Name)
            and st.value.func.value.id == 'logger')


def is_doc(st):
    return isinstance(st, ast.Expr) and isinstance(st.value, ast.Constant) and isinstance(st.value.value, str)


def find_function(tree, qual):
    body, node = tree.body, None
    for p in qual.split('.'):
        node = next((n for n in body if isinstance(n, (ast.FunctionDef, ast.ClassDef)) and n.name == p), None)
        if node is None:
            raise Untranslatable(f'{qual} not found')
        body = node.body
    return node


def tainted(vals):
    return bool(vals & {SRC, FRESH})


def component(vals):
    """abstract value of x[k] / x.get(k) / an element of x."""
    return {SRC if v == FRESH else v for v in vals}


class Flow:
    """abstract interpretation of one function for one (sources, sink)."""

    def __init__(self, fn, sources, sink, fmt, siblings=None, depth=0):
        self.siblings = siblings or {}
        self.depth = depth
        self.fn = fn
        self.sources = {dump(expr_of(s)) for s in sources}
        self.sink = sink
        self.fmt = fmt          # abstract result of formatting a SRC value (REBUILT, or SRC when it leaks)
        self.found = set()
        self.hits = 0

    # ---- expressions
    def ev(self, e, env):
        if dump(e) in self.sources:
            return {SRC}
        if isinstance(e, ast.Name):
            return set(env.get(e.id, {OTHER}))
        if isinstance(e, (ast.Constant, ast.JoinedStr, ast.Compare, ast.UnaryOp, ast.Lambda)):
            return {OTHER}
        if isinstance(e, ast.Attribute):
            return component(self.ev(e.value, env)) if not isinstance(e.value, ast.Name) or e.value.id != 'self' \
                else {OTHER}
        if isinstance(e, ast.Subscript):
            return component(self.ev(e.value, env))
        if isinstance(e, ast.IfExp):
            return self.ev(e.body, env) | self.ev(e.orelse, env)
        if isinstance(e, ast.BoolOp):
            out = set()
            for v in e.values:
                out |= self.ev(v, env)
            return out
        if isinstance(e, ast.BinOp):
            both = self.ev(e.left, env) | self.ev(e.right, env)
            if isinstance(e.op, ast.Add):
                return {FRESH if v == SRC else v for v in both}      # a new list / tuple
            if tainted(both):
                raise Untranslatable(f'operator {type(e.op).__name__} on a source value')
            return {OTHER}
        if isinstance(e, ast.Call):
            return self.call(e, env)
        if isinstance(e, (ast.Dict, ast.List, ast.Tuple, ast.Set, ast.ListComp, ast.DictComp, ast.SetComp,
                          ast.GeneratorExp)):
            if isinstance(e, ast.Dict) and self.sink[0] == 'dictkey':
                for k, v in zip(e.keys, e.values):
                    if isinstance(k, ast.Constant) and k.value == self.sink[1]:
                        self.hit(self.ev(v, env))
                    elif tainted(self.ev(v, env)):
                        raise Untranslatable('source value stored in a display')
                return {OTHER}
            for sub in ast.iter_child_nodes(e):
                for n in ast.walk(sub):
                    if isinstance(n, ast.expr) and not isinstance(n, (ast.expr_context,)):
                        try:
                            if tainted(self.ev(n, env)):
                                raise Untranslatable('source value inside a display / comprehension')
                        except Untranslatable:
                            raise
                        except Exception:       # generators' inner names etc.
                            pass
            return {OTHER}
        raise Untranslatable(f'expression {type(e).__name__}')

    def call(self, e, env):
        f = e.func
        args = [self.ev(a, env) for a in e.args] + [self.ev(k.value, env) for k in e.keywords]
        name = f.id if isinstance(f, ast.Name) else (f.attr if isinstance(f, ast.Attribute) else None)
        fdump = dump(f)
        # sinks that are calls
        if self.sink[0] == 'call_arg' and fdump == dump(expr_of(self.sink[1])):
            self.hit(self.ev(e.args[self.sink[2]], env))
            return {OTHER}
        if self.sink[0] == 'kwarg' and fdump == dump(expr_of(self.sink[1])):
            for k in e.keywords:
                if k.arg == self.sink[2]:
                    self.hit(self.ev(k.value, env))
            return {OTHER}
        if self.sink[0] == 'ctor_arg' and name == self.sink[1]:
            self.hit(self.ev(e.args[self.sink[2]], env))
            return {OTHER}
        if fdump in (dump(expr_of('copy.deepcopy')), dump(expr_of('deepcopy'))) and len(e.args) == 1:
            return {OTHER if v == OTHER else DEEP for v in args[0]}
        if name == 'list' and isinstance(f, ast.Name) and len(e.args) == 1:
            return {FRESH if v == SRC else v for v in args[0]}
        if isinstance(f, ast.Attribute):
            recv = self.ev(f.value, env)
            if name == 'copy' and not e.args:
                return {FRESH if v == SRC else v for v in recv}
            if name == 'get':
                out = component(recv)
                for a in args[1:]:
                    out |= a
                return out
            if name in ('get_formatted_value', 'vformat', '_get_formatted_iterable') and e.args:
                return {OTHER if v == OTHER else (self.fmt if v in (SRC, FRESH) else v) for v in args[0]}
            if name == 'get_formatted':
                # formats context[key]: a SRC value when context[key] is a source of this point
                key = e.args[0] if e.args else None
                sub = ast.Subscript(value=f.value, slice=key, ctx=ast.Load()) if key is not None else None
                if sub is not None and dump(sub) in self.sources:
                    return {self.fmt}
                return {OTHER}
            if name in ('items', 'keys', 'values') and not e.args:
                return component(recv)
            if tainted(recv) and name not in MUTATORS:
                raise Untranslatable(f'method .{name}() of a source value')
        if any(tainted(a) for a in args):
            if (isinstance(f, ast.Attribute) and isinstance(f.value, ast.Name) and f.value.id in ('cls', 'self')
                    and name in self.siblings and self.depth < 3):
                # a method of the same class: does any of its parameters reach its return value?
                callee = self.siblings[name]
                formal = [a.arg for a in callee.args.args if a.arg not in ('self', 'cls')]
                params = [formal[n] for n, a in enumerate(e.args) if n < len(formal) and tainted(self.ev(a, env))]
                params += [k.arg for k in e.keywords if k.arg and tainted(self.ev(k.value, env))]
                try:
                    d = Flow(callee, params, ('return',), self.fmt, self.siblings, self.depth + 1).run()
                except Untranslatable as ex:
                    if str(ex) == 'the source never reaches the sink':
                        return {OTHER}
                    raise
                return {d}
            if name in HARMLESS_CALLS:
                return {OTHER}
            if isinstance(f, ast.Attribute) and name in MUTATORS and isinstance(f.value, ast.Name):
                return {OTHER}          # handled at statement level
            raise Untranslatable(f'source value passed to unknown call {ast.unparse(f)}')
        return {OTHER}

    def hit(self, vals):
        self.hits += 1
        self.found |= vals

    # ---- statements
    def block(self, stmts, env):
        """returns the environment after the block, or None when every path has left it."""
        for st in stmts:
            if env is None:
                return None
            env = self.stmt(st, env)
        return env

    @staticmethod
    def join(a, b):
        if a is None:
            return b
        if b is None:
            return a
        return {k: set(a.get(k, {OTHER})) | set(b.get(k, {OTHER})) for k in set(a) | set(b)}

    def stmt(self, st, env):
        if is_doc(st) or is_logging(st) or isinstance(st, (ast.Assert, ast.Pass, ast.Import, ast.ImportFrom)):
            return env
        if isinstance(st, ast.Assign):
            vals = self.ev(st.value, env)
            for tgt in st.targets:
                if isinstance(tgt, ast.Name):
                    env = dict(env)
                    env[tgt.id] = vals
                elif isinstance(tgt, ast.Subscript):
                    if (self.sink[0] == 'store_sub' and isinstance(tgt.value, ast.Name)
                            and tgt.value.id == self.sink[1] and isinstance(tgt.slice, ast.Constant)
                            and tgt.slice.value == self.sink[2]):
                        self.hit(vals)
                    elif tainted(vals):
                        if isinstance(tgt.value, ast.Name) and tgt.value.id in env:
                            env = dict(env)
                            env[tgt.value.id] = set(env[tgt.value.id]) | {SRC}
                        else:
                            raise Untranslatable('source value stored through a subscript')
                elif isinstance(tgt, ast.Attribute):
                    if tainted(vals) and not (isinstance(tgt.value, ast.Name) and tgt.value.id == 'self'):
                        raise Untranslatable('source value stored in an attribute')
                elif isinstance(tgt, (ast.Tuple, ast.List)):
                    if tainted(vals):
                        raise Untranslatable('source value unpacked')
                    env = dict(env)
                    for n in ast.walk(tgt):
                        if isinstance(n, ast.Name):
                            env[n.id] = {OTHER}
                else:
                    raise Untranslatable(f'assignment target {type(tgt).__name__}')
            return env
        if isinstance(st, ast.AugAssign):
            if tainted(self.ev(st.value, env)):
                raise Untranslatable('augmented assignment of a source value')
            return env
        if isinstance(st, ast.AnnAssign):
            if st.value is not None and isinstance(st.target, ast.Name):
                env = dict(env)
                env[st.target.id] = self.ev(st.value, env)
            return env
        if isinstance(st, ast.Expr):
            v = st.value
            if (isinstance(v, ast.Call) and isinstance(v.func, ast.Attribute) and v.func.attr in MUTATORS
                    and isinstance(v.func.value, ast.Name)):
                # x.update(y) / x.append(y): x now holds components of y
                self.ev(v, env)         # sinks among the arguments
                got = set()
                for a in list(v.args) + [k.value for k in v.keywords]:
                    got |= self.ev(a, env)
                if tainted(got) or got & {DEEP, REBUILT}:
                    env = dict(env)
                    env[v.func.value.id] = set(env.get(v.func.value.id, {OTHER})) | component(got)
                return env
            self.ev(v, env)
            return env
        if isinstance(st, ast.If):
            self.ev(st.test, env)
            return self.join(self.block(st.body, dict(env)), self.block(st.orelse, dict(env)))
        if isinstance(st, (ast.For, ast.While)):
            env = dict(env)
            if isinstance(st, ast.For):
                elt = component(self.ev(st.iter, env))
                for n in ast.walk(st.target):
                    if isinstance(n, ast.Name):
                        env[n.id] = elt
            else:
                self.ev(st.test, env)
            once = self.block(st.body, dict(env))
            again = self.block(st.body, dict(self.join(env, once))) if once is not None else None
            out = self.join(env, self.join(once, again))
            return self.join(out, self.block(st.orelse, dict(out))) if st.orelse else out
        if isinstance(st, ast.Try):
            body = self.block(st.body, dict(env))
            start = self.join(env, body)
            out = self.block(st.orelse, dict(body)) if (st.orelse and body is not None) else body
            for h in st.handlers:
                out = self.join(out, self.block(h.body, dict(start)))
            if st.finalbody:
                out = self.block(st.finalbody, dict(out if out is not None else start))
            return out
        if isinstance(st, ast.With):
            for item in st.items:
                self.ev(item.context_expr, env)
            return self.block(st.body, env)
        if isinstance(st, ast.Return):
            if st.value is not None:
                vals = self.ev(st.value, env) if not isinstance(st.value, ast.Tuple) else None
                if self.sink[0] == 'return':
                    self.hit(vals if vals is not None else {OTHER})
                elif self.sink[0] == 'return_elt':
                    if not isinstance(st.value, ast.Tuple):
                        raise Untranslatable('return value is not a tuple display')
                    for n, el in enumerate(st.value.elts):
                        v = self.ev(el, env)
                        if n == self.sink[1]:
                            self.hit(v)
                        elif tainted(v):
                            raise Untranslatable('source value returned outside the sink')
                elif isinstance(st.value, ast.Tuple):
                    for el in st.value.elts:
                        self.ev(el, env)
            return None
        if isinstance(st, ast.Raise):
            if st.exc is not None:
                self.ev(st.exc, env)
            return None
        if isinstance(st, (ast.Continue, ast.Break)):
            return env
        raise Untranslatable(f'statement {type(st).__name__}')

    def run(self):
        env = {a.arg: {OTHER} for a in self.fn.args.args + self.fn.args.kwonlyargs}
        for a in self.fn.args.args:
            if dump(ast.Name(id=a.arg, ctx=ast.Load())) in self.sources:
                env[a.arg] = {SRC}
        self.block(self.fn.body, env)
        real = self.found - {OTHER}
        if not self.hits:
            raise Untranslatable('sink not found')
        if not real:
            raise Untranslatable('the source never reaches the sink')
        return max(real, key=lambda v: BADNESS[v])


def container_branches(fn):
    """RecursiveFormatter._get_formatted_iterable: what a Mapping / Sequence / Set input becomes.
    REBUILT when each container branch of the isinstance ladder assigns `obj.__class__(<generator>)`."""
    param = fn.args.args[1].arg
    ladder = next((s for s in fn.body if isinstance(s, ast.If) and any(
        isinstance(n, ast.Name) and n.id == 'isinstance' for n in ast.walk(s.test))), None)
    if ladder is None:
        raise Untranslatable('_get_formatted_iterable: no isinstance ladder')
    seen = set()
    result = REBUILT
    node = ladder
    newvar = None
    while isinstance(node, ast.If):
        names = {n.id for n in ast.walk(node.test) if isinstance(n, ast.Name)}
        classes = names & {'Mapping', 'Sequence', 'Set', 'dict', 'list', 'set', 'tuple'}
        if classes:
            body = [s for s in node.body if not (is_doc(s) or is_logging(s))]
            if len(body) != 1 or not isinstance(body[0], ast.Assign) or not isinstance(body[0].targets[0], ast.Name):
                raise Untranslatable('_get_formatted_iterable: container branch is not one assignment')
            newvar = body[0].targets[0].id
            v = body[0].value
            ok = (isinstance(v, ast.Call) and len(v.args) == 1
                  and isinstance(v.args[0], (ast.GeneratorExp, ast.ListComp, ast.SetComp, ast.DictComp))
                  and (dump(v.func) == dump(expr_of(f'{param}.__class__'))
                       or dump(v.func) == dump(expr_of(f'type({param})'))
                       or (isinstance(v.func, ast.Name) and v.func.id in ('dict', 'list', 'set', 'tuple'))))
            if not ok:
                if dump(v) == dump(ast.Name(id=param, ctx=ast.Load())):
                    result = SRC
                else:
                    raise Untranslatable('_get_formatted_iterable: container branch builds something else')
            seen |= classes
        node = node.orelse[0] if len(node.orelse) == 1 and isinstance(node.orelse[0], ast.If) else None
    if not ({'Mapping', 'dict'} & seen and {'Sequence', 'list'} & seen and {'Set', 'set'} & seen):
        raise Untranslatable('_get_formatted_iterable: a container class has no branch')
    # what is returned after the ladder must be the rebuilt value
    rets = [s for s in fn.body if isinstance(s, ast.Return)]
    if not rets or not isinstance(rets[-1].value, ast.Name) or rets[-1].value.id != newvar:
        raise Untranslatable('_get_formatted_iterable: does not return the rebuilt value')
    # an early return before the ladder may only hand back a memoised earlier result
    for s in fn.body[:fn.body.index(ladder)]:
        for n in ast.walk(s):
            if isinstance(n, ast.Return) and dump(n.value) == dump(ast.Name(id=param, ctx=ast.Load())):
                result = SRC
    return result


def parse(rel):
    return ast.parse((REPO / rel).read_text())


def siblings_of(tree, qual):
    if '.' not in qual:
        return {n.name: n for n in tree.body if isinstance(n, ast.FunctionDef)}
    cls = find_function(tree, qual.rsplit('.', 1)[0])
    return {n.name: n for n in cls.body if isinstance(n, ast.FunctionDef)}


def analyse():
    """[(point, discipline or None, note)]"""
    rows = []
    # ---- the formatter first: every other point may go through it
    fmt = None
    try:
        ftree = parse('pypyr/formatting.py')
        d3 = container_branches(find_function(ftree, 'RecursiveFormatter._get_formatted_iterable'))
        d2 = Flow(find_function(ftree, 'RecursiveFormatter.vformat'), ['format_string'], ('return',), d3).run()
        ctree = parse('pypyr/context.py')
        d1 = Flow(find_function(ctree, 'Context.get_formatted_value'), ['input_value'], ('return',), d2).run()
        d1b = Flow(find_function(ctree, 'Context.get_formatted'), ['self[key]'], ('return',), d2).run()
        fmt = max([d1, d1b], key=lambda v: BADNESS[v])
        rows.append(('TPFormat', fmt, f'_get_formatted_iterable containers: {d3}; vformat: {d2}; '
                                      f'get_formatted_value: {d1}; get_formatted: {d1b}'))
    except (Untranslatable, OSError, SyntaxError, IndexError) as e:
        rows.append(('TPFormat', None, str(e)))
    points = [
        ('TPIn', 'pypyr/dsl.py', 'Step.set_step_input_context', ['self.in_parameters'],
         ('call_arg', 'context.update', 0)),
        ('TPConfigVars', 'pypyr/steps/configvars.py', 'run_step', ['config.vars'],
         ('call_arg', 'context.update', 0)),
        ('TPShortcutArgs', 'pypyr/pipeline.py', 'Pipeline.new_pipe_and_args', ["shortcut.get('args')", "shortcut['args']"],
         ('return_elt', 1)),
        ('TPShortcutParserArgs', 'pypyr/pipeline.py', 'Pipeline.new_pipe_and_args',
         ["shortcut.get('parser_args')", "shortcut['parser_args']"], ('kwarg', 'cls', 'context_args')),
        ('TPOnError', 'pypyr/dsl.py', 'Step.save_error', ['self.on_error'], ('dictkey', 'customError')),
        ('TPForeach', 'pypyr/dsl.py', 'Step.foreach_loop', ['self.foreach_items'], ('store_sub', 'context', 'i')),
        ('TPPypeArgs', 'pypyr/steps/pype.py', 'get_arguments', ["context['pype']", "context.get('pype')"],
         ('ctor_arg', 'PypeArgs', 1)),
    ]
    for name, rel, qual, sources, sink in points:
        try:
            if fmt is None:
                raise Untranslatable('the formatter could not be analysed')
            tree = parse(rel)
            d = Flow(find_function(tree, qual), sources, sink, fmt, siblings_of(tree, qual)).run()
            rows.append((name, d, f'{rel} :: {qual}; source {sources[0]}; sink {sink}'))
        except (Untranslatable, OSError, SyntaxError, IndexError) as e:
            rows.append((name, None, f'{rel} :: {qual}: {e}'))
    return rows


def render(rows):
    order = ['TPIn', 'TPConfigVars', 'TPShortcutArgs', 'TPShortcutParserArgs', 'TPOnError', 'TPForeach',
             'TPPypeArgs', 'TPFormat']
    by = {r[0]: r for r in rows}
    bad = [r for r in rows if r[1] is None]
    lines = ['(** Gen/GenC12.v - GENERATED by tools/py2coq_c12.py from the current source under the repository;',
             '    do not edit.  The copy discipline found at each transfer point (see the translator). *)',
             'From PV Require Import Alias.', '']
    for n in order:
        _, d, note = by[n]
        lines.append(f'(* {n}: {note.replace("(*", "( *").replace("*)", "* )")} *)')
    name = 'gen_transfer' if not bad else 'gen_transfer_UNTRANSLATED'
    lines.append(f'Definition {name} (tp : tpoint) : discipline :=')
    lines.append('  match tp with')
    for n in order:
        d = by[n][1]
        lines.append(f'  | {n} => {COQ_NAME[d] if d else "ByRef"}')
    lines.append('  end.')
    return '\n'.join(lines) + '\n'


def main():
    text = render(analyse())
    if not OUT.exists() or OUT.read_text() != text:
        OUT.write_text(text)
    if '--show' in sys.argv:
        print(text)


if __name__ == '__main__':
    main()
