"""Tie B for C15: regenerate coq/theories/Gen/GenC15.v from the CURRENT source of
pypyr/utils/filesystem.py ($VERIF_REPO, default /repo) - the statement structure of

    is_same_file, move_file, remove_temp_file, move_temp_file,
    StreamRewriter.in_to_out, ObjectRewriter.in_to_out, FileRewriter.files_in_to_out

as terms of the statement languages of Model/FsRewrite.v ([stm] for the methods that touch the
file system, [fstm] for the files_in_to_out loop).  Proofs/GenC15Proofs.v proves that these
terms, run by the semantics of `with` / `try-except` / `raise` / `return` / local flags, are the
model's op lists and clean-up paths, for every fault assignment.

Fail-closed: a statement or expression outside the subset below makes that definition come out
as <name>_UNTRANSLATED (reason in a comment), so the lemmas naming it stop compiling.

Dropped (assumed effect-free - trusted base): docstrings, logger.* calls, assignments of
`self.object_representer.read_mode / write_mode` to a local (only used as an open() mode), the
`encoding=` / `mode=` keyword arguments, `file_counter += 1`, assignments to names that are read
only by logging calls, `.mkdir(parents=True, exist_ok=True)` on the out directory (the harness
only uses existing directories).
Names are bound by ROLE, not by spelling: in_path / out_path are the 2nd / 3rd parameter, the
source handle is whatever `with open(in_path ...) as X` binds, the write handle whatever the
write-mode open / NamedTemporaryFile binds, the flag is the local assigned only True / False,
the loaded object the local assigned from `...load(<source handle>)`.
"""
import ast
import os
import sys
from pathlib import Path

REPO = Path(os.environ.get('VERIF_REPO', '/repo'))
OUT = Path(__file__).resolve().parent.parent / 'coq' / 'theories' / 'Gen' / 'GenC15.v'
SRC = 'pypyr/utils/filesystem.py'
HELPERS = ('move_file', 'remove_temp_file', 'move_temp_file')


class Untranslatable(Exception):
    pass


def is_logging(st):
    return (isinstance(st, ast.Expr) and isinstance(st.value, ast.Call)
            and isinstance(st.value.func, ast.Attribute)
            and isinstance(st.value.func.value, ast.Name) and st.value.func.value.id == 'logger')


def is_doc(st):
    return isinstance(st, ast.Expr) and isinstance(st.value, ast.Constant) \
        and isinstance(st.value.value, str)


def is_dead(st):
    """logging, or an if / for whose whole body is: never changes what the method does"""
    if is_logging(st) or is_doc(st):
        return True
    if isinstance(st, ast.If):
        return all(is_dead(x) for x in st.body + st.orelse)
    if isinstance(st, ast.For):
        return all(is_dead(x) for x in st.body + st.orelse)
    return False


def dotted(e):
    """a.b.c -> 'a.b.c' (Name / Attribute chains only)"""
    if isinstance(e, ast.Name):
        return e.id
    if isinstance(e, ast.Attribute):
        b = dotted(e.value)
        return None if b is None else b + '.' + e.attr
    return None


def find(tree, qual):
    body, node = tree.body, None
    for p in qual.split('.'):
        node = next((n for n in body if isinstance(n, (ast.FunctionDef, ast.ClassDef))
                     and n.name == p), None)
        if node is None:
            raise Untranslatable(f'{qual} not found')
        body = node.body
    return node


def seq(items):
    items = [i for i in items if i != 'SSkip']
    if not items:
        return 'SSkip'
    out = items[-1]
    for i in reversed(items[:-1]):
        out = f'(SSeq {i} {out})'
    return out


# --------------------------------------------------------------------------- [stm] methods

class Method:
    """translate one function body into a [stm] term"""

    def __init__(self, fn, is_method):
        self.fn = fn
        args = [a.arg for a in fn.args.args]
        if is_method:
            if not args or args[0] != 'self':
                raise Untranslatable('method without self')
            args = args[1:]
        self.params = args
        self.is_method = is_method
        self.roles = {}            # python name -> role
        if is_method:
            if len(args) != 2:
                raise Untranslatable('in_to_out must take (in_path, out_path)')
            self.roles[args[0]] = 'in_path'
            self.roles[args[1]] = 'out_path'
            d = fn.args.defaults
            if len(d) != 1 or not (isinstance(d[0], ast.Constant) and d[0].value is None):
                raise Untranslatable('out_path must default to None')
        else:
            for a in args:
                self.roles[a] = 'param:' + a
        self.collect_roles()

    # -- roles of locals
    def collect_roles(self):
        flag_assign = {}
        for node in ast.walk(self.fn):
            if isinstance(node, ast.With):
                if len(node.items) != 1:
                    raise Untranslatable('with with several items')
                it = node.items[0]
                if not isinstance(it.optional_vars, ast.Name):
                    raise Untranslatable('with without a simple `as` name')
                kind = self.with_kind(it.context_expr, prepass=True)
                role = 'infile' if kind[0] == 'read' else 'outfile'
                self.bind(it.optional_vars.id, role)
            if isinstance(node, ast.Assign) and len(node.targets) == 1 \
                    and isinstance(node.targets[0], ast.Name):
                nm, v = node.targets[0].id, node.value
                if isinstance(v, ast.Constant) and isinstance(v.value, bool):
                    flag_assign.setdefault(nm, []).append(True)
                elif isinstance(v, ast.Call) and isinstance(v.func, ast.Attribute) \
                        and v.func.attr == 'load':
                    self.bind(nm, 'obj')
                elif dotted(v) in ('self.object_representer.read_mode',):
                    self.bind(nm, 'read_mode')
                elif dotted(v) in ('self.object_representer.write_mode',):
                    self.bind(nm, 'write_mode')
                else:
                    flag_assign.setdefault(nm, []).append(False)
        flags = [n for n, l in flag_assign.items() if all(l) and n not in self.roles]
        if len(flags) > 1:
            raise Untranslatable(f'more than one boolean flag: {flags}')
        for n in flags:
            self.bind(n, 'flag')

    def bind(self, name, role):
        if self.roles.get(name, role) != role:
            raise Untranslatable(f'{name} used as {self.roles[name]} and as {role}')
        for n, r in self.roles.items():
            if r == role and n != name and role in ('infile', 'outfile', 'flag', 'obj'):
                raise Untranslatable(f'two names for role {role}: {n}, {name}')
        self.roles[name] = role

    def role(self, e):
        return self.roles.get(e.id) if isinstance(e, ast.Name) else None

    # -- expressions
    def pexpr(self, e):
        r = self.role(e)
        if r == 'in_path':
            return 'XInPath'
        if r == 'out_path':
            return 'XOutPath'
        if r and r.startswith('param:'):
            return r[6:]
        if isinstance(e, ast.Attribute) and e.attr == 'name':
            r = self.role(e.value)
            if r == 'infile':
                return 'XInfileName'
            if r == 'outfile':
                return 'XOutfileName'
        if isinstance(e, ast.Call) and dotted(e.func) == 'os.path.dirname' and len(e.args) == 1 \
                and not e.keywords and self.role(e.args[0]) == 'in_path':
            return 'XDirnameIn'
        raise Untranslatable(f'path expression {ast.unparse(e)}')

    def cond(self, e):
        if isinstance(e, ast.Call) and dotted(e.func) == 'is_same_file' and not e.keywords \
                and [self.role(a) for a in e.args] == ['in_path', 'out_path']:
            return 'CSameFile'
        r = self.role(e)
        if r == 'out_path':
            return 'COutPath'
        if r == 'flag':
            return 'CInPlaceFlag'
        if isinstance(e, ast.Compare) and len(e.ops) == 1 and isinstance(e.ops[0], ast.IsNot) \
                and self.role(e.left) == 'outfile' \
                and isinstance(e.comparators[0], ast.Constant) and e.comparators[0].value is None:
            return 'COutfileNotNone'
        raise Untranslatable(f'condition {ast.unparse(e)}')

    def with_kind(self, call, prepass=False):
        """-> ('read'|'write'|'mktemp', coq wkind term)"""
        if not isinstance(call, ast.Call):
            raise Untranslatable('with on a non-call')
        f = dotted(call.func)
        if f == 'open':
            if not call.args:
                raise Untranslatable('open() without a path')
            mode = call.args[1] if len(call.args) > 1 else \
                next((k.value for k in call.keywords if k.arg == 'mode'), None)
            for k in call.keywords:
                if k.arg not in ('encoding', 'mode'):
                    raise Untranslatable(f'open(... {k.arg}=)')
            if len(call.args) > 2:
                raise Untranslatable('open() with more than two positional arguments')
            if mode is None:
                writing = False
            elif isinstance(mode, ast.Constant) and isinstance(mode.value, str):
                writing = any(c in mode.value for c in 'wax+')
            elif self.role(mode) == 'read_mode' or dotted(mode) == 'self.object_representer.read_mode':
                writing = False
            elif self.role(mode) == 'write_mode' or dotted(mode) == 'self.object_representer.write_mode':
                writing = True
            elif prepass and isinstance(mode, ast.Name):
                # roles of mode locals may not be known yet: decide by the path argument
                writing = self.role(call.args[0]) == 'out_path'
            else:
                raise Untranslatable(f'open mode {ast.unparse(mode)}')
            p = None if prepass else self.pexpr(call.args[0])
            return ('write', f'(WOpenWrite {p})') if writing else ('read', f'(WOpenRead {p})')
        if f == 'NamedTemporaryFile':
            if call.args:
                raise Untranslatable('NamedTemporaryFile with positional arguments')
            kw = {k.arg: k.value for k in call.keywords}
            for k in kw:
                if k not in ('mode', 'dir', 'delete', 'encoding'):
                    raise Untranslatable(f'NamedTemporaryFile(... {k}=)')
            if 'dir' not in kw:
                raise Untranslatable('NamedTemporaryFile without dir= (temp not next to the source)')
            delete = kw.get('delete', ast.Constant(True))
            if not (isinstance(delete, ast.Constant) and isinstance(delete.value, bool)):
                raise Untranslatable('delete= is not a constant')
            d = None if prepass else self.pexpr(kw['dir'])
            return ('mktemp', f'(WMkTemp {d} {"true" if delete.value else "false"})')
        raise Untranslatable(f'with {f}(...)')

    # -- statements
    def block(self, stmts):
        return seq([self.stmt(s) for s in stmts])

    def stmt(self, st):
        if is_doc(st) or is_logging(st):
            return 'SSkip'
        if isinstance(st, ast.Assign):
            if len(st.targets) != 1 or not isinstance(st.targets[0], ast.Name):
                raise Untranslatable(f'assignment {ast.unparse(st)}')
            r, v = self.roles.get(st.targets[0].id), st.value
            if r in ('read_mode', 'write_mode'):
                return 'SSkip'
            if r == 'flag' and isinstance(v, ast.Constant) and isinstance(v.value, bool):
                return f'(SSetInPlace {"true" if v.value else "false"})'
            if r == 'out_path' and isinstance(v, ast.Constant) and v.value is None:
                return 'SSetOutNone'
            if r == 'outfile' and isinstance(v, ast.Constant) and v.value is None:
                return 'SSetOutfileNone'
            if r == 'obj' and isinstance(v, ast.Call) and not v.keywords and len(v.args) == 1 \
                    and dotted(v.func) == 'self.object_representer.load' \
                    and self.role(v.args[0]) == 'infile':
                return 'SLoad'
            raise Untranslatable(f'assignment {ast.unparse(st)}')
        if isinstance(st, ast.If):
            return f'(SIf {self.cond(st.test)} {self.block(st.body)} {self.block(st.orelse)})'
        if isinstance(st, ast.With):
            it = st.items[0]
            kind, w = self.with_kind(it.context_expr)
            b = 'BInfile' if self.roles[it.optional_vars.id] == 'infile' else 'BOutfile'
            return f'(SWith {w} {b} {self.block(st.body)})'
        if isinstance(st, ast.Try):
            if st.orelse or st.finalbody or len(st.handlers) != 1:
                raise Untranslatable('try with else / finally / several handlers')
            h = st.handlers[0]
            if dotted(h.type) != 'Exception':
                raise Untranslatable(f'except {ast.unparse(h.type) if h.type else ""}')
            return f'(STry {self.block(st.body)} {self.block(h.body)})'
        if isinstance(st, ast.Raise):
            if st.exc is not None or st.cause is not None:
                raise Untranslatable('raise with an argument')
            return 'SReraise'
        if isinstance(st, ast.Return):
            if self.is_method and st.value is None:
                return 'SReturn'
            raise Untranslatable('return with a value')
        if isinstance(st, ast.Expr) and isinstance(st.value, ast.Call):
            c = st.value
            f = dotted(c.func)
            if f == 'os.replace' and len(c.args) == 2 and not c.keywords:
                return f'(SReplace {self.pexpr(c.args[0])} {self.pexpr(c.args[1])})'
            if f == 'os.remove' and len(c.args) == 1 and not c.keywords:
                return f'(SRemove {self.pexpr(c.args[0])})'
            if f in HELPERS and not c.keywords:
                return '(gen_' + f + ''.join(' ' + self.pexpr(a) for a in c.args) + ')'
            # outfile.writelines(self.formatter(infile))
            if isinstance(c.func, ast.Attribute) and c.func.attr == 'writelines' \
                    and self.role(c.func.value) == 'outfile' and len(c.args) == 1 \
                    and self.is_formatter_of(c.args[0], 'infile'):
                return 'SWriteItems'
            # self.object_representer.dump(outfile, self.formatter(obj))
            if f == 'self.object_representer.dump' and len(c.args) == 2 and not c.keywords \
                    and self.role(c.args[0]) == 'outfile' and self.is_formatter_of(c.args[1], 'obj'):
                return 'SWriteItems'
        raise Untranslatable(f'statement {ast.unparse(st).splitlines()[0]}')

    def is_formatter_of(self, e, role):
        return isinstance(e, ast.Call) and dotted(e.func) == 'self.formatter' and not e.keywords \
            and len(e.args) == 1 and self.role(e.args[0]) == role


def gen_method(tree, qual, name):
    try:
        fn = find(tree, qual)
        m = Method(fn, is_method='.' in qual)
        body = m.block(fn.body)
        params = ''.join(f' ({p} : pexpr)' for p in m.params) if '.' not in qual else ''
        return f'(* source: {SRC} :: {qual} *)\nDefinition {name}{params} : stm :=\n  {body}.\n'
    except Untranslatable as e:
        return f'(* source: {SRC} :: {qual} - NOT TRANSLATED: {e} *)\n' \
               f'Definition {name}_UNTRANSLATED : unit := tt.\n'


# --------------------------------------------------------------------------- is_same_file

def gen_is_same_file(tree):
    name = 'gen_is_same_file'
    try:
        fn = find(tree, 'is_same_file')
        a = [x.arg for x in fn.args.args]
        if len(a) != 2:
            raise Untranslatable('is_same_file must take two paths')
        body = [s for s in fn.body if not is_doc(s) and not is_logging(s)]
        if len(body) != 1 or not isinstance(body[0], ast.Return):
            raise Untranslatable('is_same_file is not a single return')

        def atom(e):
            if isinstance(e, ast.Name) and e.id in a:
                return f'truthy{a.index(e.id) + 1}'
            if isinstance(e, ast.Call) and not e.keywords:
                f = dotted(e.func)
                names = [x.id if isinstance(x, ast.Name) else None for x in e.args]
                if f == 'os.path.isfile' and len(names) == 1 and names[0] in a:
                    return f'isfile{a.index(names[0]) + 1}'
                if f == 'os.path.samefile' and sorted(n or '' for n in names) == sorted(a):
                    return 'samefile'
            raise Untranslatable(f'is_same_file: {ast.unparse(e)}')

        def bexp(e):
            if isinstance(e, ast.BoolOp):
                op = 'andb' if isinstance(e.op, ast.And) else 'orb'
                vals = [bexp(v) for v in e.values]
                out = vals[-1]
                for v in reversed(vals[:-1]):
                    out = f'({op} {v} {out})'
                return out
            if isinstance(e, ast.UnaryOp) and isinstance(e.op, ast.Not):
                return f'(negb {bexp(e.operand)})'
            return atom(e)
        return (f'(* source: {SRC} :: is_same_file *)\n'
                f'Definition {name} (truthy1 truthy2 isfile1 isfile2 samefile : bool) : bool :=\n'
                f'  {bexp(body[0].value)}.\n')
    except Untranslatable as e:
        return f'(* source: {SRC} :: is_same_file - NOT TRANSLATED: {e} *)\n' \
               f'Definition {name}_UNTRANSLATED : unit := tt.\n'


# --------------------------------------------------------------------------- files_in_to_out

class Loop:
    """FileRewriter.files_in_to_out -> [fstm]"""

    def __init__(self, fn):
        self.fn = fn
        a = [x.arg for x in fn.args.args]
        if len(a) != 3 or a[0] != 'self':
            raise Untranslatable('files_in_to_out must take (self, in_path, out_path)')
        self.in_arg, self.out_arg = a[1], a[2]
        self.roles = {}
        self.live = self.live_names()
        self.collect()

    def live_names(self):
        live = set()

        def visit(node):
            if isinstance(node, ast.stmt) and is_dead(node):
                return
            if isinstance(node, ast.AugAssign):
                return
            if isinstance(node, ast.Name) and isinstance(node.ctx, ast.Load):
                live.add(node.id)
            for ch in ast.iter_child_nodes(node):
                visit(ch)
        for st in self.fn.body:
            visit(st)
        return live

    def collect(self):
        for node in ast.walk(self.fn):
            if isinstance(node, ast.Assign) and len(node.targets) == 1 \
                    and isinstance(node.targets[0], ast.Name):
                nm, v = node.targets[0].id, node.value
                if isinstance(v, ast.Call) and dotted(v.func) == 'get_glob' and len(v.args) == 1 \
                        and isinstance(v.args[0], ast.Name) and v.args[0].id == self.in_arg:
                    self.roles[nm] = 'in_paths'
                elif isinstance(v, ast.Call) and dotted(v.func) == 'Path' and len(v.args) == 1 \
                        and isinstance(v.args[0], ast.Name):
                    self.roles[nm] = 'pathlib_out' if v.args[0].id == self.out_arg else 'actual_in'
            if isinstance(node, ast.For) and isinstance(node.target, ast.Name):
                self.roles[node.target.id] = 'path'

    def role(self, e):
        return self.roles.get(e.id) if isinstance(e, ast.Name) else None

    def fexpr(self, e):
        if isinstance(e, ast.Constant):
            if e.value is None:
                return 'FNone'
            if isinstance(e.value, bool):
                return f'(FBool {"true" if e.value else "false"})'
        r = self.role(e)
        if r == 'pathlib_out':
            return 'FPathOut'
        if isinstance(e, ast.Name) and e.id in self.vars:
            return f'(FVar {self.vars[e.id]})'
        if isinstance(e, ast.Attribute) and e.attr == 'parent' and self.role(e.value) == 'pathlib_out':
            return 'FOutParent'
        if isinstance(e, ast.Call) and isinstance(e.func, ast.Attribute) and e.func.attr == 'joinpath' \
                and len(e.args) == 1 and not e.keywords \
                and isinstance(e.args[0], ast.Attribute) and e.args[0].attr == 'name' \
                and self.role(e.args[0].value) == 'actual_in':
            return f'(FJoinName {self.fexpr(e.func.value)})'
        raise Untranslatable(f'expression {ast.unparse(e)}')

    def fcond(self, e):
        r = self.role(e)
        if r == 'in_paths':
            return 'FCInPaths'
        if isinstance(e, ast.Name) and e.id == self.out_arg:
            return 'FCOutPath'
        if isinstance(e, ast.Name) and e.id in self.vars:
            return f'(FCVar {self.vars[e.id]})'
        if isinstance(e, ast.Call):
            f = dotted(e.func)
            if f in ('FileRewriter.is_str_dir', 'self.is_str_dir') and len(e.args) == 1 \
                    and isinstance(e.args[0], ast.Name) and e.args[0].id == self.out_arg:
                return 'FCIsStrDir'
            if isinstance(e.func, ast.Attribute) and not e.args and not e.keywords:
                if e.func.attr == 'is_dir' and self.role(e.func.value) == 'pathlib_out':
                    return 'FCIsDir'
                if e.func.attr == 'is_file' and self.role(e.func.value) == 'actual_in':
                    return 'FCIsFile'
        if isinstance(e, ast.Compare) and len(e.ops) == 1 and isinstance(e.ops[0], ast.Gt) \
                and isinstance(e.left, ast.Call) and dotted(e.left.func) == 'len' \
                and len(e.left.args) == 1 and self.role(e.left.args[0]) == 'in_paths' \
                and isinstance(e.comparators[0], ast.Constant) and e.comparators[0].value == 1:
            return 'FCManyPaths'
        raise Untranslatable(f'condition {ast.unparse(e)}')

    VARS = {'basedir': 'VBasedir', 'known': 'VKnown', 'actual_out': 'VActualOut'}

    def assign_vars(self):
        """the three live locals, by the shape of what is assigned to them"""
        self.vars = {}
        for node in ast.walk(self.fn):
            if isinstance(node, ast.Assign) and len(node.targets) == 1 \
                    and isinstance(node.targets[0], ast.Name):
                nm, v = node.targets[0].id, node.value
                if nm in self.roles or nm not in self.live:
                    continue
                if isinstance(v, ast.Constant) and isinstance(v.value, bool):
                    kind = 'VKnown'
                elif isinstance(v, ast.Call) and isinstance(v.func, ast.Attribute) \
                        and v.func.attr == 'joinpath':
                    kind = 'VActualOut'
                elif isinstance(v, ast.Constant) and v.value is None:
                    kind = 'VBasedir'
                else:
                    continue
                if self.vars.get(nm, kind) != kind:
                    raise Untranslatable(f'local {nm} used in two roles')
                self.vars[nm] = kind
        inv = {}
        for n, k in self.vars.items():
            if k in inv:
                raise Untranslatable(f'two locals in role {k}: {inv[k]}, {n}')
            inv[k] = n

    def block(self, stmts):
        items = [self.stmt(s) for s in stmts]
        items = [i for i in items if i != 'FSkip']
        if not items:
            return 'FSkip'
        out = items[-1]
        for i in reversed(items[:-1]):
            out = f'(FSeq {i} {out})'
        return out

    def stmt(self, st):
        if is_dead(st):
            return 'FSkip'
        if isinstance(st, ast.AugAssign) and isinstance(st.target, ast.Name) \
                and st.target.id not in self.live:
            return 'FSkip'
        if isinstance(st, ast.Assign) and len(st.targets) == 1 and isinstance(st.targets[0], ast.Name):
            nm = st.targets[0].id
            if nm in self.roles:
                return 'FSkip'          # in_paths / pathlib_out / actual_in: bound by role
            if nm not in self.live:
                return 'FSkip'          # read by logging only
            if nm in self.vars:
                return f'(FAssign {self.vars[nm]} {self.fexpr(st.value)})'
            raise Untranslatable(f'assignment {ast.unparse(st)}')
        if isinstance(st, ast.If):
            return f'(FIf {self.fcond(st.test)} {self.block(st.body)} {self.block(st.orelse)})'
        if isinstance(st, ast.For):
            if st.orelse or self.role(st.iter) != 'in_paths':
                raise Untranslatable('for loop not over the glob result')
            return f'(FFor {self.block(st.body)})'
        if isinstance(st, ast.Raise):
            if isinstance(st.exc, ast.Call) and dotted(st.exc.func) == 'Error':
                return 'FRaiseError'
            raise Untranslatable('raise of something else than Error(...)')
        if isinstance(st, ast.Expr) and isinstance(st.value, ast.Call):
            c = st.value
            if isinstance(c.func, ast.Attribute) and c.func.attr == 'mkdir':
                return 'FSkip'
            if dotted(c.func) == 'self.in_to_out' and not c.args:
                kw = {k.arg: k.value for k in c.keywords}
                if set(kw) == {'in_path'} and self.role(kw['in_path']) == 'actual_in':
                    return '(FCall None)'
                if set(kw) == {'in_path', 'out_path'} and self.role(kw['in_path']) == 'actual_in':
                    return f'(FCall (Some {self.fexpr(kw["out_path"])}))'
        raise Untranslatable(f'statement {ast.unparse(st).splitlines()[0]}')


def gen_loop(tree):
    name = 'gen_files_in_to_out'
    qual = 'FileRewriter.files_in_to_out'
    try:
        fn = find(tree, qual)
        lp = Loop(fn)
        lp.assign_vars()
        return f'(* source: {SRC} :: {qual} *)\nDefinition {name} : fstm :=\n  {lp.block(fn.body)}.\n'
    except Untranslatable as e:
        return f'(* source: {SRC} :: {qual} - NOT TRANSLATED: {e} *)\n' \
               f'Definition {name}_UNTRANSLATED : unit := tt.\n'


def main():
    head = ('(** Gen/GenC15.v - GENERATED by tools/py2coq_c15.py from the current source under the\n'
            '    repository; do not edit.  See the translator for the (fail-closed) subset and what it\n'
            '    drops. *)\n'
            'From PV Require Import FsRewrite.\n'
            'Open Scope string_scope.\n\n')
    try:
        tree = ast.parse((REPO / SRC).read_text())
    except (OSError, SyntaxError) as e:
        text = head + f'(* cannot read {SRC}: {e} *)\nDefinition gen_c15_UNTRANSLATED : unit := tt.\n'
    else:
        parts = [gen_is_same_file(tree),
                 gen_method(tree, 'move_file', 'gen_move_file'),
                 gen_method(tree, 'remove_temp_file', 'gen_remove_temp_file'),
                 gen_method(tree, 'move_temp_file', 'gen_move_temp_file'),
                 gen_method(tree, 'StreamRewriter.in_to_out', 'gen_stream_in_to_out'),
                 gen_method(tree, 'ObjectRewriter.in_to_out', 'gen_object_in_to_out'),
                 gen_loop(tree)]
        text = head + '\n'.join(parts)
    if not OUT.exists() or OUT.read_text() != text:
        OUT.write_text(text)


if __name__ == '__main__':
    main()
