"""Tie B for C17: regenerate coq/theories/Gen/GenC17.v from the CURRENT source of

  pypyr/subproc.py        Command._run, Command.run, SubprocessResult.check_returncode
  pypyr/steps/dsl/cmd.py  CmdStep.run_step
  pypyr/aio/subproc.py    Command._spawn (result construction), Command._run (serial sub-list),
                          Command.parse_results / _parse_result, Commands.run (aggregation)
  pypyr/steps/dsl/cmdasync.py  AsyncCmdStep.run_step

Each method becomes one Coq definition over the state-and-exception combinators of
Model/Cmd.v ("Vocabulary of the definitions generated from the source"); Proofs/GenC17Proofs.v
proves them equal to the hand-written model.  Repository root: $VERIF_REPO (default /repo).

Fail-closed: a statement or expression outside the subset below makes that definition come out
as <name>_UNTRANSLATED (reason in a comment), so the equality lemmas stop compiling.

Subset and what is dropped (trusted base):
  * docstrings, `assert`, `logger.*(...)` calls, `if` statements whose branches only log: dropped.
  * `x = e`                 let x_n := e in ...            (SSA; a fresh name per assignment)
  * `if c: A [else: B]` with only pure assignments inside   let '(x', y') := if c then .. else (x, y)
  * `if c: A else: B` otherwise                             if c then [A;K] else [B;K]
  * `for x in xs: B`        for_each xs (fun x s => [B]) ;  `break` only as `if c: break` at the
                            end of a loop body (for_each_until)
  * `try: B finally: H`     finally_ [B] (fun s => [H])
  * `try: B except Exception as ex: H` (aio serial loop)    catch_ [B] (fun ex s => [H])
  * `with self.output_handles() as (stdout, stderr): B`     B with two opaque handles (opening and
                            closing files is not modelled; `stdout=`/`stderr=`/`cwd=`/`encoding=`
                            keywords of the spawn calls are dropped)
  * `raise X(...)`          raise_new "X" s      (the message is dropped)
  * calls: subprocess.run (keywords capture_output, check, text, shell kept; others listed above
    dropped; any other keyword is untranslatable), shlex.split / shlexer, x.rstrip(),
    x.decode(enc) (identity on ASCII, trusted), completed.check_returncode(),
    SubprocessResult(...), SubprocessError(...), MultiError(msg, errors), len(x) == n, x[0],
    isinstance(x, SimpleCommandTypes | Sequence | Exception | SubprocessResult | list | (list, tuple)),
    list.append / list.extend on the tracked lists, self._run / self._spawn / cmd.run / ... per
    the signature tables below.
  * attribute and parameter TYPES come from the tables below (Python is untyped): e.g. Command.cmd is
    `str | list[str]`, `self.results` is the list of result objects.
"""
import ast
import os
import sys
from pathlib import Path

REPO = Path(os.environ.get('VERIF_REPO', '/repo'))
OUT = Path(__file__).resolve().parent.parent / 'coq' / 'theories' / 'Gen' / 'GenC17.v'


class Untranslatable(Exception):
    pass


def coq_str(s):
    if any(ord(c) < 32 or ord(c) > 126 for c in s):
        raise Untranslatable('non-printable constant')
    return '"' + s.replace('"', '""') + '"'


def is_logging(st):
    return (isinstance(st, ast.Expr) and isinstance(st.value, ast.Call)
            and isinstance(st.value.func, ast.Attribute)
            and ((isinstance(st.value.func.value, ast.Name) and st.value.func.value.id == 'logger')
                 or ast.unparse(st.value.func.value) == 'self.logger'))


def is_doc(st):
    return isinstance(st, ast.Expr) and isinstance(st.value, ast.Constant) and isinstance(st.value.value, str)


def is_noise(st):
    if is_doc(st) or is_logging(st) or isinstance(st, (ast.Assert, ast.Pass)):
        return True
    if isinstance(st, ast.If):
        return all(is_noise(x) for x in st.body) and all(is_noise(x) for x in st.orelse) \
            and pure_test(st.test)
    return False


def pure_test(e):
    """tests that certainly have no effect: names, attributes, not/and/or of those."""
    if isinstance(e, (ast.Name, ast.Constant)):
        return True
    if isinstance(e, ast.Attribute):
        return pure_test(e.value)
    if isinstance(e, ast.UnaryOp) and isinstance(e.op, ast.Not):
        return pure_test(e.operand)
    if isinstance(e, ast.BoolOp):
        return all(pure_test(v) for v in e.values)
    return False


def strip(stmts):
    return [st for st in stmts if not is_noise(st)]


def find_function(tree, qual):
    body, node = tree.body, None
    for p in qual.split('.'):
        node = next((n for n in body if isinstance(n, (ast.FunctionDef, ast.AsyncFunctionDef, ast.ClassDef))
                     and n.name == p), None)
        if node is None:
            raise Untranslatable(f'{qual} not found')
        body = node.body
    return node


# types: bool string strs val res1 res1s completed handle srun pycmd pycmds Z
#        (aio) aent aents rentry rentrys perrs acmdo acmdos

class Tr:
    """translator for one method.  spec:
         params   [(python name, coq name, type)]   (self excluded)
         attrs    {attr of self: (coq term, type)}   — cells use the marker ('CELL', cellname)
         cells    {cellname: (getter fmt, setter fmt, type)}   fmt uses {s} / {v}
         loopobj  {python loop variable: {attr: ('CELL', cellname) | (term fmt with {x}, type)}}
         result   'unit' | type      (value-returning methods)
    """

    def __init__(self, spec):
        self.spec = spec
        self.fresh = 0
        self.in_loop = 0
        self.protected = 0          # inside try / for bodies: no return
        # ('eff',) unit-valued with effects; ('effv', T) value-returning with effects;
        # ('pure', T) no effects; ('gen', T) generator / accumulator contributions
        self.mode = tuple(spec.get('mode', ('eff',)))

    def A(self):
        return 'andthenv' if self.mode[0] == 'effv' else 'andthen'

    def B(self):
        return 'bindvv' if self.mode[0] == 'effv' else 'bindv'

    def sub(self, mode, f):
        old, self.mode = self.mode, mode
        self.protected += 1
        try:
            return f()
        finally:
            self.mode = old
            self.protected -= 1

    def new(self, base):
        self.fresh += 1
        base = ''.join(ch if ch.isalnum() or ch == '_' else '_' for ch in base)
        return f'{base}_{self.fresh}'

    # ---------------------------------------------------------------- expressions
    def cell_get(self, cell, s):
        return (self.spec['cells'][cell][0].format(s=s), self.spec['cells'][cell][2])

    def expr(self, e, env, s, want=None):
        t, ty = self.expr0(e, env, s, want)
        return self.coerce(t, ty, want)

    def coerce(self, t, ty, want):
        if want is None or want == ty:
            return (t, ty)
        if want == 'val' and ty == 'string':
            return (f'(VStr {t})', 'val')
        if want == 'val' and ty == 'strs':
            return (f'(VList (map VStr {t}))', 'val')
        if want == 'string' and ty == 'srun':
            return (f'(as_str {t})', 'string')
        if want == 'cmdout' and ty == 'res1':
            return (f'(OutSingle {t})', 'cmdout')
        if want == 'cmdout' and ty == 'res1s':
            return (f'(OutList (map EOne {t}))', 'cmdout')
        if want == 'cmdout' and ty == 'rentrys':
            return (f'(OutList {t})', 'cmdout')
        if want == 'rentry' and ty == 'res1':
            return (f'(EOne {t})', 'rentry')
        if want == 'rentry' and ty == 'res1s':
            return (f'(ESer {t})', 'rentry')
        if want == 'string' and ty == 'aent':
            return (f'(aent_as_str {t})', 'string')
        if want == 'perro' and ty == 'perr':
            return (f'(Some {t})', 'perro')
        if want == 'perr' and ty == 'perro':
            return (f'(perro_get {t})', 'perr')
        if want == 'perr' and ty == 'rentry':
            return (f'(rres_as_exn {t})', 'perr')
        if want == 'res1' and ty == 'rentry':
            return (f'(rres_as_res {t})', 'res1')
        if want == 'rentry' and ty == 'res1':
            return (f'(EOne {t})', 'rentry')
        raise Untranslatable(f'type {ty} where {want} expected')

    def expr0(self, e, env, s, want=None):
        if isinstance(e, ast.Name):
            if e.id in env:
                return env[e.id]
            if e.id in self.spec.get('local_cells', {}):
                return self.cell_get(self.spec['local_cells'][e.id], s)
            raise Untranslatable(f'unknown name {e.id}')
        if isinstance(e, ast.Constant):
            v = e.value
            if isinstance(v, bool):
                return ('true' if v else 'false', 'bool')
            if v is None and want == 'val':
                return ('VNone', 'val')
            if v is None and want == 'perro':
                return ('None', 'perro')
            if isinstance(v, int) and want in ('Z', None):
                return (f'({v})%Z', 'Z')
            raise Untranslatable(f'constant {v!r}')
        if isinstance(e, ast.Attribute):
            key = ast.unparse(e)
            if key in self.spec.get('state_globals', {}):
                return self.cell_get(self.spec['state_globals'][key], s)
            if key in self.spec.get('globals', {}):
                return self.spec['globals'][key]
            if isinstance(e.value, ast.Name) and e.value.id == 'self':
                if e.attr not in self.spec['attrs']:
                    raise Untranslatable(f'self.{e.attr}')
                a = self.spec['attrs'][e.attr]
                if a[0] == 'CELL':
                    return self.cell_get(a[1], s)
                return a
            if isinstance(e.value, ast.Name) and e.value.id in self.spec.get('loopobj', {}) \
                    and e.value.id in env:
                tbl = self.spec['loopobj'][e.value.id]
                if e.attr not in tbl:
                    raise Untranslatable(f'{key}')
                a = tbl[e.attr]
                if a[0] == 'CELL':
                    return self.cell_get(a[1], s)
                return (a[0].format(x=env[e.value.id][0], s=s), a[1])
            t, ty = self.expr(e.value, env, s)
            fields = {('completed', 'args'): ('cp_args', 'val'), ('completed', 'returncode'): ('cp_returncode', 'Z'),
                      ('completed', 'stdout'): ('cp_stdout', 'val'), ('completed', 'stderr'): ('cp_stderr', 'val'),
                      ('proc', 'returncode'): ('pr_returncode', 'Z'),
                      ('res1', 'returncode'): ('res_returncode', 'Z'),
                      ('res1', 'cmd'): ('res_cmd', 'val'), ('res1', 'stdout'): ('res_stdout', 'val'),
                      ('res1', 'stderr'): ('res_stderr', 'val')}
            if (ty, e.attr) in fields:
                fn, fty = fields[(ty, e.attr)]
                return (f'({fn} {t})', fty)
            raise Untranslatable(f'attribute {e.attr} of {ty}')
        if isinstance(e, ast.UnaryOp) and isinstance(e.op, ast.Not):
            return (f'(negb {self.truth(e.operand, env, s)})', 'bool')
        if isinstance(e, ast.BoolOp):
            ts = [self.truth(v, env, s) for v in e.values]
            op = 'andb' if isinstance(e.op, ast.And) else 'orb'
            acc = ts[-1]
            for t in reversed(ts[:-1]):
                acc = f'({op} {t} {acc})'
            return (acc, 'bool')
        if isinstance(e, ast.IfExp):
            c = self.truth(e.test, env, s)
            a, ta = self.expr(e.body, env, s)
            b, tb = self.expr(e.orelse, env, s)
            if ta != tb:
                if {ta, tb} <= {'string', 'strs', 'val'}:
                    a, _ = self.coerce(a, ta, 'val')
                    b, _ = self.coerce(b, tb, 'val')
                    ta = 'val'
                else:
                    raise Untranslatable(f'conditional expression of types {ta} / {tb}')
            return (f'(if {c} then {a} else {b})', ta)
        if isinstance(e, ast.Compare) and len(e.ops) == 1 and isinstance(e.ops[0], (ast.Eq, ast.NotEq)):
            lhs, rhs = e.left, e.comparators[0]
            if isinstance(lhs, ast.Call) and isinstance(lhs.func, ast.Name) and lhs.func.id == 'len' \
                    and len(lhs.args) == 1 and isinstance(rhs, ast.Constant) and isinstance(rhs.value, int) \
                    and not isinstance(rhs.value, bool) and 0 <= rhs.value < 100:
                t, ty = self.expr(lhs.args[0], env, s)
                if ty not in ('res1s', 'rentrys', 'strs', 'perrs'):
                    raise Untranslatable(f'len of {ty}')
                r = f'(Nat.eqb (List.length {t}) {rhs.value})'
                return (r if isinstance(e.ops[0], ast.Eq) else f'(negb {r})', 'bool')
            raise Untranslatable('comparison')
        if isinstance(e, ast.Subscript):
            t, ty = self.expr(e.value, env, s)
            if ty == 'res1s' and isinstance(e.slice, ast.Constant) and e.slice.value == 0:
                return (f'(first_res {t})', 'res1')
            raise Untranslatable('subscript')
        if isinstance(e, ast.Call):
            return self.call_expr(e, env, s, want)
        if isinstance(e, ast.List) and not e.elts and want in ('res1s', 'perrs', 'rentrys'):
            return ('[]', want)
        raise Untranslatable(f'expression {type(e).__name__}')

    def kwargs(self, call, names, allow_pos=()):
        """keyword arguments as a dict; positional ones are named by allow_pos."""
        out = {}
        if len(call.args) > len(allow_pos):
            raise Untranslatable('too many positional arguments')
        for n, a in zip(allow_pos, call.args):
            out[n] = a
        for kw in call.keywords:
            if kw.arg is None or kw.arg not in names or kw.arg in out:
                raise Untranslatable(f'keyword {kw.arg}')
            out[kw.arg] = kw.value
        return out

    def call_expr(self, e, env, s, want):
        fn = ast.unparse(e.func)
        if fn == 'isinstance' and len(e.args) == 2 and not e.keywords:
            t, ty = self.expr(e.args[0], env, s)
            cls = ast.unparse(e.args[1])
            table = {('srun', 'SimpleCommandTypes'): 'is_simple', ('srun', 'Sequence'): 'is_sequence',
                     ('aent', '(list, tuple)'): 'aent_is_list', ('aent', 'list'): 'aent_is_list',
                     ('rentry', 'Exception'): 'rres_is_exn', ('rentry', 'SubprocessResult'): 'rres_is_result',
                     ('rentry', 'list'): 'rres_is_list'}
            if (ty, cls) not in table:
                raise Untranslatable(f'isinstance({ty}, {cls})')
            return (f'({table[(ty, cls)]} {t})', 'bool')
        if fn in ('shlex.split', 'shlexer') and len(e.args) == 1 and not e.keywords:
            t, _ = self.expr(e.args[0], env, s, 'string')
            return (f'(prim_shlex_split {t})', 'strs')
        if isinstance(e.func, ast.Attribute) and e.func.attr == 'rstrip' and not e.args and not e.keywords:
            t, ty = self.expr(e.func.value, env, s)
            if ty != 'val':
                raise Untranslatable(f'rstrip on {ty}')
            return (f'(val_rstrip {t})', 'val')
        if isinstance(e.func, ast.Attribute) and e.func.attr == 'decode' and len(e.args) == 1 and not e.keywords:
            t, ty = self.expr(e.func.value, env, s)
            if ty != 'val' or ast.unparse(e.args[0]) != 'self.encoding':
                raise Untranslatable('decode')
            return (f'(val_decode {t})', 'val')
        if fn == 'SubprocessResult':
            kw = self.kwargs(e, ('cmd', 'returncode', 'stdout', 'stderr'), ('cmd', 'returncode', 'stdout', 'stderr'))
            if 'cmd' not in kw or 'returncode' not in kw:
                raise Untranslatable('SubprocessResult without cmd/returncode')
            c, _ = self.expr(kw['cmd'], env, s, 'val')
            rc, _ = self.expr(kw['returncode'], env, s, 'Z')
            so = self.expr(kw['stdout'], env, s, 'val')[0] if 'stdout' in kw else 'VNone'
            se = self.expr(kw['stderr'], env, s, 'val')[0] if 'stderr' in kw else 'VNone'
            return (f'(R1 {c} {rc} {so} {se})', 'res1')
        if fn == 'SubprocessError':
            kw = self.kwargs(e, ('returncode', 'cmd', 'stdout', 'stderr'), ('returncode', 'cmd', 'stdout', 'stderr'))
            if 'cmd' not in kw or 'returncode' not in kw:
                raise Untranslatable('SubprocessError without cmd/returncode')
            c, _ = self.expr(kw['cmd'], env, s, 'val')
            rc, _ = self.expr(kw['returncode'], env, s, 'Z')
            so = self.expr(kw['stdout'], env, s, 'val')[0] if 'stdout' in kw else 'VNone'
            se = self.expr(kw['stderr'], env, s, 'val')[0] if 'stderr' in kw else 'VNone'
            return (f'(PErr "pypyr.errors.SubprocessError" {c} {rc} {so} {se})', 'perr')
        if isinstance(e.func, ast.Attribute) and not e.args and not e.keywords:
            recv = e.func.value
            if isinstance(recv, ast.Name) and recv.id in self.spec.get('loopobj_calls', {}) and recv.id in env \
                    and e.func.attr in self.spec['loopobj_calls'][recv.id]:
                t, ty = self.spec['loopobj_calls'][recv.id][e.func.attr]
                return (t.format(x=env[recv.id][0], s=s), ty)
            if isinstance(recv, ast.Name) and recv.id in env:
                rt, rty = env[recv.id]
                mc = self.spec.get('method_calls', {})
                if (rty, e.func.attr) in mc:
                    t, ty = mc[(rty, e.func.attr)]
                    return (t.format(t=rt), ty)
        pure = self.spec.get('pure_calls', {})
        if fn in pure:
            cname, argtys, resty = pure[fn]
            if e.keywords or len(e.args) != len(argtys):
                raise Untranslatable(f'arguments of {fn}')
            args = ' '.join(self.expr(a, env, s, ty)[0] for a, ty in zip(e.args, argtys))
            return (f'({cname} {args})', resty)
        raise Untranslatable(f'call {fn}')

    def truth(self, e, env, s):
        t, ty = self.expr(e, env, s)
        if ty == 'bool':
            return t
        if ty == 'val':
            return f'(py_truth {t})'
        if ty in ('res1s', 'strs', 'perrs', 'rentrys'):
            return f'(negb (is_nil {t}))'
        if ty == 'Z':
            return f'(negb (Z.eqb {t} 0))'
        if ty == 'perro':
            return f'(perro_truth {t})'
        raise Untranslatable(f'truthiness of {ty}')

    # ---------------------------------------------------------------- statements
    LIST_ELT = {'res1s': 'res1', 'perrs': 'perr', 'rentrys': 'rentry'}

    def is_cell_init(self, st):
        """`name = []` / `name: T = []` for a local that lives in a state cell"""
        if isinstance(st, ast.AnnAssign) and st.value is not None and isinstance(st.target, ast.Name):
            tgt, val = st.target, st.value
        elif isinstance(st, ast.Assign) and len(st.targets) == 1 and isinstance(st.targets[0], ast.Name):
            tgt, val = st.targets[0], st.value
        else:
            return None
        if tgt.id in self.spec.get('local_cells', {}) and isinstance(val, ast.List) and not val.elts:
            return tgt.id
        return None

    def pure_block(self, stmts):
        """only assignments of effect-free expressions to plain names (possibly under ifs)?"""
        for st in strip(stmts):
            if self.is_cell_init(st):
                return False
            if isinstance(st, ast.Assign) and len(st.targets) == 1 and isinstance(st.targets[0], ast.Name) \
                    and not self.effect_call(st.value):
                continue
            if isinstance(st, ast.If) and self.pure_block(st.body) and self.pure_block(st.orelse) \
                    and not self.effect_call(st.test):
                continue
            return False
        return True

    def effect_call(self, e):
        for n in ast.walk(e):
            if isinstance(n, (ast.Await, ast.Yield, ast.YieldFrom)):
                return True
            if isinstance(n, ast.Call):
                fn = ast.unparse(n.func)
                if fn in self.spec.get('effects', {}) or fn in ('subprocess.run', 'asyncio.run'):
                    return True
                if isinstance(n.func, ast.Attribute) and n.func.attr in ('append', 'extend'):
                    return True
                if isinstance(n.func, ast.Attribute) and n.func.attr == 'check_returncode' \
                        and self.spec.get('check_returncode_effect'):
                    return True
        return False

    def assigned(self, stmts, acc):
        for st in strip(stmts):
            if isinstance(st, ast.Assign):
                if st.targets[0].id not in acc:
                    acc.append(st.targets[0].id)
            else:
                self.assigned(st.body, acc)
                self.assigned(st.orelse, acc)
        return acc

    def pure_lets(self, stmts, env, s, final):
        """stmts (pure) as nested lets ending in final(env)."""
        stmts = strip(stmts)
        if not stmts:
            return final(env)
        st, rest = stmts[0], stmts[1:]
        if isinstance(st, ast.Assign):
            x = st.targets[0].id
            if x in self.spec.get('local_cells', {}):
                raise Untranslatable(f'{x} rebound')
            t, ty = self.expr(st.value, env, s)
            v = self.new(x)
            env2 = dict(env)
            env2[x] = (v, ty)
            return f'(let {v} := {t} in {self.pure_lets(rest, env2, s, final)})'
        # pure if: tuple of the names it assigns
        names = self.assigned([st], [])
        for n in names:
            if n not in env:
                raise Untranslatable(f'{n} assigned only on some paths')
        c = self.truth(st.test, env, s)

        def tup(env_):
            return '(' + ', '.join(env_[n][0] for n in names) + ')' if len(names) > 1 else env_[names[0]][0]
        a = self.pure_lets(st.body, env, s, tup)
        b = self.pure_lets(st.orelse, env, s, tup)
        env2 = dict(env)
        news = []
        for n in names:
            v = self.new(n)
            env2[n] = (v, self.join_type(n, st, env, s))
            news.append(v)
        pat = "'(" + ', '.join(news) + ')' if len(news) > 1 else news[0]
        return f'(let {pat} := (if {c} then {a} else {b}) in {self.pure_lets(rest, env2, s, final)})'

    def join_type(self, n, st, env, s):
        """type of name n after the pure if: every assignment to it must keep its type."""
        ty0 = env[n][1]
        probe = Tr(self.spec)
        probe.fresh = 10 ** 6

        def walk(stmts, env_):
            for x in strip(stmts):
                if isinstance(x, ast.Assign):
                    t, ty = probe.expr(x.value, env_, s)
                    if x.targets[0].id == n and ty != ty0:
                        raise Untranslatable(f'{n} changes type {ty0} -> {ty} under a condition')
                    env_ = dict(env_)
                    env_[x.targets[0].id] = (probe.new('p'), ty)
                else:
                    walk(x.body, env_)
                    walk(x.orelse, env_)
        walk([st], env)
        return ty0

    def ok(self, s):
        return f'(GOk, {s})'

    def block(self, stmts, env, s, k):
        """stmts then continuation k(env, s) -> term of the current mode's type."""
        if self.mode[0] == 'pure':
            return self.pure_fn(stmts, env, s)
        if self.mode[0] == 'gen':
            return self.contrib(stmts, env, s, self.spec['gen_acc'])
        stmts = strip(stmts)
        if not stmts:
            return k(env, s)
        st, rest = stmts[0], stmts[1:]

        def cont(env2, s2):
            return self.block(rest, env2, s2, k)

        cell = self.is_cell_init(st)
        if cell:
            s2 = self.new('s')
            c = self.spec['cells'][self.spec['local_cells'][cell]]
            return f'(let {s2} := {c[1].format(s=s, v="[]")} in {cont(env, s2)})'
        if self.pure_block([st]):
            return self.pure_lets([st], env, s, lambda env2: cont(env2, s))
        if isinstance(st, ast.Assign) and len(st.targets) == 1 and isinstance(st.targets[0], (ast.Name, ast.Tuple)):
            return self.effect_value(st.value, env, s, st.targets[0], cont)
        if isinstance(st, ast.Assign) and len(st.targets) == 1 and isinstance(st.targets[0], ast.Subscript):
            tgt = st.targets[0]
            if ast.unparse(tgt.value) in ('self.context', 'context') and isinstance(tgt.slice, ast.Constant) \
                    and tgt.slice.value == 'cmdOut' and 'out' in self.spec['cells']:
                v, _ = self.expr(st.value, env, s, 'cmdout')
                s2 = self.new('s')
                return f'(let {s2} := {self.spec["cells"]["out"][1].format(s=s, v=v)} in {cont(env, s2)})'
            raise Untranslatable('subscript assignment')
        if isinstance(st, ast.Expr) and isinstance(st.value, (ast.Call, ast.Await)):
            return self.effect_value(st.value, env, s, None, cont)
        if isinstance(st, ast.If):
            if self.is_break_if(st):
                raise Untranslatable('break not at the end of a loop body')
            c = self.truth(st.test, env, s)
            a = self.block(st.body, env, s, cont)
            b = self.block(st.orelse, env, s, cont)
            return f'(if {c} then {a} else {b})'
        if isinstance(st, ast.For) and not st.orelse and isinstance(st.target, ast.Name):
            return self.for_loop(st, env, s, cont)
        if isinstance(st, ast.Try):
            return self.try_stmt(st, env, s, cont)
        if isinstance(st, ast.With) and len(st.items) == 1 \
                and ast.unparse(st.items[0].context_expr) == 'self.output_handles()' \
                and isinstance(st.items[0].optional_vars, ast.Tuple) \
                and all(isinstance(x, ast.Name) for x in st.items[0].optional_vars.elts) \
                and len(st.items[0].optional_vars.elts) == 2 and 'handles' in self.spec:
            env2 = dict(env)
            for x, h in zip(st.items[0].optional_vars.elts, self.spec['handles']):
                env2[x.id] = h
            return self.block(st.body, env2, s, cont)
        if isinstance(st, ast.Raise) and st.exc is not None and isinstance(st.exc, ast.Call) \
                and isinstance(st.exc.func, ast.Name):
            if self.mode[0] != 'eff':
                raise Untranslatable('raise in a value-returning method')
            name = st.exc.func.id
            if name == 'MultiError' and len(st.exc.args) == 2 and not st.exc.keywords:
                errs, _ = self.expr(st.exc.args[1], env, s, 'perrs')
                return f'(raise_multi {errs} {s})'
            return f'(raise_new {coq_str(name)} {s})'
        if isinstance(st, ast.Return):
            return self.ret(st, env, s)
        raise Untranslatable(f'statement {type(st).__name__}: {ast.unparse(st)[:60]!r}')

    def ret(self, st, env, s):
        if self.protected:
            raise Untranslatable('return inside a loop or try body')
        if self.mode[0] == 'eff':
            if st.value is not None and not (isinstance(st.value, ast.Constant) and st.value.value is None):
                raise Untranslatable('return with a value')
            return f'(GOk, {s})'
        res = self.mode[1]
        if st.value is None:
            raise Untranslatable('bare return')
        if isinstance(st.value, ast.Await):
            tgt = ast.Name(id='__ret', ctx=ast.Store())

            def fin(env2, s2):
                t, _ = self.coerce(env2['__ret'][0], env2['__ret'][1], res)
                return f'(GVal {t}, {s2})'
            return self.effect_value(st.value, env, s, tgt, fin)
        t, _ = self.expr(st.value, env, s, res)
        return f'(GVal {t}, {s})'

    def is_break_if(self, st):
        return isinstance(st, ast.If) and not st.orelse and len(strip(st.body)) == 1 \
            and isinstance(strip(st.body)[0], ast.Break)

    ITER = {'srun': ('(seq_items {t})', 'string'), 'strs': ('{t}', 'string'), 'pycmds': ('{t}', 'pycmd'),
            'res1s': ('{t}', 'res1'), 'acmdos': ('{t}', 'acmdo'), 'rentrys': ('{t}', 'rentry'),
            'aent': ('(aent_items {t})', 'string'), 'rentry': ('(rres_items {t})', 'res1'),
            'perrs': ('{t}', 'perr')}

    def for_loop(self, st, env, s, cont):
        it, ity = self.expr(st.iter, env, s)
        if ity not in self.ITER:
            raise Untranslatable(f'iteration over {ity}')
        it = self.ITER[ity][0].format(t=it)
        x = self.new(st.target.id)
        s1, s2 = self.new('s'), self.new('s')
        env2 = dict(env)
        env2[st.target.id] = (x, self.ITER[ity][1])
        body = strip(st.body)
        if any(isinstance(n, ast.Continue) for n in ast.walk(st)):
            raise Untranslatable('continue')
        self.in_loop += 1
        try:
            enter, inner_s = '', s1
            if st.target.id in self.spec.get('loopobj', {}) and self.spec.get('fresh_obj'):
                # a distinct, freshly constructed object per iteration: its own cell starts empty
                inner_s = self.new('s')
                enter = f'let {inner_s} := {self.spec["fresh_obj"].format(s=s1)} in '
            if body and self.is_break_if(body[-1]):
                brk = body[-1]
                if any(isinstance(n, ast.Break) for b in body[:-1] for n in ast.walk(b)):
                    raise Untranslatable('break')
                b = self.sub(('effv', 'bool'), lambda: self.block(
                    body[:-1], env2, inner_s, lambda e3, s3: f'(GVal {self.truth(brk.test, e3, s3)}, {s3})'))
                term = f'(for_each_until {it} (fun {x} {s1} => {enter}{b}) {s})'
            else:
                if any(isinstance(n, ast.Break) for n in ast.walk(st)):
                    raise Untranslatable('break')
                b = self.sub(('eff',), lambda: self.block(body, env2, inner_s, lambda e3, s3: self.ok(s3)))
                term = f'(for_each {it} (fun {x} {s1} => {enter}{b}) {s})'
        finally:
            self.in_loop -= 1
        return f'({self.A()} {term} (fun {s2} => {cont(env, s2)}))'

    def try_stmt(self, st, env, s, cont):
        if st.orelse:
            raise Untranslatable('try/else')
        s1, s2 = self.new('s'), self.new('s')
        if st.finalbody and not st.handlers:
            body = self.sub(('eff',), lambda: self.block(st.body, env, s, lambda e2, s3: self.ok(s3)))
            fin = self.sub(('eff',), lambda: self.block(st.finalbody, env, s1, lambda e2, s3: self.ok(s3)))
            return f'({self.A()} (finally_ {body} (fun {s1} => {fin})) (fun {s2} => {cont(env, s2)}))'
        if len(st.handlers) == 1 and not st.finalbody and st.handlers[0].name \
                and isinstance(st.handlers[0].type, ast.Name) and st.handlers[0].type.id == 'Exception':
            h = st.handlers[0]
            body = self.sub(('eff',), lambda: self.block(st.body, env, s, lambda e2, s3: self.ok(s3)))
            ex = self.new(h.name)
            env2 = dict(env)
            env2[h.name] = (f'(res_of_exn {ex})', 'res1')
            hb = self.sub(('eff',), lambda: self.block(h.body, env2, s1, lambda e2, s3: self.ok(s3)))
            return f'({self.A()} (catch_ {body} (fun {ex} {s1} => {hb})) (fun {s2} => {cont(env, s2)}))'
        raise Untranslatable('try shape')

    def effect_value(self, e, env, s, target, cont):
        """a call with effects; binds its value to `target` (a Name / Tuple node, or None)."""
        if isinstance(e, ast.Await):
            e = e.value
        if not isinstance(e, ast.Call):
            raise Untranslatable('effectful non-call')
        fn = ast.unparse(e.func)
        s2 = self.new('s')

        def bind(term, ty):
            env2 = dict(env)
            if target is None:
                pat = self.new('u')
            elif isinstance(target, ast.Name):
                if target.id in self.spec.get('local_cells', {}):
                    raise Untranslatable(f'{target.id} rebound')
                pat = self.new(target.id)
                env2[target.id] = (pat, ty)
            else:
                if not (isinstance(ty, tuple) and len(ty) == len(target.elts)
                        and all(isinstance(x, ast.Name) for x in target.elts)):
                    raise Untranslatable('tuple target')
                vs = []
                for x, xty in zip(target.elts, ty):
                    v = self.new(x.id)
                    env2[x.id] = (v, xty)
                    vs.append(v)
                pat = "'(" + ', '.join(vs) + ')'
            return f'({self.B()} {term} (fun {pat} {s2} => {cont(env2, s2)}))'

        def unit(term):
            if target is not None:
                raise Untranslatable(f'value of {fn}')
            return f'({self.A()} {term} (fun {s2} => {cont(env, s2)}))'

        def handle_kw(call, names):
            out = []
            for name in names:
                kw = [k for k in call.keywords if k.arg == name]
                if len(kw) != 1:
                    raise Untranslatable(f'{name}= of {fn}')
                t, ty = self.expr(kw[0].value, env, s)
                if ty != 'pipe':
                    raise Untranslatable(f'{name}= is not an output handle')
                out.append(t)
            return out

        if fn == 'subprocess.run':
            kw = self.kwargs(e, ('capture_output', 'check', 'text', 'shell', 'cwd', 'encoding', 'stdout', 'stderr'),
                             ('args',))
            if 'args' not in kw:
                raise Untranslatable('subprocess.run without args')
            a, _ = self.expr(kw['args'], env, s, 'val')
            flags = []
            for name in ('capture_output', 'check', 'text', 'shell'):
                flags.append(self.truth(kw[name], env, s) if name in kw else 'false')
            for name in ('stdout', 'stderr'):
                if name in kw and self.expr(kw[name], env, s)[1] != 'handle':
                    raise Untranslatable(f'{name}= is not an output handle')
            return bind(f'(prim_subprocess_run {a} {" ".join(flags)} {s})', 'completed')
        if fn == 'asyncio.create_subprocess_shell':
            if len(e.args) != 1 or {k.arg for k in e.keywords} - {'stdout', 'stderr', 'cwd'}:
                raise Untranslatable('create_subprocess_shell arguments')
            a, _ = self.expr(e.args[0], env, s, 'string')
            po, pe = handle_kw(e, ('stdout', 'stderr'))
            return bind(f'(prim_create_subprocess (VStr {a}) true {po} {pe} {s})', 'proc')
        if fn == 'asyncio.create_subprocess_exec':
            # exactly (argv[0], *argv[1:]): the whole argv
            if not (len(e.args) == 2 and isinstance(e.args[0], ast.Subscript) and isinstance(e.args[1], ast.Starred)
                    and isinstance(e.args[1].value, ast.Subscript)
                    and ast.unparse(e.args[0]) == ast.unparse(e.args[0].value) + '[0]'
                    and ast.unparse(e.args[1].value) == ast.unparse(e.args[0].value) + '[1:]') \
                    or {k.arg for k in e.keywords} - {'stdout', 'stderr', 'cwd'}:
                raise Untranslatable('create_subprocess_exec arguments')
            a, aty = self.expr(e.args[0].value, env, s)
            if aty != 'strs':
                raise Untranslatable('create_subprocess_exec argv type')
            po, pe = handle_kw(e, ('stdout', 'stderr'))
            return bind(f'(prim_create_subprocess (VList (map VStr {a})) false {po} {pe} {s})', 'proc')
        if fn == 'asyncio.run' and len(e.args) == 1 and not e.keywords and ast.unparse(e.args[0]) == 'self._run()' \
                and 'asyncio_run' in self.spec:
            return unit(f'({self.spec["asyncio_run"]} {s})')
        if isinstance(e.func, ast.Attribute) and e.func.attr == 'communicate' and not e.args and not e.keywords:
            t, ty = self.expr(e.func.value, env, s)
            if ty != 'proc':
                raise Untranslatable('communicate')
            return bind(f'(prim_communicate {t} {s})', ('val', 'val'))
        # list mutation on tracked cells
        if isinstance(e.func, ast.Attribute) and e.func.attr in ('append', 'extend') and len(e.args) == 1 \
                and not e.keywords and target is None:
            cell = self.cell_of(e.func.value, env)
            if cell is None:
                raise Untranslatable(f'{fn} on an untracked list')
            getter, setter, cty = self.spec['cells'][cell]
            if e.func.attr == 'append':
                v, _ = self.expr(e.args[0], env, s, self.LIST_ELT[cty])
                new = f'({getter.format(s=s)} ++ [{v}])'
            else:
                v, vty = self.expr(e.args[0], env, s)
                if vty != cty:
                    raise Untranslatable(f'extend {cty} with {vty}')
                new = f'({getter.format(s=s)} ++ {v})'
            return f'(let {s2} := {setter.format(s=s, v=new)} in {cont(env, s2)})'
        if isinstance(e.func, ast.Attribute) and e.func.attr == 'check_returncode' and not e.args and not e.keywords:
            t, ty = self.expr(e.func.value, env, s)
            if ty == 'completed':
                return unit(f'(prim_check_returncode {t} {s})')
            raise Untranslatable('check_returncode')
        eff = self.spec.get('effects', {})
        key = fn
        if isinstance(e.func, ast.Attribute) and isinstance(e.func.value, ast.Name) \
                and e.func.value.id in self.spec.get('loopobj', {}) and e.func.value.id in env:
            key = f'<{e.func.value.id}>.{e.func.attr}'
        if key in eff:
            cname, params, resty, passobj = eff[key]      # params: [(python name, type)]
            given = {}
            if len(e.args) > len(params):
                raise Untranslatable(f'arguments of {fn}')
            for (pn, _), a in zip(params, e.args):
                given[pn] = a
            for kw in e.keywords:
                if kw.arg not in [pn for pn, _ in params] or kw.arg in given:
                    raise Untranslatable(f'keyword {kw.arg} of {fn}')
                given[kw.arg] = kw.value
            args = []
            for pn, ty in params:
                if pn not in given:
                    raise Untranslatable(f'missing argument {pn} of {fn}')
                if ty == 'handle':
                    if self.expr(given[pn], env, s)[1] != 'handle':
                        raise Untranslatable('handle argument')
                    continue
                args.append(self.expr(given[pn], env, s, ty)[0])
            obj = (env[e.func.value.id][0] + ' ') if passobj else ''
            call = f'({cname} {obj}{" ".join(args)}{" " if args else ""}{s})'
            if resty == 'unit':
                return unit(call)
            return bind(call, resty)
        raise Untranslatable(f'call {fn}')

    def cell_of(self, e, env):
        key = ast.unparse(e)
        if key in self.spec.get('cell_exprs', {}):
            return self.spec['cell_exprs'][key]
        if isinstance(e, ast.Attribute) and isinstance(e.value, ast.Name):
            if e.value.id == 'self' and self.spec['attrs'].get(e.attr, ('', ''))[0] == 'CELL':
                return self.spec['attrs'][e.attr][1]
            if e.value.id in self.spec.get('loopobj', {}) and e.value.id in env:
                a = self.spec['loopobj'][e.value.id].get(e.attr)
                if a and a[0] == 'CELL':
                    return a[1]
        if isinstance(e, ast.Name) and e.id not in env and e.id in self.spec.get('local_cells', {}):
            return self.spec['local_cells'][e.id]
        return None

    # ---------------------------------------------------------------- pure methods
    def pure_fn(self, stmts, env, s):
        """if / return / pure assignment only -> a plain term of the result type."""
        stmts = strip(stmts)
        if not stmts:
            raise Untranslatable('falls off the end without return')
        st, rest = stmts[0], stmts[1:]
        if isinstance(st, ast.Return):
            if st.value is None:
                raise Untranslatable('bare return')
            return self.expr(st.value, env, s, self.mode[1])[0]
        acc = self.acc_init(st)
        if acc is None and self.pure_block([st]):
            return self.pure_lets([st], env, s, lambda env2: self.pure_fn(rest, env2, s))
        if acc is None and isinstance(st, ast.If) and not self.effect_call(st.test):
            c = self.truth(st.test, env, s)
            a = self.pure_fn(list(st.body) + rest, env, s)
            b = self.pure_fn(list(st.orelse) + rest, env, s)
            return f'(if {c} then {a} else {b})'
        if acc is not None:
            # `acc = []` ... loops that only add to acc ... `return acc`
            name, ty = acc
            terms = []
            i = 0
            while i < len(rest) and isinstance(rest[i], ast.For):
                terms.append(self.contrib([rest[i]], env, s, (name, ty)))
                i += 1
            if i == len(rest) - 1 and isinstance(rest[i], ast.Return) and isinstance(rest[i].value, ast.Name) \
                    and rest[i].value.id == name and self.mode[1] == ty:
                return '(' + ' ++ '.join(terms or ['[]']) + ')'
            raise Untranslatable('accumulator shape')
        raise Untranslatable(f'statement {type(st).__name__} in a pure method')

    def acc_init(self, st):
        if isinstance(st, ast.Assign) and len(st.targets) == 1 and isinstance(st.targets[0], ast.Name) \
                and isinstance(st.value, ast.List) and not st.value.elts \
                and st.targets[0].id in self.spec.get('accumulators', {}):
            return (st.targets[0].id, self.spec['accumulators'][st.targets[0].id])
        return None

    def contrib(self, stmts, env, s, acc):
        """what a statement list adds to the accumulator `acc` = (name | None for yield, list type):
        a list-valued term.  Only additions, loops, conditionals and pure assignments allowed."""
        name, lty = acc
        elt = self.LIST_ELT[lty]
        stmts = strip(stmts)
        if not stmts:
            return '[]'
        st, rest = stmts[0], stmts[1:]

        def then(t):
            r = self.contrib(rest, env, s, acc)
            return t if r == '[]' else f'({t} ++ {r})'
        if self.pure_block([st]):
            return self.pure_lets([st], env, s, lambda env2: self.contrib(rest, env2, s, acc))
        if isinstance(st, ast.Expr):
            v = st.value
            if name is None and isinstance(v, ast.Yield) and v.value is not None:
                return then(f'[{self.expr(v.value, env, s, elt)[0]}]')
            if name is None and isinstance(v, ast.YieldFrom):
                return then(self.expr(v.value, env, s, lty)[0])
            if name is not None and isinstance(v, ast.Call) and isinstance(v.func, ast.Attribute) \
                    and isinstance(v.func.value, ast.Name) and v.func.value.id == name and len(v.args) == 1 \
                    and not v.keywords and v.func.attr in ('append', 'extend'):
                if v.func.attr == 'append':
                    return then(f'[{self.expr(v.args[0], env, s, elt)[0]}]')
                return then(self.expr(v.args[0], env, s, lty)[0])
            raise Untranslatable(f'statement in a contribution block: {ast.unparse(st)[:50]!r}')
        if isinstance(st, ast.Assign) and len(st.targets) == 1 and isinstance(st.targets[0], ast.Name):
            # value of a pure method call
            t, ty = self.expr(st.value, env, s)
            v = self.new(st.targets[0].id)
            env2 = dict(env)
            env2[st.targets[0].id] = (v, ty)
            return f'(let {v} := {t} in {self.contrib(rest, env2, s, acc)})'
        if isinstance(st, ast.For) and not st.orelse and isinstance(st.target, ast.Name):
            it, ity = self.expr(st.iter, env, s)
            if ity not in self.ITER:
                raise Untranslatable(f'iteration over {ity}')
            x = self.new(st.target.id)
            env2 = dict(env)
            env2[st.target.id] = (x, self.ITER[ity][1])
            if any(isinstance(n, (ast.Break, ast.Continue, ast.Return)) for n in ast.walk(st)):
                raise Untranslatable('break/continue/return in a contribution loop')
            b = self.contrib(st.body, env2, s, acc)
            return then(f'(flat_map (fun {x} => {b}) {self.ITER[ity][0].format(t=it)})')
        if isinstance(st, ast.If):
            c = self.truth(st.test, env, s)
            a = self.contrib(st.body, env, s, acc)
            orelse = strip(st.orelse)
            if len(orelse) == 1 and isinstance(orelse[0], ast.Raise) and self.exhaustive(st):
                b = 'dead_branch'
            else:
                b = self.contrib(orelse, env, s, acc)
            return then(f'(if {c} then {a} else {b})')
        raise Untranslatable(f'statement {type(st).__name__} in a contribution block')

    def exhaustive(self, st):
        """is `st` the LAST test of an isinstance chain that covers its variable's type?"""
        chain = self.spec.get('exhaustive')         # (variable, [class texts])
        if not chain:
            return False
        return getattr(self, '_chain_seen', None) is not None and self._chain_seen(st)

    # ---------------------------------------------------------------- a whole method
    def method(self, fn):
        env = {}
        for py, cq, ty in self.spec['params']:
            env[py] = (cq, ty)
        declared = [a.arg for a in fn.args.args if a.arg != 'self']
        if declared != [p[0] for p in self.spec['params']] or fn.args.vararg or fn.args.kwarg or fn.args.kwonlyargs:
            raise Untranslatable(f'signature ({", ".join(declared)})')
        body = list(fn.body)
        # a local that lives in a cell must be initialised (name = []) before its first other use
        for name in self.spec.get('local_cells', {}):
            uses = [n for n in ast.walk(ast.Module(body=body, type_ignores=[]))
                    if isinstance(n, ast.Name) and n.id == name]
            uses.sort(key=lambda n: (n.lineno, n.col_offset))
            if not uses or not isinstance(uses[0].ctx, ast.Store) or self.in_nested_loop(body, uses[0]):
                raise Untranslatable(f'{name} = [] expected before any use')
            if sum(1 for n in uses if isinstance(n.ctx, ast.Store)) != 1:
                raise Untranslatable(f'{name} rebound')
        self.setup_exhaustive(body)

        def end(e2, s2):
            if self.mode[0] == 'eff':
                return f'(GOk, {s2})'
            raise Untranslatable('falls off the end without return')
        return self.block(body, env, 's', end)

    def in_nested_loop(self, body, node):
        for n in ast.walk(ast.Module(body=body, type_ignores=[])):
            if isinstance(n, (ast.For, ast.While)) and any(x is node for x in ast.walk(n)):
                return True
        return False

    def setup_exhaustive(self, body):
        chain = self.spec.get('exhaustive')
        if not chain:
            return
        var, classes = chain
        # the chain must be: if isinstance(var, C1) elif isinstance(var, C2) ... else: raise
        tests, cur, last = [], strip(body)[0] if strip(body) else None, None
        while isinstance(cur, ast.If):
            t = cur.test
            if not (isinstance(t, ast.Call) and ast.unparse(t.func) == 'isinstance' and len(t.args) == 2
                    and ast.unparse(t.args[0]) == var):
                return
            tests.append(ast.unparse(t.args[1]))
            last = cur
            nxt = strip(cur.orelse)
            cur = nxt[0] if len(nxt) == 1 else None
        if sorted(tests) == sorted(classes) and last is not None:
            self._chain_seen = lambda st: st is last


# ====================================================================== what to translate

CELLS = {
    'self': ('(g_self {s})', '(set_self {s} {v})', 'res1s'),
    'local': ('(g_local {s})', '(set_local {s} {v})', 'res1s'),
    'out': ('(g_out {s})', '(set_out {s} {v})', 'cmdout'),
}

ACELLS = {
    'local': ('(a_local {s})', '(aset_local {s} {v})', 'res1s'),
    'agg': ('(a_results {s})', '(aset_results {s} {v})', 'rentrys'),
    'errors': ('(a_errors {s})', '(aset_errors {s} {v})', 'perrs'),
    'out': ('(a_out {s})', '(aset_out {s} {v})', 'cmdout'),
}

SYNC_ATTRS = {'cmd': ('(pc_cmd self)', 'srun'), 'is_shell': ('(pc_is_shell self)', 'bool'),
              'is_save': ('(pc_is_save self)', 'bool'), 'is_text': ('(pc_is_text self)', 'bool'),
              'results': ('CELL', 'self'),
              # dropped keyword values (never reach the output): any placeholder of type handle
              'cwd': ('tt', 'handle'), 'encoding': ('tt', 'handle')}

AIO_ATTRS = {'is_shell': ('(pc_is_shell self)', 'bool'), 'is_save': ('(pc_is_save self)', 'bool'),
             'is_text': ('(pc_is_text self)', 'bool'), 'cwd': ('tt', 'handle')}

RES_ATTRS = {'returncode': ('(res_returncode self)', 'Z'), 'cmd': ('(res_cmd self)', 'val'),
             'stdout': ('(res_stdout self)', 'val'), 'stderr': ('(res_stderr self)', 'val')}

UNITS = [
    dict(section='GenSubproc', file='pypyr/subproc.py',
         variables=[('prim_subprocess_run', 'val -> bool -> bool -> bool -> bool -> gst -> gval completed * gst',
                     'subprocess.run(args, capture_output, check, text, shell)'),
                    ('prim_check_returncode', 'completed -> gst -> GR', 'CompletedProcess.check_returncode()'),
                    ('prim_shlex_split', 'string -> list string', 'shlex.split'),
                    ('config_is_windows', 'bool', 'pypyr.config.config.is_windows')],
         methods=[
             dict(qual='Command._run', name='gen_Command__run', ret='GR',
                  params=[('cmd', 'cmd', 'string'), ('stdout', 'tt', 'handle'), ('stderr', 'tt', 'handle')],
                  sig='(self : pycmd) (cmd : string) (s : gst)',
                  attrs=SYNC_ATTRS, cells=CELLS, check_returncode_effect=True,
                  globals={'config.is_windows': ('config_is_windows', 'bool')}),
             dict(qual='Command.run', name='gen_Command_run', ret='GR', params=[],
                  sig='(self : pycmd) (s : gst)', attrs=SYNC_ATTRS, cells=CELLS,
                  handles=[('tt', 'handle'), ('tt', 'handle')],
                  effects={'self._run': ('gen_Command__run self',
                                         [('cmd', 'string'), ('stdout', 'handle'), ('stderr', 'handle')],
                                         'unit', False)}),
             dict(qual='SubprocessResult.check_returncode', name='gen_SubprocessResult_check_returncode',
                  ret='option perr', params=[], sig='(self : res1)', mode=('pure', 'perro'),
                  attrs=RES_ATTRS, cells={}),
         ]),
    dict(section='GenCmdStep', file='pypyr/steps/dsl/cmd.py',
         variables=[('call_Command_run', 'pycmd -> gst -> GR', 'cmd.run() for cmd in self.commands')],
         methods=[
             dict(qual='CmdStep.run_step', name='gen_CmdStep_run_step', ret='GR', params=[],
                  sig='(commands : list pycmd) (s : gst)',
                  attrs={'commands': ('commands', 'pycmds')}, cells=CELLS,
                  local_cells={'results': 'local'},
                  loopobj={'cmd': {'results': ('CELL', 'self')}},
                  fresh_obj='(set_self {s} [])',
                  effects={'<cmd>.run': ('call_Command_run', [], 'unit', True)}),
         ]),
    dict(section='GenAioSubproc', file='pypyr/aio/subproc.py',
         variables=[('prim_create_subprocess', 'val -> bool -> bool -> bool -> ast_ -> gval proc * ast_',
                     'asyncio.create_subprocess_shell(cmd) / _exec(*argv): (command, shell, stdout is PIPE, '
                     'stderr is PIPE)'),
                    ('prim_communicate', 'proc -> ast_ -> gval (val * val) * ast_', 'await proc.communicate()'),
                    ('prim_shlex_split', 'string -> list string', 'shlexer (shlex.split on POSIX)'),
                    ('call_check_returncode', 'res1 -> option perr', 'SubprocessResult.check_returncode()'),
                    ('rec__parse_result', 'rentry -> list perr',
                     'Command._parse_result, re-entered for the elements of a nested list')],
         methods=[
             dict(qual='Command._spawn', name='gen_aio_Command__spawn', ret='gval res1 * ast_',
                  mode=('effv', 'res1'),
                  params=[('cmd', 'cmd', 'string'), ('stdout', 'stdout', 'pipe'), ('stderr', 'stderr', 'pipe')],
                  sig='(self : pycmd) (cmd : string) (stdout stderr : bool) (s : ast_)',
                  attrs=AIO_ATTRS, cells=ACELLS),
             dict(qual='Command._run', name='gen_aio_Command__run', ret='gval rentry * ast_',
                  mode=('effv', 'rentry'),
                  params=[('cmd', 'cmd', 'aent'), ('stdout', 'stdout', 'pipe'), ('stderr', 'stderr', 'pipe')],
                  sig='(self : pycmd) (cmd : aentry) (stdout stderr : bool) (s : ast_)',
                  attrs=AIO_ATTRS, cells=ACELLS, local_cells={'results': 'local'},
                  effects={'self._spawn': ('gen_aio_Command__spawn self',
                                           [('cmd', 'string'), ('stdout', 'pipe'), ('stderr', 'pipe')],
                                           'res1', False)}),
             dict(qual='Command._parse_result', name='gen_aio_Command__parse_result', ret='list perr',
                  mode=('gen', 'perrs'), gen_acc=(None, 'perrs'),
                  params=[('result', 'result', 'rentry')], sig='(result : rentry)',
                  attrs={}, cells={},
                  exhaustive=('result', ['Exception', 'SubprocessResult', 'list']),
                  method_calls={('rentry', 'check_returncode'): ('(call_check_returncode (rres_as_res {t}))', 'perro')},
                  pure_calls={'self._parse_result': ('rec__parse_result', ['rentry'], 'perrs')}),
             dict(qual='Command.parse_results', name='gen_aio_Command_parse_results', ret='list perr',
                  mode=('pure', 'perrs'), params=[], sig='(self_results : list rentry)',
                  attrs={'_results': ('self_results', 'rentrys')}, cells={},
                  accumulators={'errors': 'perrs'},
                  pure_calls={'self._parse_result': ('gen_aio_Command__parse_result', ['rentry'], 'perrs')}),
         ]),
    dict(section='GenAioCommands', file='pypyr/aio/subproc.py',
         variables=[('prim_asyncio_run', 'ast_ -> gout * ast_', 'asyncio.run(self._run())'),
                    ('call_parse_results', 'list rentry -> list perr', 'cmd.parse_results() on cmd._results')],
         methods=[
             dict(qual='Commands.run', name='gen_aio_Commands_run', ret='gout * ast_', params=[],
                  sig='(commands : list acmdo) (s : ast_)',
                  attrs={'commands': ('commands', 'acmdos'), '_results': ('CELL', 'agg')}, cells=ACELLS,
                  local_cells={'errors': 'errors'}, asyncio_run='prim_asyncio_run',
                  loopobj={'cmd': {'is_save': ('(ao_is_save {x})', 'bool'),
                                   '_results': ('(ao_results_now {s} {x})', 'rentrys')}},
                  loopobj_calls={'cmd': {'parse_results': ('(call_parse_results (ao_results_now {s} {x}))', 'perrs')}}),
         ]),
    dict(section='GenAsyncCmdStep', file='pypyr/steps/dsl/cmdasync.py',
         variables=[('call_Commands_run', 'ast_ -> gout * ast_', 'self.commands.run()'),
                    ('commands_is_save', 'bool', 'self.commands.is_save')],
         methods=[
             dict(qual='AsyncCmdStep.run_step', name='gen_AsyncCmdStep_run_step', ret='gout * ast_', params=[],
                  sig='(s : ast_)', attrs={}, cells=ACELLS,
                  globals={'self.commands.is_save': ('commands_is_save', 'bool'),
                           'self.commands.results': ('(a_results s)', 'rentrys')},
                  state_globals={'self.commands.results': 'agg'},
                  effects={'self.commands.run': ('call_Commands_run', [], 'unit', False)}),
         ]),
]


def translate_unit(unit):
    lines = [f'Section {unit["section"]}.']
    for name, ty, what in unit['variables']:
        lines.append('  (* ' + what.replace('(*', '( *').replace('*)', '* )') + ' *)')
        lines.append(f'  Variable {name} : {ty}.')
    lines.append('')
    try:
        tree = ast.parse((REPO / unit['file']).read_text())
    except (OSError, SyntaxError) as e:
        tree = None
        err = str(e)
    for m in unit['methods']:
        lines.append(f'(* source: {unit["file"]} :: {m["qual"]} *)')
        try:
            if tree is None:
                raise Untranslatable(err)
            fn = find_function(tree, m['qual'])
            tr = Tr(dict(m))
            term = tr.method(fn)
            lines.append(f'Definition {m["name"]} {m["sig"]} : {m["ret"]} :=\n  {term}.')
        except Untranslatable as e:
            reason = str(e).replace('*)', '* )').replace('(*', '( *')
            lines.append(f'(* NOT TRANSLATED: {reason} *)')
            lines.append(f'Definition {m["name"]}_UNTRANSLATED : unit := tt.')
        lines.append('')
    lines.append(f'End {unit["section"]}.')
    return lines


def generate(units=None):
    out = ['(** Gen/GenC17.v — GENERATED by tools/py2coq_c17.py from the current source under the',
           '    repository; do not edit.  See the translator for the (fail-closed) subset and what it drops. *)',
           'From Coq Require Import ZArith List Bool String.',
           'From PV Require Import PyStr PyVal.',
           'From PV.Model Require Import Cmd.',
           'Import ListNotations.',
           'Local Open Scope string_scope.',
           'Local Open Scope list_scope.',
           '']
    for u in (units or UNITS):
        out += translate_unit(u)
        out.append('')
    return '\n'.join(out)


def main():
    text = generate()
    if not OUT.exists() or OUT.read_text() != text:
        OUT.write_text(text)
    if '--show' in sys.argv:
        print(text)


if __name__ == '__main__':
    main()
