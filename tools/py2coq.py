"""Tie B (small leaves only): regenerate coq/theories/Gen/Leaves.v from the CURRENT source of a
handful of pure leaf functions of pypyr.  Fail-closed: any AST shape outside the tiny subset below
makes the generated definition `<name>_UNTRANSLATED : False -> ...`-free garbage by design — we
emit a definition of a different NAME, so every lemma that mentions the expected name stops
compiling (a broken proof, handled by the check's verdict logic).

Subset: a function body that is `return e`, or `if c: return a [else:] return b`; expressions:
argument names, str/int/bool/None constants, `x.lower()`, `e in [consts]`, `isinstance(x, str)`,
`bool(x)`, `not e`, `a and b` / `a or b` on booleans, `x is None`, `x is not None`, `a * b`,
`pow(a, b)`, `min(a, b)`, `x if c else y`, `self.<attr>` for attributes listed in the signature
table, calls to other translated leaves.  Types come from the per-function signature table.
"""
import ast
import os
import sys
from pathlib import Path

REPO = Path(os.environ.get('VERIF_REPO', '/repo'))
OUT = Path(__file__).resolve().parent.parent / 'coq' / 'theories' / 'Gen' / 'Leaves.v'


class Untranslatable(Exception):
    pass


# name -> (file, qualified function, coq name, [(arg, type)], return type, {self attr: (coq var, type)})
LEAVES = [
    ('pypyr/utils/types.py', 'cast_str_to_bool', 'gen_cast_str_to_bool', [('input_string', 'string')], 'bool', {}),
    ('pypyr/utils/types.py', 'cast_to_bool', 'gen_cast_to_bool', [('obj', 'val')], 'bool', {}),
    ('pypyr/pipeline.py', 'Pipeline._get_parse_input', 'gen_get_parse_input',
     [('parse_args', 'option bool'), ('args_in', 'option (list string)'), ('dict_in', 'option dict')], 'bool', {}),
    ('pypyr/retries.py', 'BackoffBase.min', 'gen_backoff_min', [('sleep', 'Q')], 'Q',
     {'max_sleep': ('max_sleep', 'option Q')}),
    ('pypyr/retries.py', 'linear.__call__', 'gen_linear', [('n', 'nat')], 'Q',
     {'sleep': ('sleep', 'Q'), 'max_sleep': ('max_sleep', 'option Q'), 'min': ('@method', 'gen_backoff_min')}),
    ('pypyr/retries.py', 'exponential.__call__', 'gen_exponential', [('n', 'nat')], 'Q',
     {'sleep': ('sleep', 'Q'), 'base': ('base', 'Q'), 'max_sleep': ('max_sleep', 'option Q'),
      'min': ('@method', 'gen_backoff_min')}),
]
KNOWN_CALLS = {'cast_str_to_bool': ('gen_cast_str_to_bool', ['string'], 'bool')}


def find_function(tree, qual):
    parts = qual.split('.')
    body = tree.body
    node = None
    for p in parts:
        node = next((n for n in body if isinstance(n, (ast.FunctionDef, ast.ClassDef)) and n.name == p), None)
        if node is None:
            raise Untranslatable(f'{qual} not found')
        body = node.body
    return node


def strip(body):
    out = []
    for st in body:
        if isinstance(st, ast.Expr) and isinstance(st.value, ast.Constant) and isinstance(st.value.value, str):
            continue        # docstring
        if isinstance(st, ast.Expr) and isinstance(st.value, ast.Call) and isinstance(st.value.func, ast.Attribute) \
                and isinstance(st.value.func.value, ast.Name) and st.value.func.value.id == 'logger':
            continue        # logging is assumed effect-free (trusted base)
        out.append(st)
    return out


class Tr:
    def __init__(self, env, attrs):
        self.env = dict(env)       # python name -> (coq term, type)
        self.attrs = attrs

    def coq_str(self, s):
        if any(ord(c) < 32 or ord(c) > 126 for c in s):
            raise Untranslatable('non-printable constant')
        return '"' + s.replace('"', '""') + '"'

    def expr(self, e, want=None):
        """-> (coq term, type)"""
        if isinstance(e, ast.Name):
            if e.id not in self.env:
                raise Untranslatable(f'unknown name {e.id}')
            return self.env[e.id]
        if isinstance(e, ast.Constant):
            v = e.value
            if isinstance(v, bool):
                return ('true' if v else 'false', 'bool')
            if isinstance(v, str):
                return (self.coq_str(v), 'string')
            if isinstance(v, int):
                return (f'(inject_Z {v})' if want == 'Q' else f'{v}%Z', 'Q' if want == 'Q' else 'Z')
            raise Untranslatable('constant')
        if isinstance(e, ast.Attribute) and isinstance(e.value, ast.Name) and e.value.id == 'self':
            if e.attr not in self.attrs or self.attrs[e.attr][0] == '@method':
                raise Untranslatable(f'self.{e.attr}')
            return self.attrs[e.attr]
        if isinstance(e, ast.UnaryOp) and isinstance(e.op, ast.Not):
            t, ty = self.truth(e.operand)
            return (f'(negb {t})', 'bool')
        if isinstance(e, ast.BoolOp):
            ts = [self.truth(v)[0] for v in e.values]
            op = 'andb' if isinstance(e.op, ast.And) else 'orb'
            acc = ts[-1]
            for t in reversed(ts[:-1]):
                acc = f'({op} {t} {acc})'
            return (acc, 'bool')
        if isinstance(e, ast.Compare) and len(e.ops) == 1:
            op, rhs = e.ops[0], e.comparators[0]
            if isinstance(op, (ast.Is, ast.IsNot)) and isinstance(rhs, ast.Constant) and rhs.value is None:
                t, ty = self.expr(e.left)
                if not ty.startswith('option'):
                    raise Untranslatable('is None on non-option')
                isn = f'(match {t} with None => true | Some _ => false end)'
                return (isn if isinstance(op, ast.Is) else f'(negb {isn})', 'bool')
            if isinstance(op, ast.In) and isinstance(rhs, ast.List) and all(
                    isinstance(x, ast.Constant) and isinstance(x.value, str) for x in rhs.elts):
                t, ty = self.expr(e.left)
                if ty != 'string':
                    raise Untranslatable('in on non-string')
                lst = '[' + '; '.join(self.coq_str(x.value) for x in rhs.elts) + ']'
                return (f'(str_in {t} {lst})', 'bool')
            raise Untranslatable('compare')
        if isinstance(e, ast.Call):
            f = e.func
            if isinstance(f, ast.Attribute) and f.attr == 'lower' and not e.args:
                t, ty = self.expr(f.value)
                if ty != 'string':
                    raise Untranslatable('lower on non-string')
                return (f'(lower {t})', 'string')
            if isinstance(f, ast.Name) and f.id == 'bool' and len(e.args) == 1:
                return self.truth(e.args[0])
            if isinstance(f, ast.Name) and f.id == 'min' and len(e.args) == 2:
                a, ta = self.expr(e.args[0], 'Q')
                b, tb = self.expr(e.args[1], 'Q')
                if ta != 'Q' or tb != 'Q':
                    raise Untranslatable('min types')
                return (f'(if Qle_bool {a} {b} then {a} else {b})', 'Q')
            if isinstance(f, ast.Name) and f.id == 'pow' and len(e.args) == 2:
                a, ta = self.expr(e.args[0], 'Q')
                b, tb = self.expr(e.args[1])
                if ta != 'Q' or tb != 'nat':
                    raise Untranslatable('pow types')
                return (f'(qpow {a} {b})', 'Q')
            if isinstance(f, ast.Name) and f.id in KNOWN_CALLS and len(e.args) == 1:
                cn, argtys, rty = KNOWN_CALLS[f.id]
                a, ta = self.expr(e.args[0])
                if ta != argtys[0]:
                    raise Untranslatable('call arg type')
                return (f'({cn} {a})', rty)
            if isinstance(f, ast.Attribute) and isinstance(f.value, ast.Name) and f.value.id == 'self' \
                    and f.attr in self.attrs and self.attrs[f.attr][0] == '@method' and len(e.args) == 1:
                a, ta = self.expr(e.args[0], 'Q')
                if ta != 'Q':
                    raise Untranslatable('method arg type')
                # the method reads self.max_sleep: pass it along
                return (f'({self.attrs[f.attr][1]} max_sleep {a})', 'Q')
            raise Untranslatable('call')
        if isinstance(e, ast.BinOp) and isinstance(e.op, ast.Mult):
            a, ta = self.expr(e.left, 'Q')
            b, tb = self.expr(e.right, 'Q')
            conv = {'Q': lambda t: t, 'nat': lambda t: f'(inject_Z (Z.of_nat {t}))'}
            if ta not in conv or tb not in conv:
                raise Untranslatable('mult types')
            return (f'({conv[ta](a)} * {conv[tb](b)})%Q', 'Q')
        if isinstance(e, ast.IfExp):
            nar = self.narrow_truthy(e.test)
            if nar is not None:
                x, inner_ty, cond = nar
                sub = Tr({**self.env, x: (x + "'", inner_ty)}, self.attrs)
                a, ta = sub.expr(e.body, want)
                b, tb = self.expr(e.orelse, want)
                if ta != tb:
                    raise Untranslatable('ifexp types')
                t0 = self.env[x][0]
                return (f"(match {t0} with Some {x}' => if {cond} then {a} else {b} | None => {b} end)", ta)
            c, _ = self.truth(e.test)
            a, ta = self.expr(e.body, want)
            b, tb = self.expr(e.orelse, want)
            if ta != tb:
                raise Untranslatable('ifexp types')
            return (f'(if {c} then {a} else {b})', ta)
        raise Untranslatable(type(e).__name__)

    def narrow_truthy(self, test):
        """`x` used as a condition with x : option T  ->  (x, T, truthiness of the payload x')."""
        if isinstance(test, ast.Name) and test.id in self.env and self.env[test.id][1] == 'option Q':
            return (test.id, 'Q', f"negb (Qeq_bool {test.id}' 0)")
        return None

    def truth(self, e):
        """python truthiness of an expression of a known type."""
        if isinstance(e, ast.Call) and isinstance(e.func, ast.Name) and e.func.id == 'isinstance' \
                and len(e.args) == 2 and isinstance(e.args[1], ast.Name) and e.args[1].id == 'str':
            t, ty = self.expr(e.args[0])
            if ty != 'val':
                raise Untranslatable('isinstance on non-val')
            return (f'(match {t} with VStr _ => true | _ => false end)', 'bool')
        t, ty = self.expr(e)
        if ty == 'bool':
            return (t, 'bool')
        if ty == 'val':
            return (f'(py_truth {t})', 'bool')
        if ty == 'list string':
            return (f'(negb (is_nil {t}))', 'bool')
        if ty == 'option (list string)':
            return (f'(match {t} with Some (_ :: _) => true | _ => false end)', 'bool')
        if ty == 'option Q':
            return (f'(match {t} with Some q => negb (Qeq_bool q 0) | None => false end)', 'bool')
        raise Untranslatable(f'truthiness of {ty}')

    def body(self, stmts, rty):
        stmts = strip(stmts)
        if stmts and isinstance(stmts[0], ast.Assign) and len(stmts[0].targets) == 1 \
                and isinstance(stmts[0].targets[0], ast.Name):
            t, ty = self.expr(stmts[0].value)
            nm = stmts[0].targets[0].id
            return Tr({**self.env, nm: (t, ty)}, self.attrs).body(stmts[1:], rty)
        if stmts and isinstance(stmts[0], ast.If) and isinstance(stmts[0].test, ast.Compare) \
                and len(stmts[0].test.ops) == 1 and isinstance(stmts[0].test.ops[0], ast.Is) \
                and isinstance(stmts[0].test.left, ast.Name) \
                and isinstance(stmts[0].test.comparators[0], ast.Constant) \
                and stmts[0].test.comparators[0].value is None:
            st = stmts[0]
            x = st.test.left.id
            t0, ty = self.env[x]
            if not ty.startswith('option '):
                raise Untranslatable('is None on non-option')
            a = self.body(st.body, rty)
            rest = st.orelse if st.orelse else stmts[1:]
            b = Tr({**self.env, x: (x + "'", ty[len('option '):])}, self.attrs).body(rest, rty)
            return f"(match {t0} with None => {a} | Some {x}' => {b} end)"
        if len(stmts) == 1 and isinstance(stmts[0], ast.Return):
            t, ty = self.expr(stmts[0].value, rty)
            return self.coerce(t, ty, rty)
        if stmts and isinstance(stmts[0], ast.If):
            st = stmts[0]
            c, _ = self.truth(st.test)
            # isinstance(x, str) narrows x to a string in the then-branch
            then_env = dict(self.env)
            if isinstance(st.test, ast.Call) and isinstance(st.test.func, ast.Name) and st.test.func.id == 'isinstance':
                nm = st.test.args[0].id
                t, ty = self.env[nm]
                a = Tr({**self.env, nm: (f'(match {t} with VStr s => s | _ => EmptyString end)', 'string')},
                       self.attrs).body(st.body, rty)
            else:
                a = Tr(then_env, self.attrs).body(st.body, rty)
            rest = st.orelse if st.orelse else stmts[1:]
            b = self.body(rest, rty)
            return f'(if {c} then {a} else {b})'
        raise Untranslatable('statement shape')

    def coerce(self, t, ty, rty):
        if ty == rty:
            return t
        if rty == 'Q' and ty == 'nat':
            return f'(inject_Z (Z.of_nat {t}))'
        raise Untranslatable(f'return type {ty} vs {rty}')


def eval_scope_facts(status):
    """Context.get_eval_string: in which namespace a !py expression is evaluated.  Facts read off the source:
    the expression is eval'ed with ONE namespace argument, a chain whose first map is a FRESH empty dict
    literal created by this very call, second the context itself, third the import namespace; the empty
    expression raises ValueError.  (One level of `name = <chain>` aliasing inside the method is followed.)"""
    name = 'gen_eval_scope'
    try:
        tree = ast.parse((REPO / 'pypyr/context.py').read_text())
        fn = find_function(tree, 'Context.get_eval_string')
        body = strip(fn.body)
        if [a.arg for a in fn.args.args] != ['self', 'input_string']:
            raise Untranslatable('signature')
        aliases = {}
        while body and isinstance(body[0], ast.Assign) and len(body[0].targets) == 1 \
                and isinstance(body[0].targets[0], ast.Name):
            aliases[body[0].targets[0].id] = body[0].value
            body = body[1:]
        if len(body) != 1 or not isinstance(body[0], ast.If):
            raise Untranslatable('body shape')
        st = body[0]
        if not (isinstance(st.test, ast.Name) and st.test.id == 'input_string'):
            raise Untranslatable('guard')
        then = strip(st.body)
        while then and isinstance(then[0], ast.Assign) and len(then[0].targets) == 1 \
                and isinstance(then[0].targets[0], ast.Name):
            aliases[then[0].targets[0].id] = then[0].value
            then = then[1:]
        if len(then) != 1 or not isinstance(then[0], ast.Return):
            raise Untranslatable('then branch')
        call = then[0].value
        if not (isinstance(call, ast.Call) and isinstance(call.func, ast.Name) and call.func.id == 'eval'
                and not call.keywords and len(call.args) == 2):
            raise Untranslatable('eval call (exactly: expression, one namespace)')
        if not (isinstance(call.args[0], ast.Name) and call.args[0].id == 'input_string'):
            raise Untranslatable('eval expression argument')
        ns = call.args[1]
        if isinstance(ns, ast.Name) and ns.id in aliases:
            ns = aliases[ns.id]
        if not (isinstance(ns, ast.Call) and isinstance(ns.func, ast.Name) and ns.func.id == '_ChainMapPretendDict'
                and not ns.keywords):
            raise Untranslatable('namespace is not a _ChainMapPretendDict(...) built in this call')
        maps = [ast.unparse(a) for a in ns.args]
        orelse = strip(st.orelse)
        raises = (len(orelse) == 1 and isinstance(orelse[0], ast.Raise) and isinstance(orelse[0].exc, ast.Call)
                  and isinstance(orelse[0].exc.func, ast.Name) and orelse[0].exc.func.id == 'ValueError')
        qs = '[' + '; '.join('"' + m.replace('"', '""') + '"' for m in maps) + ']'
        status[name] = 'ok'
        return ['(* pypyr/context.py: Context.get_eval_string — (maps of the eval namespace in order, empty expression raises ValueError) *)',
                f'Definition {name} : list string * bool := ({qs}, {"true" if raises else "false"}).', '']
    except (Untranslatable, OSError, SyntaxError, KeyError, AttributeError) as ex:
        status[name] = f'untranslated: {ex}'
        return [f'(* Context.get_eval_string could not be read: {ex} *)',
                f'Definition {name}_UNTRANSLATED : unit := tt.', '']


def translate_all():
    lines = ['(** Gen/Leaves.v — GENERATED by tools/py2coq.py from the current source under the repository;',
             '    do not edit.  A function that could not be translated gets the suffix _UNTRANSLATED, which',
             '    breaks every lemma that mentions the expected name. *)',
             'From PV Require Import Engine.', 'Open Scope string_scope.', '']
    status = {}
    for relfile, qual, cname, args, rty, attrs in LEAVES:
        try:
            tree = ast.parse((REPO / relfile).read_text())
            fn = find_function(tree, qual)
            env = {a: (a, ty) for a, ty in args}
            params = [(a, ty) for a, ty in args]
            extra = [(v[0], v[1]) for k, v in attrs.items() if v[0] != '@method']
            tr = Tr(env, attrs)
            body = tr.body(fn.body, rty)
            sig = ' '.join(f'({a} : {ty})' for a, ty in extra + params)
            lines.append(f'(* {relfile}: {qual} *)')
            lines.append(f'Definition {cname} {sig} : {rty} := {body}.')
            status[cname] = 'ok'
        except (Untranslatable, OSError, SyntaxError, KeyError, AttributeError) as ex:
            lines.append(f'(* {relfile}: {qual} could not be translated: {ex} *)')
            lines.append(f'Definition {cname}_UNTRANSLATED : unit := tt.')
            status[cname] = f'untranslated: {ex}'
        lines.append('')
    lines += eval_scope_facts(status)
    text = '\n'.join(lines)
    OUT.parent.mkdir(exist_ok=True)
    if not OUT.exists() or OUT.read_text() != text:
        OUT.write_text(text)
    return status


if __name__ == '__main__':
    st = translate_all()
    for k, v in st.items():
        print(k, v)
    sys.exit(0)
