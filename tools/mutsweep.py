"""Mutation sweep (self-test tool, not a registered check).

Stage 1: generate AST-level mutants of the anchored source files, keep those the project's own
test-suite does NOT kill (same result as the unchanged tree).  Stage 2: run the mapped property
checks on each survivor (VERIF_REPO = scratch copy) and report which survive the checks too.

usage: tools/mutsweep.py stage1 [file ...]     -> /var/tmp/mutsweep/survivors.json
       tools/mutsweep.py stage2 [--n N]        -> /var/tmp/mutsweep/results.json
"""
import ast
import copy
import json
import os
import shutil
import subprocess
import sys
from concurrent.futures import ThreadPoolExecutor
from pathlib import Path

REPO = Path('/repo')
WORK = Path('/var/tmp/mutsweep')
TARGETS = {
    'pypyr/dsl.py': ['C02', 'C03', 'C04', 'C05', 'C06', 'C07'],
    'pypyr/stepsrunner.py': ['C01', 'C02', 'C03'],
    'pypyr/pipeline.py': ['C01', 'C02', 'C11', 'C18'],
    'pypyr/utils/poll.py': ['C05', 'C06'],
    'pypyr/retries.py': ['C06'],
    'pypyr/utils/types.py': ['C04', 'C10'],
    'pypyr/errors.py': ['C07', 'C06', 'C17'],
    'pypyr/steps/dsl/cof.py': ['C03'],
    'pypyr/steps/pype.py': ['C11', 'C19'],
    'pypyr/formatting.py': ['C08', 'C09'],
    'pypyr/context.py': ['C08', 'C10', 'C11', 'C14'],
    'pypyr/cache/cache.py': ['C13'],
    'pypyr/cache/loadercache.py': ['C13', 'C19'],
    'pypyr/loaders/file.py': ['C19'],
    'pypyr/config.py': ['C20'],
    'pypyr/cli.py': ['C18'],
    'pypyr/utils/filesystem.py': ['C15', 'C16'],
    'pypyr/subproc.py': ['C17'],
    'pypyr/aio/subproc.py': ['C17'],
    'pypyr/steps/dsl/cmd.py': ['C17'],
    'pypyr/steps/dsl/cmdasync.py': ['C17'],
    'pypyr/parser/keyvaluepairs.py': ['C18'], 'pypyr/parser/argskwargs.py': ['C18'],
    'pypyr/parser/list.py': ['C18'], 'pypyr/parser/string.py': ['C18'], 'pypyr/parser/keys.py': ['C18'],
    'pypyr/parser/dict.py': ['C18'],
    'pypyr/steps/set.py': ['C12'], 'pypyr/steps/contextmerge.py': ['C10'], 'pypyr/steps/default.py': ['C10'],
    'pypyr/steps/py.py': ['C14'], 'pypyr/moduleloader.py': ['C14', 'C13', 'C19'],
}
CMP = {ast.Lt: ast.LtE, ast.LtE: ast.Lt, ast.Gt: ast.GtE, ast.GtE: ast.Gt, ast.Eq: ast.NotEq,
       ast.NotEq: ast.Eq, ast.Is: ast.IsNot, ast.IsNot: ast.Is, ast.In: ast.NotIn, ast.NotIn: ast.In}


class Collector(ast.NodeVisitor):
    """enumerate mutation points: (kind, node-index)."""

    def __init__(self):
        self.points = []
        self.idx = 0

    def generic_visit(self, node):
        i = self.idx
        self.idx += 1
        if isinstance(node, ast.Compare) and type(node.ops[0]) in CMP:
            self.points.append(('cmp', i))
        if isinstance(node, ast.BoolOp):
            self.points.append(('boolop', i))
        if isinstance(node, ast.UnaryOp) and isinstance(node.op, ast.Not):
            self.points.append(('not', i))
        if isinstance(node, ast.Constant) and isinstance(node.value, bool):
            self.points.append(('bool', i))
        if isinstance(node, ast.Constant) and type(node.value) is int and node.value in (0, 1, 2):
            self.points.append(('int', i))
        if isinstance(node, ast.If):
            self.points.append(('ifneg', i))
        if isinstance(node, ast.Raise) and node.exc is None:
            self.points.append(('bareraise', i))
        if isinstance(node, ast.BinOp) and isinstance(node.op, (ast.Add, ast.Sub, ast.Mult)):
            self.points.append(('binop', i))
        if isinstance(node, ast.Break):
            self.points.append(('break', i))
        if isinstance(node, ast.Expr) and isinstance(node.value, ast.Call) and not _is_logging(node.value):
            self.points.append(('dropcall', i))
        if isinstance(node, ast.Try) and len(node.handlers) >= 2:
            self.points.append(('swaphandlers', i))
        super().generic_visit(node)


def _is_logging(call):
    f = call.func
    return isinstance(f, ast.Attribute) and isinstance(f.value, ast.Name) and f.value.id == 'logger'


class Mutator(ast.NodeTransformer):
    def __init__(self, kind, target):
        self.kind, self.target, self.idx = kind, target, 0

    def generic_visit(self, node):
        i = self.idx
        self.idx += 1
        node = super().generic_visit(node)
        if i != self.target:
            return node
        k = self.kind
        if k == 'cmp':
            node.ops[0] = CMP[type(node.ops[0])]()
        elif k == 'boolop':
            node.op = ast.Or() if isinstance(node.op, ast.And) else ast.And()
        elif k == 'not':
            return node.operand
        elif k == 'bool':
            node.value = not node.value
        elif k == 'int':
            node.value = node.value + 1
        elif k == 'ifneg':
            node.test = ast.UnaryOp(op=ast.Not(), operand=node.test)
        elif k == 'bareraise':
            return ast.Pass()
        elif k == 'binop':
            node.op = {ast.Add: ast.Sub, ast.Sub: ast.Add, ast.Mult: ast.Add}[type(node.op)]()
        elif k == 'break':
            return ast.Pass()
        elif k == 'dropcall':
            return ast.Pass()
        elif k == 'swaphandlers':
            node.handlers = [node.handlers[1], node.handlers[0]] + node.handlers[2:]
        return node


def in_docstring_or_log(src_tree):
    return src_tree


def mutants_of(relpath):
    src = (REPO / relpath).read_text()
    tree = ast.parse(src)
    col = Collector()
    col.visit(tree)
    out = []
    for kind, idx in col.points:
        t = copy.deepcopy(tree)
        m = Mutator(kind, idx)
        t = m.visit(t)
        ast.fix_missing_locations(t)
        try:
            code = ast.unparse(t)
            compile(code, relpath, 'exec')
        except Exception:
            continue
        if code == ast.unparse(tree):
            continue
        out.append({'file': relpath, 'kind': kind, 'idx': idx, 'code': code})
    return out


def scratch(i):
    d = WORK / f'w{i}'
    if not d.exists():
        d.mkdir(parents=True)
        subprocess.run(f'cp -r /repo/pypyr /repo/tests /repo/conftest.py /repo/setup.cfg /repo/pyproject.toml {d}/',
                       shell=True, check=True)
    return d


def test_mutant(args):
    i, mut = args
    d = scratch(i % 12)
    target = d / mut['file']
    orig = (REPO / mut['file']).read_text()
    target.write_text(mut['code'])
    try:
        p = subprocess.run('/venv/bin/python -m pytest -q -x -p no:cacheprovider --timeout=60 '
                           '--deselect tests/unit/pypyr/steps/debug_test.py::test_complex_object',
                           shell=True, cwd=d, stdout=subprocess.PIPE, stderr=subprocess.STDOUT, text=True, timeout=400)
        tail = p.stdout.strip().splitlines()[-1] if p.stdout.strip() else ''
        survived = p.returncode == 0
    except subprocess.TimeoutExpired:
        survived, tail = False, 'timeout'
    finally:
        target.write_text(orig)
    return dict(mut, survived=survived, tests=tail)


def diffline(mut):
    import difflib
    a = ast.unparse(ast.parse((REPO / mut['file']).read_text())).splitlines()
    b = mut['code'].splitlines()
    for ln in difflib.unified_diff(a, b, lineterm='', n=0):
        if ln.startswith(('+', '-')) and not ln.startswith(('+++', '---')):
            yield ln


def stage1(files):
    WORK.mkdir(parents=True, exist_ok=True)
    muts = []
    for f in files:
        muts += mutants_of(f)
    print(f'{len(muts)} mutants over {len(files)} files', flush=True)
    # each worker index owns one scratch dir: run in 12 lanes
    lanes = [[] for _ in range(12)]
    for i, m in enumerate(muts):
        lanes[i % 12].append((i, m))

    def run_lane(lane):
        return [test_mutant(x) for x in lane]
    with ThreadPoolExecutor(12) as ex:
        results = [r for lane in ex.map(run_lane, lanes) for r in lane]
    surv = [r for r in results if r['survived']]
    for r in surv:
        r['diff'] = list(diffline(r))[:6]
    print(f'{len(surv)} survive the test-suite', flush=True)
    prev = []
    sp = WORK / 'survivors.json'
    if sp.exists():
        prev = [x for x in json.loads(sp.read_text()) if x['file'] not in files]
    sp.write_text(json.dumps(prev + surv, indent=1))


def stage2(n):
    surv = json.loads((WORK / 'survivors.json').read_text())
    rp = WORK / 'results.json'
    done = json.loads(rp.read_text()) if rp.exists() else []
    seen = {(r['file'], r['kind'], r['idx']) for r in done}
    d = scratch(99)
    for m in surv:
        key = (m['file'], m['kind'], m['idx'])
        if key in seen:
            continue
        target = d / m['file']
        orig = (REPO / m['file']).read_text()
        target.write_text(m['code'])
        res = {}
        try:
            for pid in TARGETS[m['file']]:
                try:
                    p = subprocess.run(f'VERIF_REPO={d} timeout 900 ./check {pid} --n {n}', shell=True, cwd='/verif',
                                       stdout=subprocess.PIPE, stderr=subprocess.STDOUT, text=True, timeout=1000)
                    out = p.stdout
                    viol = [ln for ln in out.splitlines() if ln.startswith('VIOLATION')]
                    res[pid] = {'rc': p.returncode, 'violations': viol[:3],
                                'with_input': any('no-failing-input-found' not in v for v in viol),
                                'tail': out.strip().splitlines()[-1][:300] if out.strip() else ''}
                except subprocess.TimeoutExpired:
                    res[pid] = {'rc': -9, 'violations': [], 'with_input': False, 'tail': 'timeout'}
        finally:
            target.write_text(orig)
        caught = any(r['rc'] == 1 and r['violations'] for r in res.values())
        rec = {k: m[k] for k in ('file', 'kind', 'idx', 'diff')}
        rec.update(checks=res, caught=caught)
        done.append(rec)
        rp.write_text(json.dumps(done, indent=1))
        print(('CAUGHT  ' if caught else 'MISSED  ') + m['file'], m['kind'], ' | '.join(m['diff'][:2])[:160], flush=True)


if __name__ == '__main__':
    if sys.argv[1] == 'stage1':
        stage1(sys.argv[2:] or list(TARGETS))
    elif sys.argv[1] == 'stage2':
        n = int(sys.argv[sys.argv.index('--n') + 1]) if '--n' in sys.argv else 250
        stage2(n)
    elif sys.argv[1] == 'clean':
        shutil.rmtree(WORK, ignore_errors=True)
