"""Tie B, control skeletons: regenerate coq/theories/Gen/Control.v from the CURRENT source of the
methods that hold pypyr's error/instruction routing (try/except ladders, loops, local flags),
and the exception class table from pypyr/errors.py.

Fail-closed: a statement or expression outside the subset below makes the definition come out
under the name <gen_name>_UNTRANSLATED (with the reason in a comment), so every lemma of
Proofs/CtlProofs.v that mentions the expected name stops compiling — a broken proof obligation,
which the checks report.

Translation (continuation-passing inside the translator, state-passing in the output):
  effectful method  m(self, a, b)      ->  Definition gen_m (a : A) (b : B) (s : st) : R
  pure method (only if/return/assign)  ->  Definition gen_m (a : A) : T
  docstrings, `assert`, logger.* calls, and assignments to names that are only read by those are
  dropped (assumed effect-free: trusted base).
  x = e                 let x := e in ...                        (fresh name per assignment)
  if c: A else: B; K    if c then [A;K] else [B;K]               (continuation duplicated)
     c = `x is None` / `x is not None` / `x` / `not x` on an option-typed x narrows x in a branch
  for x in xs: B; K     andthen (for_each xs (fun x s => [B]) s) (fun s' => [K])
  try: B except C1 as e: H1 ... else: E; K
                        match [B] with
                        | (OOk, s') => [E;K] | (OUnsup, s') => (OUnsup, s')
                        | (e, s') => if isinst errors_classes e [C1] then [H1;K] else ... (e, s')
                        end                       (K is translated with the OUTER current exception)
  raise                 (current exception, s)
  raise X("literal")    raise_new "X" "literal" s
  self.m(args)          gen_m args s   /  the Section variable rec_m when m is defined later
  obj.m(self.context)   prim_<type>_m obj s   (Section variable)
  return                (OOk, s)
"""
import ast
import os
import sys
from pathlib import Path

REPO = Path(os.environ.get('VERIF_REPO', '/repo'))
OUT = Path(os.environ.get('CTL_OUT', str(Path(__file__).resolve().parent.parent / 'coq' / 'theories' / 'Gen' / 'Control.v')))


KNOWN_CLASSES = set()


class Untranslatable(Exception):
    pass


def coq_str(s):
    if any(ord(c) < 32 or ord(c) > 126 for c in s):
        raise Untranslatable('non-printable constant')
    return '"' + s.replace('"', '""') + '"'


INERT_CALLS = {'len', 'type', 'str', 'repr', 'get_error_name'}


def raised_name(cls):
    """what get_error_name gives an instance of the class named `cls` in a raise statement"""
    return coq_str(('pypyr.errors.' + cls) if cls in KNOWN_CLASSES else cls)


def is_logging(st):
    """a logger.* statement whose arguments cannot have an effect: only constants, names, attributes,
    subscripts, f-strings and calls of INERT_CALLS (a `list(x)` / `next(x)` / method call in a log
    argument consumes or changes something: such a statement is NOT dropped, and is then refused)."""
    if not (isinstance(st, ast.Expr) and isinstance(st.value, ast.Call)
            and isinstance(st.value.func, ast.Attribute) and isinstance(st.value.func.value, ast.Name)
            and st.value.func.value.id == 'logger'):
        return False
    for a in list(st.value.args) + [k.value for k in st.value.keywords]:
        for n in ast.walk(a):
            if isinstance(n, ast.Call) and not (isinstance(n.func, ast.Name) and n.func.id in INERT_CALLS):
                return False
            if isinstance(n, (ast.NamedExpr, ast.Await, ast.Yield, ast.YieldFrom, ast.Lambda, ast.ListComp,
                              ast.SetComp, ast.DictComp, ast.GeneratorExp, ast.Starred)):
                return False
    return True


def is_doc(st):
    return isinstance(st, ast.Expr) and isinstance(st.value, ast.Constant) and isinstance(st.value.value, str)


def find_function(tree, qual):
    body, node = tree.body, None
    for p in qual.split('.'):
        node = next((n for n in body if isinstance(n, (ast.FunctionDef, ast.ClassDef)) and n.name == p), None)
        if node is None:
            raise Untranslatable(f'{qual} not found')
        body = node.body
    return node


def live_names(fn):
    """names read anywhere except inside logging calls / asserts / pure counter updates."""
    live = set()

    def visit(node):
        if isinstance(node, ast.stmt) and (is_logging(node) or isinstance(node, ast.Assert)):
            return
        if isinstance(node, ast.AugAssign):
            visit(node.value)       # `n += 1` alone does not make n live
            return
        if isinstance(node, ast.Assign) and len(node.targets) == 1 and isinstance(node.targets[0], ast.Name):
            me = node.targets[0].id         # `n = n + 1` alone does not make n live either
            for sub in ast.walk(node.value):
                if isinstance(sub, ast.Name) and isinstance(sub.ctx, ast.Load) and sub.id != me:
                    live.add(sub.id)
            return
        if isinstance(node, ast.Name) and isinstance(node.ctx, ast.Load):
            live.add(node.id)
        for ch in ast.iter_child_nodes(node):
            visit(ch)
    for st in fn.body:
        visit(st)
    return live


def m_ok(mode, s, val=None):
    if mode[0] == 'effv':
        return f'(IDone {val}, {s})'
    return f'(OOk, {s})'


def m_raise(mode, e, s):
    return f'(IRaise {e}, {s})' if mode[0] == 'effv' else f'({e}, {s})'


def m_wrap(mode, r):
    """an R-valued term used as the final outcome."""
    return f'(as_iter {r})' if mode[0] == 'effv' else r


def m_andthen(mode):
    return 'andthen_v' if mode[0] == 'effv' else 'andthen'


def m_lift(mode):
    return 'lift_v' if mode[0] == 'effv' else 'lift'


class Unit:
    """one class (or module) worth of methods translated into one Coq Section."""

    def __init__(self, spec):
        self.spec = spec
        self.defined = []          # python method names already emitted (in order)
        self.fresh = 0

    def new(self, base):
        self.fresh += 1
        return f'{base}{self.fresh}'

    # ------------------------------------------------------------------ expressions
    def expr(self, e, env, want=None):
        """-> (coq term, type)"""
        if isinstance(e, ast.Name):
            if e.id not in env:
                raise Untranslatable(f'unknown name {e.id}')
            t, ty = env[e.id]
            return self.coerce(t, ty, want)
        if isinstance(e, ast.Constant):
            v = e.value
            if v is None:
                if want is None or not want.startswith('option'):
                    raise Untranslatable('None where no option type is expected')
                return ('None', want)
            if isinstance(v, bool):
                return self.coerce('true' if v else 'false', 'bool', want)
            if isinstance(v, str):
                return self.coerce(coq_str(v), 'string', want)
            if isinstance(v, int):
                return self.coerce(f'{v}%Z', 'Z', want)
            raise Untranslatable(f'constant {v!r}')
        if isinstance(e, ast.Attribute):
            key = ast.unparse(e)
            if key in env:
                t, ty = env[key]
                return self.coerce(t, ty, want)
            if key in self.spec.get('ctx_exprs', {}):
                t, ty = self.spec['ctx_exprs'][key]
                return self.coerce(t, ty, want)
            if isinstance(e.value, ast.Name) and e.value.id == 'self':
                if e.attr not in self.spec['attrs'] or self.spec['attrs'][e.attr] == 'STATE':
                    raise Untranslatable(f'self.{e.attr}')
                t, ty = self.spec['attrs'][e.attr]
                return self.coerce(t, ty, want)
            t, ty = self.expr(e.value, env)
            key = (ty, e.attr)
            if key not in self.spec['fields']:
                raise Untranslatable(f'attribute {e.attr} of {ty}')
            fn, fty = self.spec['fields'][key]
            return self.coerce(f'({fn} {t})', fty, want)
        if isinstance(e, ast.UnaryOp) and isinstance(e.op, ast.Not):
            return self.coerce(f'(negb {self.truth(e.operand, env)})', 'bool', want)
        if isinstance(e, ast.BoolOp):
            ts = [self.truth(v, env) for v in e.values]
            op = 'andb' if isinstance(e.op, ast.And) else 'orb'
            acc = ts[-1]
            for t in reversed(ts[:-1]):
                acc = f'({op} {t} {acc})'
            return self.coerce(acc, 'bool', want)
        if isinstance(e, ast.Compare) and len(e.ops) == 1:
            op, rhs = e.ops[0], e.comparators[0]
            if isinstance(op, (ast.Is, ast.IsNot)) and isinstance(rhs, ast.Constant) and rhs.value is None:
                t, ty = self.expr(e.left, env)
                if not ty.startswith('option'):
                    raise Untranslatable('is None on non-option')
                isn = f'(match {t} with None => true | Some _ => false end)'
                return self.coerce(isn if isinstance(op, ast.Is) else f'(negb {isn})', 'bool', want)
            if isinstance(op, (ast.Lt, ast.LtE, ast.Gt, ast.GtE)):
                a, ta = self.expr(e.left, env)
                b, tb = self.expr(rhs, env)
                if ta == 'Z' and tb == 'Z':
                    fn = {ast.Lt: 'Z.ltb', ast.LtE: 'Z.leb', ast.Gt: 'Z.gtb', ast.GtE: 'Z.geb'}[type(op)]
                    return self.coerce(f'({fn} {a} {b})', 'bool', want)
                raise Untranslatable('comparison types')
            if isinstance(op, (ast.Eq, ast.NotEq)):
                a, ta = self.expr(e.left, env)
                b, tb = self.expr(rhs, env)
                if ta == 'Z' and tb == 'Z':
                    t = f'(Z.eqb {a} {b})'
                    return self.coerce(t if isinstance(op, ast.Eq) else f'(negb {t})', 'bool', want)
                raise Untranslatable('== types')
            if isinstance(op, (ast.In, ast.NotIn)):
                k, kty = self.expr(e.left, env)
                m, mty = self.expr(rhs, env)
                if kty != 'string' or mty != 'pipeline':
                    raise Untranslatable('in: types')
                t = f'(assoc_mem {k} {m})'
                return self.coerce(t if isinstance(op, ast.In) else f'(negb {t})', 'bool', want)
            raise Untranslatable('compare')
        if isinstance(e, ast.Subscript) and isinstance(e.slice, ast.Constant) and isinstance(e.slice.value, int) \
                and isinstance(e.value, ast.Attribute):
            t, ty = self.expr(e.value.value, env)
            key = (ty, f'{e.value.attr}[{e.slice.value}]')
            if key not in self.spec['fields']:
                raise Untranslatable(f'item {key[1]} of {ty}')
            fn, fty = self.spec['fields'][key]
            return self.coerce(f'({fn} {t})', fty, want)
        if isinstance(e, ast.Subscript):
            m, mty = self.expr(e.value, env)
            k, kty = self.expr(e.slice, env)
            if mty == 'pipeline' and kty == 'string':
                return self.coerce(f'(assoc_get {k} {m})', 'option (list step)', want)
            raise Untranslatable('subscript types')
        if isinstance(e, ast.Call) and isinstance(e.func, ast.Name) and e.func.id == 'isinstance' \
                and len(e.args) == 2 and isinstance(e.args[1], ast.Name) and not e.keywords:
            t, ty = self.expr(e.args[0], env)
            if ty != 'exn':
                raise Untranslatable('isinstance on a non-exception')
            return self.coerce(f'(isinst errors_classes {t} [{coq_str(e.args[1].id)}])', 'bool', want)
        if isinstance(e, ast.Call) and isinstance(e.func, ast.Name) and ast.unparse(e) in self.spec.get('ctx_exprs', {}):
            t, ty = self.spec['ctx_exprs'][ast.unparse(e)]
            return self.coerce(t, ty, want)
        if isinstance(e, ast.Call) and isinstance(e.func, ast.Name) and e.func.id in self.spec.get('free_functions', {}) \
                and not e.keywords:
            fn, argtys, resty = self.spec['free_functions'][e.func.id]
            if len(e.args) != len(argtys):
                raise Untranslatable('free function arity')
            args = [self.expr(a, env, ty)[0] for a, ty in zip(e.args, argtys)]
            return self.coerce(f'({fn} {" ".join(args)})', resty, want)
        if isinstance(e, ast.Call) and isinstance(e.func, ast.Name) and e.func.id == 'len' and len(e.args) == 1 \
                and not e.keywords:
            a, ta = self.expr(e.args[0], env)
            if ta != 'dict' and not ta.startswith('list '):
                raise Untranslatable(f'len of {ta}')
            return self.coerce(f'(Z.of_nat (List.length {a}))', 'Z', want)
        if isinstance(e, ast.Call) and ast.unparse(e.func) == 'copy.deepcopy' and len(e.args) == 1 and not e.keywords:
            return self.expr(e.args[0], env, want)      # values of the model are immutable: a copy is the value
        if isinstance(e, ast.IfExp):
            c = self.truth(e.test, env)
            a, ta = self.expr(e.body, env, want)
            b, tb = self.expr(e.orelse, env, want)
            if ta != tb:
                raise Untranslatable('ifexp types')
            return (f'(if {c} then {a} else {b})', ta)
        if isinstance(e, ast.Call) and isinstance(e.func, ast.Name) and e.func.id in self.spec.get('functions', {}) \
                and len(e.args) == 1 and not e.keywords:
            fn, argty, resty = self.spec['functions'][e.func.id]
            a, _ = self.expr(e.args[0], env, argty)
            return self.coerce(f'({fn} {a})', resty, want)
        if isinstance(e, ast.Call) and isinstance(e.func, ast.Name) and e.func.id in self.spec.get('token_ctors', {}):
            t, ty = self.spec['token_ctors'][e.func.id]
            return self.coerce(t, ty, want)
        if isinstance(e, ast.Dict):
            if any(k is None or not (isinstance(k, ast.Constant) and isinstance(k.value, str)) for k in e.keys):
                raise Untranslatable('dict literal keys')
            items = [f'(VStr {coq_str(k.value)}, {self.expr(v, env, "val")[0]})' for k, v in zip(e.keys, e.values)]
            return self.coerce('(VDict [' + '; '.join(items) + '])', 'val', want)
        if isinstance(e, ast.Call) and isinstance(e.func, ast.Name) and e.func.id == 'str' and len(e.args) == 1 \
                and not e.keywords:
            a, ta = self.expr(e.args[0], env)
            if ta != 'exn':
                raise Untranslatable(f'str() of {ta}')
            return self.coerce(f'(exn_message {a})', 'string', want)
        if isinstance(e, ast.List):
            if want is None or not want.startswith('list '):
                want_el = 'val'
            else:
                want_el = want[5:]
            els = []
            for x in e.elts:
                t, ty = self.expr(x, env)
                if ty == 'string' and want_el == 'val':
                    t = f'(VStr {t})'
                elif ty != want_el:
                    raise Untranslatable('list element type')
                els.append(t)
            return self.coerce('[' + '; '.join(els) + ']', f'list {want_el}', want)
        if isinstance(e, ast.Call) and isinstance(e.func, ast.Name) and e.func.id in self.spec['ctors'] \
                and len(e.args) == 1 and not e.keywords:
            argty, resty = self.spec['ctors'][e.func.id]
            a, _ = self.expr(e.args[0], env, argty)
            return self.coerce(a, resty, want)
        raise Untranslatable(f'expression {type(e).__name__}')

    def coerce(self, t, ty, want):
        if want is None or want == ty:
            return (t, ty)
        if want == f'option {ty}' or want == f'option ({ty})':
            return (f'(Some {t})', want)
        if want == 'val' and ty == 'string':
            return (f'(VStr {t})', 'val')
        if want == 'val' and ty == 'Z':
            return (f'(VInt {t})', 'val')
        if want == 'val' and ty == 'bool':
            return (f'(VBool {t})', 'val')
        if want == 'val' and ty == 'exn':
            return (f'(exn_val {t})', 'val')
        if want == 'val' and ty == 'option Z':
            return (f'(match {t} with Some z => VInt z | None => VNone end)', 'val')
        if want == 'val' and ty == 'option val':
            return (f'(match {t} with Some v => v | None => VNone end)', 'val')
        raise Untranslatable(f'type {ty} where {want} expected')

    def truth(self, e, env):
        t, ty = self.expr(e, env)
        if ty == 'bool':
            return t
        if ty == 'string':
            return f'(negb (String.eqb {t} ""))'
        if ty.startswith('list'):
            return f'(match {t} with [] => false | _ => true end)'
        if ty == 'option string':
            return f'(match {t} with Some x => negb (String.eqb x "") | None => false end)'
        if ty == 'option val':
            return f'(opt_truth {t})'
        if ty == 'Z':
            return f'(negb (Z.eqb {t} 0))'
        if ty == 'option Z':
            return f'(match {t} with Some z => negb (Z.eqb z 0) | None => false end)'
        if ty == 'val':
            return f'(py_truth {t})'
        if ty.startswith('option (list'):
            return f'(match {t} with Some (_ :: _) => true | _ => false end)'
        raise Untranslatable(f'truthiness of {ty}')

    def narrowing(self, test, env):
        """-> (var, payload type, coq guard on payload or None, which branch sees the payload) or None"""
        neg = False
        while isinstance(test, ast.UnaryOp) and isinstance(test.op, ast.Not):
            neg, test = not neg, test.operand
        if isinstance(test, ast.Compare) and len(test.ops) == 1 and isinstance(test.left, ast.Attribute) \
                and isinstance(test.left.value, ast.Name) and test.left.value.id == 'self' \
                and ast.unparse(test.left) not in env and test.left.attr in self.spec['attrs'] \
                and self.spec['attrs'][test.left.attr] != 'STATE' \
                and self.spec['attrs'][test.left.attr][1].startswith('option '):
            env[ast.unparse(test.left)] = self.spec['attrs'][test.left.attr]
        if isinstance(test, ast.Compare) and len(test.ops) == 1 and isinstance(test.left, (ast.Name, ast.Attribute)) \
                and isinstance(test.comparators[0], ast.Constant) and test.comparators[0].value is None \
                and isinstance(test.ops[0], (ast.Is, ast.IsNot)) and ast.unparse(test.left) in env:
            x = ast.unparse(test.left)
            ty = env[x][1]
            if ty.startswith('option '):
                some_branch = isinstance(test.ops[0], ast.IsNot) != neg
                return (x, strip_option(ty), None, some_branch)
        if isinstance(test, ast.Attribute) and isinstance(test.value, ast.Name) and test.value.id == 'self' \
                and ast.unparse(test) not in env and test.attr in self.spec['attrs'] \
                and self.spec['attrs'][test.attr] != 'STATE' and self.spec['attrs'][test.attr][1].startswith('option '):
            env[ast.unparse(test)] = self.spec['attrs'][test.attr]     # now an ordinary (narrowable) binding
        if isinstance(test, (ast.Name, ast.Attribute)) and ast.unparse(test) in env \
                and env[ast.unparse(test)][1].startswith('option '):
            x = ast.unparse(test)
            inner = strip_option(env[x][1])
            if inner == 'string':
                guard = 'negb (String.eqb {p} "")'
            elif inner.startswith('list'):
                guard = 'match {p} with [] => false | _ => true end'
            elif inner in self.spec.get('always_truthy', ()):
                guard = None
            elif inner == 'Z':
                guard = 'negb (Z.eqb {p} 0)'
            elif inner == 'val':
                guard = 'py_truth {p}'
            else:
                raise Untranslatable(f'truthiness of option {inner}')
            return (x, inner, guard, not neg)
        return None

    # ------------------------------------------------------------------ statements
    def block(self, stmts, s, env, cur, k, mode):
        """translate stmts then continuation k(s, env).  mode: ('eff',) or ('pure', rettype)."""
        keep_asserts = self.spec.get('asserts') and mode[0] in ('eff', 'effv')
        stmts = [st for st in stmts if not (is_doc(st) or is_logging(st) or isinstance(st, ast.Pass)
                                            or (isinstance(st, ast.Assert) and not keep_asserts))]
        if not stmts:
            return k(s, env)
        st, rest = stmts[0], stmts[1:]

        def cont(s2, env2):
            return self.block(rest, s2, env2, cur, k, mode)

        if isinstance(st, ast.Assert):
            if st.msg is not None and not isinstance(st.msg, ast.Constant):
                raise Untranslatable('assert message')
            c = self.truth(st.test, env)
            failed = m_wrap(mode, f'(raise_new "AssertionError" {coq_str(st.msg.value if st.msg else "")} {s})')
            return f'(if {c} then {cont(s, env)} else {failed})'
        if isinstance(st, ast.Return):
            if mode[0] == 'pure':
                if st.value is None:
                    return self.expr(ast.Constant(value=None), env, mode[1])[0]
                return self.expr(st.value, env, mode[1])[0]
            if self.in_protected:
                raise Untranslatable('return inside try/for body')
            if mode[0] == 'effv':
                if st.value is None:
                    raise Untranslatable('bare return in a value-returning method')
                return m_ok(mode, s, self.expr(st.value, env, mode[1])[0])
            if st.value is not None and not (isinstance(st.value, ast.Constant) and st.value.value is None):
                raise Untranslatable('return with a value in an effectful method')
            return f'(OOk, {s})'
        if isinstance(st, ast.Raise):
            if mode[0] == 'pure':
                raise Untranslatable('raise in a pure method')
            if st.exc is None:
                if cur is None:
                    raise Untranslatable('bare raise outside a handler')
                return m_raise(mode, cur, s)
            if isinstance(st.exc, ast.Name) and st.exc.id in env and env[st.exc.id][1] == 'exn' and st.cause is None:
                return m_raise(mode, env[st.exc.id][0], s)
            if isinstance(st.exc, ast.Name) and st.exc.id == 'HandledError' and isinstance(st.cause, ast.Name) \
                    and st.cause.id in env and env[st.cause.id][1] == 'exn':
                return m_wrap(mode, f'(raise_handled_from {env[st.cause.id][0]} {s})')
            if isinstance(st.exc, ast.Call) and isinstance(st.exc.func, ast.Name) and len(st.exc.args) == 1 \
                    and isinstance(st.exc.args[0], ast.Constant) and isinstance(st.exc.args[0].value, str) \
                    and st.cause is None:
                return m_wrap(mode, f'(raise_new {raised_name(st.exc.func.id)} {coq_str(st.exc.args[0].value)} {s})')
            if isinstance(st.exc, ast.Call) and isinstance(st.exc.func, ast.Name) and len(st.exc.args) == 1 \
                    and isinstance(st.exc.args[0], ast.JoinedStr) and not st.exc.keywords and st.cause is None:
                msg, partial = self.fstring(st.exc.args[0], env)
                t = m_wrap(mode, f'(raise_new {raised_name(st.exc.func.id)} {msg} {s})')
                for b, term in reversed(partial):
                    t = f'(match {term} with Some {b} => {t} | None => {m_raise(mode, "OUnsup", s)} end)'
                return t
            raise Untranslatable('raise form')
        if isinstance(st, ast.AugAssign) and isinstance(st.target, ast.Name) and st.target.id not in self.live:
            return cont(s, env)
        if isinstance(st, ast.AugAssign) and isinstance(st.target, ast.Name) and isinstance(st.op, ast.Add) \
                and st.target.id in env and env[st.target.id][1] == 'Z':
            x = st.target.id
            v, ty = self.expr(st.value, env, 'Z')
            nx = self.new(x + '_')
            self.assign_log.append(x)
            return f'(let {nx} := ({env[x][0]} + {v})%Z in {cont(s, {**env, x: (nx, "Z")})})'
        if isinstance(st, ast.Break):
            if not self.break_k:
                raise Untranslatable('break outside a loop')
            return self.break_k[-1](s, env)
        # x = f(i, *args, **kwargs): a value-returning callback
        if isinstance(st, ast.Assign) and len(st.targets) == 1 and isinstance(st.targets[0], ast.Name) \
                and isinstance(st.value, ast.Call) and isinstance(st.value.func, ast.Name) \
                and st.value.func.id in self.spec.get('value_callbacks', {}) and mode[0] == 'effv':
            prim, argtys, resty = self.spec['value_callbacks'][st.value.func.id]
            pos = [a for a in st.value.args if not isinstance(a, ast.Starred)]
            if len(pos) != len(argtys) or any(k.arg is not None for k in st.value.keywords):
                raise Untranslatable('value callback arguments')
            args = [self.expr(a, env, ty)[0] for a, ty in zip(pos, argtys)]
            x = st.targets[0].id
            nx, s2, o = self.new(x + '_'), self.new('s'), self.new('o')
            self.assign_log.append(x)
            return (f'(match ({prim} {" ".join(args)} {s}) with | (IDone {nx}, {s2}) => '
                    f'{cont(s2, {**env, x: (nx, resty)})} | (IRaise {o}, {s2}) => (IRaise {o}, {s2}) end)')
        # context.update(d) / context.pop(k, None)
        if isinstance(st, ast.Expr) and isinstance(st.value, ast.Call) and ast.unparse(st.value.func) == 'context.update' \
                and len(st.value.args) == 1 and not st.value.keywords and mode[0] in ('eff', 'effv'):
            d, ty = self.expr(st.value.args[0], env)
            if ty != 'dict':
                raise Untranslatable(f'context.update of {ty}')
            s2 = self.new('s')
            return f'(let {s2} := set_ctx {s} (dict_update (ctx {s}) {d}) in {cont(s2, env)})'
        if isinstance(st, ast.Expr) and isinstance(st.value, ast.Call) and ast.unparse(st.value.func) == 'context.pop' \
                and len(st.value.args) == 2 and isinstance(st.value.args[1], ast.Constant) \
                and st.value.args[1].value is None and not st.value.keywords and mode[0] in ('eff', 'effv'):
            kx, ty = self.expr(st.value.args[0], env)
            if ty != 'val':
                raise Untranslatable(f'context.pop of a {ty} key')
            s2 = self.new('s')
            return f'(let {s2} := set_ctx {s} (dict_pop {kx} (ctx {s})) in {cont(s2, env)})'
        # time.sleep(d)
        if isinstance(st, ast.Expr) and isinstance(st.value, ast.Call) and ast.unparse(st.value.func) == 'time.sleep' \
                and len(st.value.args) == 1 and mode[0] in ('eff', 'effv'):
            d, ty = self.expr(st.value.args[0], env, 'Q')
            s2 = self.new('s')
            return f'(let {s2} := add_sleep {s} {d} in {cont(s2, env)})'
        if isinstance(st, ast.While) and isinstance(st.test, ast.Constant) and st.test.value is True and not st.orelse:
            return self.while_true(st, rest, s, env, cur, k, mode)
        if isinstance(st, ast.Assign) and len(st.targets) == 1 and isinstance(st.targets[0], ast.Name) \
                and mode[0] in ('eff', 'effv') and self.eff_term(st.value, env, s) is not None:
            x = st.targets[0].id
            term, ty = self.eff_term(st.value, env, s)
            nx = self.new(x + '_')
            self.assign_log.append(x)
            return f'({m_lift(mode)} {term} {s} (fun {nx} => {cont(s, {**env, x: (nx, ty)})}))'
        # x = {... 'k': <context read> [if c else pure] ...}: the read is hoisted (the other members are pure)
        if isinstance(st, ast.Assign) and len(st.targets) == 1 and isinstance(st.targets[0], ast.Name) \
                and isinstance(st.value, ast.Dict) and mode[0] in ('eff', 'effv') \
                and any(self.eff_term(v, env, s) is not None for v in st.value.values):
            values, binds = [], []
            for v in st.value.values:
                et = self.eff_term(v, env, s)
                if et is None:
                    values.append(v)
                else:
                    tmp = self.new('member_')
                    binds.append((tmp, et))
                    values.append(ast.Name(id=tmp, ctx=ast.Load()))
            env2 = dict(env)
            for tmp, (term, ty) in binds:
                env2[tmp] = (tmp, ty)
            lit = ast.Dict(keys=st.value.keys, values=values)
            t, ty = self.expr(lit, env2)
            x = st.targets[0].id
            nx = self.new(x + '_')
            self.assign_log.append(x)
            body = f'(let {nx} := {t} in {cont(s, {**env, x: (nx, ty)})})'
            for tmp, (term, ty2) in reversed(binds):
                body = f'({m_lift(mode)} {term} {s} (fun {tmp} => {body}))'
            return body
        # x = context.setdefault(K, []); x.append(v)   (x not used afterwards)
        if isinstance(st, ast.Assign) and len(st.targets) == 1 and isinstance(st.targets[0], ast.Name) \
                and isinstance(st.value, ast.Call) and ast.unparse(st.value.func) == 'context.setdefault' \
                and len(st.value.args) == 2 and isinstance(st.value.args[1], ast.List) and not st.value.args[1].elts \
                and rest and isinstance(rest[0], ast.Expr) and isinstance(rest[0].value, ast.Call) \
                and ast.unparse(rest[0].value.func) == st.targets[0].id + '.append' and len(rest[0].value.args) == 1 \
                and mode[0] == 'eff':
            x = st.targets[0].id
            if any(isinstance(n, ast.Name) and n.id == x for r in rest[1:] for n in ast.walk(r)):
                raise Untranslatable('list from setdefault used after the append')
            kx = self.expr(st.value.args[0], env, 'string')[0]
            v = self.expr(rest[0].value.args[0], env, 'val')[0]
            s2 = self.new('s')
            after = self.block(rest[1:], s2, {**env, '__eff__': ('', 'flag')}, cur, k, mode)
            return f'(andthen (ctx_list_append {kx} {v} {s}) (fun {s2} => {after}))'
        # x = factory(name)(kw=...): an object built by a registered factory (None = outside the model)
        if isinstance(st, ast.Assign) and len(st.targets) == 1 and isinstance(st.targets[0], ast.Name) \
                and isinstance(st.value, ast.Call) and isinstance(st.value.func, ast.Call) \
                and ast.unparse(st.value.func.func) in self.spec.get('factories', {}) and mode[0] in ('eff', 'effv'):
            prim, posty, kws, resty = self.spec['factories'][ast.unparse(st.value.func.func)]
            inner = st.value.func
            if len(inner.args) != len(posty) or inner.keywords or st.value.args \
                    or [k.arg for k in st.value.keywords] != [k for k, _ in kws]:
                raise Untranslatable('factory call shape')
            args = [self.expr(a, env, ty)[0] for a, ty in zip(inner.args, posty)]
            args += [self.expr(k.value, env, ty)[0] for k, (_, ty) in zip(st.value.keywords, kws)]
            x = st.targets[0].id
            nx = self.new(x + '_')
            self.assign_log.append(x)
            return (f'(match ({prim} {s} {" ".join(args)}) with Some {nx} => {cont(s, {**env, x: (nx, resty)})} '
                    f'| None => {m_raise(mode, "OUnsup", s)} end)')
        # x = poll.while_until_true(interval=I, max_attempts=M)(self.f)(context=context, step_method=cb, k=v...)
        if isinstance(st, ast.Assign) and len(st.targets) == 1 and isinstance(st.targets[0], ast.Name) \
                and self.is_polled(st.value) and mode[0] == 'eff':
            x = st.targets[0].id
            nx, s2, o = self.new(x + '_'), self.new('s'), self.new('o')
            self.assign_log.append(x)
            return (f'(match {self.polled(st.value, env, s)} with | (IDone {nx}, {s2}) => '
                    f'{cont(s2, {**env, x: (nx, "bool"), "__eff__": ("", "flag")})} | (IRaise {o}, {s2}) => ({o}, {s2}) end)')
        # if [not] <polled call>: ...
        if isinstance(st, ast.If) and mode[0] == 'eff' and (
                self.is_polled(st.test) or (isinstance(st.test, ast.UnaryOp) and isinstance(st.test.op, ast.Not)
                                            and self.is_polled(st.test.operand))):
            neg = not self.is_polled(st.test)
            callnode = st.test.operand if neg else st.test
            b, s2, o = self.new('done_'), self.new('s'), self.new('o')
            env2 = {**env, '__eff__': ('', 'flag')}
            yes = self.block(st.body + rest, s2, env2, cur, k, mode)
            no = self.block(st.orelse + rest, s2, env2, cur, k, mode)
            if neg:
                yes, no = no, yes
            return (f'(match {self.polled(callnode, env, s)} with | (IDone {b}, {s2}) => '
                    f'(if {b} then {yes} else {no}) | (IRaise {o}, {s2}) => ({o}, {s2}) end)')
        # context['k'] = v
        if isinstance(st, ast.Assign) and len(st.targets) == 1 and isinstance(st.targets[0], ast.Subscript) \
                and isinstance(st.targets[0].value, ast.Name) and st.targets[0].value.id == 'context' \
                and isinstance(st.targets[0].slice, ast.Constant) and isinstance(st.targets[0].slice.value, str) \
                and mode[0] in ('eff', 'effv'):
            v, ty = self.expr(st.value, env)
            if ty == 'Z':
                v = f'(VInt {v})'
            elif ty != 'val':
                raise Untranslatable(f'context[...] = value of type {ty}')
            s2 = self.new('s')
            return (f'(let {s2} := set_ctx {s} (sset {coq_str(st.targets[0].slice.value)} {v} (ctx {s})) in '
                    f'{cont(s2, env)})')
        # if context.get(K) is not V: context[K] = V      (write unless the very same object is there)
        if isinstance(st, ast.If) and not st.orelse and len(st.body) == 1 and isinstance(st.test, ast.Compare) \
                and len(st.test.ops) == 1 and isinstance(st.test.ops[0], ast.IsNot) \
                and isinstance(st.test.left, ast.Call) and ast.unparse(st.test.left.func) == 'context.get' \
                and len(st.test.left.args) == 1 and not st.test.left.keywords \
                and isinstance(st.body[0], ast.Assign) and len(st.body[0].targets) == 1 \
                and isinstance(st.body[0].targets[0], ast.Subscript) \
                and ast.unparse(st.body[0].targets[0].value) == 'context' \
                and ast.unparse(st.body[0].targets[0].slice) == ast.unparse(st.test.left.args[0]) \
                and ast.unparse(st.body[0].value) == ast.unparse(st.test.comparators[0]) \
                and 'same_object' in self.spec and mode[0] in ('eff', 'effv'):
            kx, kty = self.expr(st.test.left.args[0], env)
            v, vty = self.expr(st.test.comparators[0], env)
            if kty != 'string' or vty != 'val':
                raise Untranslatable('write-unless-same: types')
            s2 = self.new('s')
            return (f'(let {s2} := set_ctx {s} (write_unless_same {self.spec["same_object"]} {kx} {v} (ctx {s})) in '
                    f'{cont(s2, env)})')
        # self.field = v : a field of the decorator object, read later through the callback
        if isinstance(st, ast.Assign) and len(st.targets) == 1 and isinstance(st.targets[0], ast.Attribute) \
                and isinstance(st.targets[0].value, ast.Name) and st.targets[0].value.id == 'self' \
                and st.targets[0].attr in self.spec.get('fields_rw', ()):
            v, ty = self.expr(st.value, env)
            if st.targets[0].attr in self.spec.get('set_before_effects', ()) and '__eff__' in env:
                raise Untranslatable(f'self.{st.targets[0].attr} is assigned after an effectful call')
            return cont(s, {**env, 'self.' + st.targets[0].attr: (v, ty)})
        if isinstance(st, ast.Assign) and len(st.targets) == 1 and isinstance(st.targets[0], ast.Name):
            x = st.targets[0].id
            if x not in self.live:
                return cont(s, env)      # only read by logging
            t, ty = self.expr(st.value, env, self.spec.get('local_types', {}).get(x))
            nx = self.new(x + '_')
            self.assign_log.append(x)
            if ty == 'option Q' and mode[0] in ('eff', 'effv') and x not in self.spec.get('local_types', {}):
                return (f'(match {t} with Some {nx} => {cont(s, {**env, x: (nx, "Q")})} '
                        f'| None => {m_raise(mode, "OUnsup", s)} end)')
            return f'(let {nx} := {t} in {cont(s, {**env, x: (nx, ty)})})'
        if isinstance(st, ast.If) and self.droppable(st.body) and self.droppable(st.orelse):
            return cont(s, env)          # both branches only log
        if isinstance(st, ast.If) and isinstance(st.test, ast.Compare) and len(st.test.ops) == 1 \
                and isinstance(st.test.ops[0], (ast.In, ast.NotIn)) and mode[0] in ('eff', 'effv'):
            a, ta = self.expr(st.test.left, env)
            b, tb = self.expr(st.test.comparators[0], env)
            if ta == 'string' and tb == 'val':
                bn = self.new('b')
                yes = self.block(st.body + rest, s, env, cur, k, mode)
                no = self.block(st.orelse + rest, s, env, cur, k, mode)
                if isinstance(st.test.ops[0], ast.NotIn):
                    yes, no = no, yes
                return f'({m_lift(mode)} (in_names {a} {b}) {s} (fun {bn} => if {bn} then {yes} else {no}))'
        if isinstance(st, ast.If):
            nar = self.narrowing(st.test, env)
            if nar is not None:
                x, inner, guard, some_branch = nar
                p = self.new(x.replace('.', '_') + '_')
                env_some = {**env, x: (p, inner)}
                body_some, body_none = (st.body, st.orelse) if some_branch else (st.orelse, st.body)
                a = self.block(body_some + rest, s, env_some, cur, k, mode)
                b = self.block(body_none + rest, s, env, cur, k, mode)
                t0 = env[x][0]
                if guard is None:
                    return f'(match {t0} with Some {p} => {a} | None => {b} end)'
                return (f'(match {t0} with Some {p} => if {guard.format(p=p)} then {a} else {b} '
                        f'| None => {b} end)')
            c = self.truth(st.test, env)
            a = self.block(st.body + rest, s, env, cur, k, mode)
            b = self.block(st.orelse + rest, s, env, cur, k, mode)
            return f'(if {c} then {a} else {b})'
        if mode[0] == 'pure':
            raise Untranslatable(f'{type(st).__name__} in a pure method')
        if isinstance(st, ast.Expr) and isinstance(st.value, ast.Call):
            call = self.call(st.value, env, s)
            s2 = self.new('s')
            return f'({m_andthen(mode)} {call} (fun {s2} => {cont(s2, {**env, "__eff__": ("", "flag")})}))'
        if isinstance(st, ast.For) and isinstance(st.target, ast.Name) and not st.orelse:
            xs, ty = self.expr(st.iter, env)
            if ty == 'dict':
                xs, ty = f'(map fst {xs})', 'list val'       # iterating a mapping = its keys, in order
            if ty == 'val':
                items = self.new('items')
                x = self.new(st.target.id + '_')
                s1, s2 = self.new('s'), self.new('s')
                body = self.protected(st.body, s1, {**env, st.target.id: (x, 'val')}, cur)
                return (f'({m_lift(mode)} (iter_items {xs}) {s} (fun {items} => '
                        f'({m_andthen(mode)} (for_each {items} (fun {x} {s1} => {body}) {s}) '
                        f'(fun {s2} => {cont(s2, env)}))))')
            if not ty.startswith('list '):
                raise Untranslatable(f'for over {ty}')
            x = self.new(st.target.id + '_')
            s1, s2 = self.new('s'), self.new('s')
            body = self.protected(st.body, s1, {**env, st.target.id: (x, ty[5:].strip('()') if ty[5:].startswith('(') else ty[5:])}, cur)
            return (f'({m_andthen(mode)} (for_each {xs} (fun {x} {s1} => {body}) {s}) '
                    f'(fun {s2} => {cont(s2, env)}))')
        if isinstance(st, ast.Try) and st.finalbody and mode[0] != 'eff':
            raise Untranslatable('finally in a value-returning method')
        if isinstance(st, ast.Try) and st.finalbody:
            inner_try = ast.Try(body=st.body, handlers=st.handlers, orelse=st.orelse, finalbody=[])
            inner = self.protected([inner_try], s, env, cur)
            o, s1, s2 = self.new('o'), self.new('s'), self.new('s')
            fin = self.protected(st.finalbody, s1, env, cur)
            r = self.new('r')
            return (f'(match {inner} with ({o}, {s1}) => match {fin} with '
                    f'| (OOk, {s2}) => match {o} with OOk => {cont(s2, env)} | _ => ({o}, {s2}) end '
                    f'| {r} => {r} end end)')
        if isinstance(st, ast.Try) and not st.finalbody:
            s1 = self.new('s')
            tbody, hoisted = list(st.body), []
            while tbody and isinstance(tbody[-1], ast.Assign) and isinstance(tbody[-1].value, ast.Constant):
                hoisted.insert(0, tbody.pop())      # `x = <constant>` cannot raise: same as in the else part
            st = ast.Try(body=tbody, handlers=st.handlers, orelse=hoisted + list(st.orelse), finalbody=[])
            if self.spec.get('abstract_try_body'):
                prim, reads = self.spec['abstract_try_body']
                body = f'({prim} {" ".join(env[r][0] for r in reads)} {s})'
            else:
                body = self.protected(st.body, s, env, cur)
            ev = self.new('e')
            arms = m_raise(mode, ev, s1)
            for h in reversed(st.handlers):
                if h.type is None:
                    raise Untranslatable('bare except')
                classes = [h.type] if not isinstance(h.type, ast.Tuple) else list(h.type.elts)
                if not all(isinstance(c, ast.Name) for c in classes):
                    raise Untranslatable('except class expression')
                for c in classes:
                    if c.id != 'Exception' and c.id not in KNOWN_CLASSES:
                        raise Untranslatable(f'handler for {c.id}: not a class of pypyr/errors.py')
                names = '[' + '; '.join(coq_str(c.id) for c in classes) + ']'
                henv = dict(env)
                if h.name:
                    henv[h.name] = (ev, 'exn')
                hbody = self.block(h.body, s1, henv, ev, lambda s2, env2: self.block(rest, s2, self.drop(env2, h.name, env), cur, k, mode), mode)
                arms = f'(if isinst errors_classes {ev} {names} then {hbody} else {arms})'
            ok = self.block(st.orelse + rest, s1, env, cur, k, mode)
            return (f'(match {body} with | (OOk, {s1}) => {ok} | (OUnsup, {s1}) => {m_raise(mode, "OUnsup", s1)} '
                    f'| ({ev}, {s1}) => {arms} end)')
        raise Untranslatable(f'statement {type(st).__name__}')

    def while_true(self, st, rest, s, env, cur, k, mode):
        """`while True:` -> a Fixpoint on fuel over the loop-carried variables; `break` continues with the
        statements after the loop (translated inside the Fixpoint), falling off the end of the body
        iterates."""
        if self.loop_fuel is None or self.in_protected or self.break_k:
            raise Untranslatable('while loop here')
        assigned = set()
        for sub in ast.walk(st):
            if isinstance(sub, (ast.Assign, ast.AugAssign)):
                for t in (sub.targets if isinstance(sub, ast.Assign) else [sub.target]):
                    if isinstance(t, ast.Name):
                        assigned.add(t.id)
        carried = [x for x in env if x in assigned]
        others = [x for x in env if x not in assigned and not x.startswith('__') and x not in self.spec.get('free_vars', {})
                  and not x.startswith('self.')]
        name = self.sig_coq + '_loop'
        if self.aux:
            raise Untranslatable('a second loop (or a loop reached on two paths)')
        params = [(x, env[x][1]) for x in carried] + [(x, env[x][1]) for x in others]
        loop_env = {**env, **{x: (x, ty) for x, ty in params}}

        def continue_k(s2, env2):
            args = ' '.join(env2[x][0] for x, _ in params)
            return f'({name} fuel\' {args} {s2})'

        self.break_k.append(lambda s2, env2: self.block(rest, s2, env2, cur, k, mode))
        try:
            body = self.block(st.body, 's', loop_env, cur, continue_k, mode)
        finally:
            self.break_k.pop()
        binders = ' '.join(f'({x} : {ty})' for x, ty in params)
        rty = 'iter_result * st' if mode[0] == 'effv' else 'R'
        self.aux.append(f"Fixpoint {name} (fuel : nat) {binders} (s : st) : {rty} :=\n"
                        f"  match fuel with\n  | O => {m_raise(mode, 'OUnsup', 's')}\n  | S fuel' => {body}\n  end.")
        args = ' '.join(env[x][0] for x, _ in params)
        return f'({name} fuel {args} {s})'

    @staticmethod
    def droppable(stmts):
        return all(is_doc(st) or is_logging(st) or isinstance(st, (ast.Assert, ast.Pass))
                   or (isinstance(st, ast.If) and Unit.droppable(st.body) and Unit.droppable(st.orelse))
                   for st in stmts)

    def eff_value(self, e):
        """`context.get_formatted_as_type(self.X, out_type=bool)` -> (self.X node, model function, type)"""
        if isinstance(e, ast.Call) and isinstance(e.func, ast.Attribute) and isinstance(e.func.value, ast.Name) \
                and e.func.value.id == 'context' and e.func.attr == 'get_formatted_as_type' and len(e.args) == 1 \
                and len(e.keywords) == 1 and e.keywords[0].arg == 'out_type' \
                and isinstance(e.keywords[0].value, ast.Name) and e.keywords[0].value.id in ('bool', 'float', 'int'):
            return (e.args[0],) + {'bool': ('as_bool', 'bool'), 'float': ('as_float', 'Q'),
                                   'int': ('as_int', 'Z')}[e.keywords[0].value.id]
        if isinstance(e, ast.Call) and isinstance(e.func, ast.Name) and e.func.id in self.spec.get('eff_functions', {}) \
                and len(e.args) == 1 and self.is_context_arg(e.args[0]) and not e.keywords:
            fn, ty = self.spec['eff_functions'][e.func.id]
            return (None, fn, ty)
        if isinstance(e, ast.Call) and isinstance(e.func, ast.Attribute) and isinstance(e.func.value, ast.Name) \
                and e.func.value.id == 'context' and e.func.attr == 'get_formatted_value' and len(e.args) == 1 \
                and not e.keywords:
            return (e.args[0], 'fmt', 'val')
        return None

    def is_polled(self, e):
        return (isinstance(e, ast.Call) and isinstance(e.func, ast.Call) and isinstance(e.func.func, ast.Call)
                and ast.unparse(e.func.func.func) == 'poll.while_until_true' and 'polled' in self.spec)

    def polled(self, final, env, s):
        """poll.while_until_true(interval=I, max_attempts=M)(self.f)(context=context, step_method=cb, k=v...)"""
        deco, target = final.func.func, final.func.args
        prim, tname, extra, ivty = self.spec['polled']
        if deco.args or [k.arg for k in deco.keywords] != ['interval', 'max_attempts'] \
                or len(target) != 1 or ast.unparse(target[0]) != tname or final.args:
            raise Untranslatable('polled call shape')
        kw = {k.arg: k.value for k in final.keywords}
        if set(kw) != {'context', 'step_method'} | {k for k, _ in extra} or not self.is_context_arg(kw['context']) \
                or not (isinstance(kw['step_method'], ast.Name) and kw['step_method'].id == 'step_method'):
            raise Untranslatable('polled call arguments')
        iv = self.expr(deco.keywords[0].value, env, ivty)[0]
        mx = self.expr(deco.keywords[1].value, env, 'option Z')[0]
        ex = [self.expr(kw[k], env, ty)[0] for k, ty in extra]
        return f'({prim} {iv} {mx} {" ".join(ex)} {s})'.replace('  ', ' ')

    def fstring(self, js, env):
        """f-string -> (string term, [(binder, partial string term)]): values of the model print through
        py_str, which is partial (None = a rendering outside the model)"""
        parts, partial = [], []
        for v in js.values:
            if isinstance(v, ast.Constant) and isinstance(v.value, str):
                parts.append(coq_str(v.value))
                continue
            if not isinstance(v, ast.FormattedValue) or v.conversion != -1 or v.format_spec is not None:
                raise Untranslatable('f-string field')
            t, ty = self.expr(v.value, env)
            if ty == 'Z':
                parts.append(f'(str_of_Z {t})')
            elif ty == 'string':
                parts.append(t)
            elif ty == 'option Z':
                parts.append(f'(match {t} with Some z => str_of_Z z | None => "None" end)')
            elif ty in ('val', 'option val'):
                if ty == 'option val':
                    t = self.coerce(t, ty, 'val')[0]
                b = self.new('txt')
                partial.append((b, f'(py_str {t})'))
                parts.append(b)
            else:
                raise Untranslatable(f'f-string field of type {ty}')
        return '(' + ' ++ '.join(parts) + ')', partial

    def eff_term(self, e, env, s):
        """-> (res-valued coq term, type) for a context read, or `<context read> if <test> else <pure>`"""
        ev = self.eff_value(e)
        if ev is not None:
            attr, fn, ty = ev
            a = self.expr(attr, env, 'val')[0] if attr is not None else ''
            return (f'({fn} {s} {a})', ty)
        if isinstance(e, ast.IfExp) and self.eff_value(e.body) is not None:
            t, ty = self.eff_term(e.body, env, s)
            other = self.expr(e.orelse, env, ty)[0]
            return (f'(if {self.truth(e.test, env)} then {t} else Ok {other})', ty)
        return None

    @staticmethod
    def drop(env2, name, outer):
        if name is None:
            return env2
        e = dict(env2)
        if name in outer:
            e[name] = outer[name]
        else:
            e.pop(name, None)
        return e

    def protected(self, stmts, s, env, cur):
        """body of a try / for: falls through to (OOk, s'); may not assign live outer names."""
        saved = self.in_protected
        self.in_protected = True
        mark = len(self.assign_log)

        def k_end(s2, env2):
            for x in self.assign_log[mark:]:
                if x in env:
                    raise Untranslatable(f'assignment to {x} inside a try/for body')
            return f'(OOk, {s2})'
        try:
            return self.block(stmts, s, env, cur, k_end, ('eff',))
        finally:
            self.in_protected = saved

    def call(self, c, env, s):
        for fld in self.spec.get('set_before_effects', ()):
            if 'self.' + fld not in env:
                raise Untranslatable(f'effectful call before self.{fld} is assigned')
        f = c.func
        if isinstance(f, ast.Name) and f.id in self.spec.get('callbacks', {}):
            prim, reads = self.spec['callbacks'][f.id]
            if not all(self.is_context_arg(a) for a in c.args) or c.keywords:
                raise Untranslatable('callback arguments')
            extra = []
            for r in reads:
                if r not in env:
                    raise Untranslatable(f'{r} not set before the callback')
                extra.append(env[r][0])
            return f'({prim} {" ".join(extra)} {s})' if extra else f'({prim} {s})'
        if not isinstance(f, ast.Attribute):
            raise Untranslatable('call of a non-method')
        if isinstance(f.value, ast.Name) and f.value.id == 'self':
            name = f.attr
            sig = self.spec['methods'].get(name)
            if sig is None or sig['kind'] not in ('eff', 'prim'):
                raise Untranslatable(f'call self.{name}')
            if sig['kind'] == 'prim' or name in self.defined:
                target, params = sig['coq'], sig['params']
            else:
                if 'rec' not in sig:
                    raise Untranslatable(f'forward call to {name} without a rec variable')
                target, params = sig['rec'][0], sig['rec'][1]
            args = self.bind_args(c, params, sig.get('defaults', {}), env)
            for r in sig.get('reads', ()):
                if r not in env:
                    raise Untranslatable(f'{r} not set before calling {name}')
                args = [env[r][0]] + args
            return f'({target} {" ".join(args)} {s})' if args else f'({target} {s})'
        # method on a local object
        obj, oty = self.expr(f.value, env)
        key = (oty, f.attr)
        if key not in self.spec['obj_methods']:
            raise Untranslatable(f'method {f.attr} on {oty}')
        prim, params = self.spec['obj_methods'][key]
        args = self.bind_args(c, params, {}, env)
        objarg = '' if oty in self.spec.get('unit_objects', ()) else f' {obj}'
        return f'({prim}{objarg} {" ".join(args)} {s})' if args else f'({prim}{objarg} {s})'

    def is_context_arg(self, a):
        if isinstance(a, ast.Name) and a.id == 'context':
            return True
        return (isinstance(a, ast.Attribute) and isinstance(a.value, ast.Name) and a.value.id == 'self'
                and self.spec['attrs'].get(a.attr) == 'STATE')

    def bind_args(self, c, params, defaults, env):
        """params: [(name, type)]; type '@callback:<m>' = must be exactly self.<m> (checked, not passed);
        the context / self.context argument is the state and is not passed."""
        vals = {}
        pos = [a for a in c.args if not self.is_context_arg(a)]
        if len(pos) > len(params):
            raise Untranslatable('too many arguments')
        binds = list(zip(params, pos))
        for kw in c.keywords:
            if kw.arg == 'context' and self.is_context_arg(kw.value):
                continue
            pty = dict(params).get(kw.arg)
            if pty is None:
                raise Untranslatable(f'keyword {kw.arg}')
            binds.append(((kw.arg, pty), kw.value))
        for (pn, pty), a in binds:
            if pty.startswith('@callback:'):
                want = pty.split(':', 1)[1]
                if not (isinstance(a, ast.Attribute) and isinstance(a.value, ast.Name) and a.value.id == 'self'
                        and a.attr == want):
                    raise Untranslatable(f'callback argument is not self.{want}')
                vals[pn] = None
            else:
                vals[pn] = self.expr(a, env, pty)[0]
        out = []
        for pn, pty in params:
            if pn not in vals:
                if pn not in defaults:
                    raise Untranslatable(f'missing argument {pn}')
                vals[pn] = defaults[pn]
            if vals[pn] is not None:
                out.append(vals[pn])
        return out

    # ------------------------------------------------------------------ methods
    def method(self, tree, name):
        sig = self.spec['methods'][name]
        params = sig['params']
        head_args = ' '.join(f'({pn} : {pty})' for pn, pty in params)
        try:
            fn = find_function(tree, sig.get('path') or (f"{self.spec['cls']}.{name}" if self.spec['cls'] else name))
            got = [a.arg for a in fn.args.args if a.arg not in ('self', 'context')
                   and a.arg not in self.spec.get('callbacks', {})]
            if sig.get('varargs') and not (fn.args.vararg and fn.args.kwarg):
                raise Untranslatable('expected *args, **kwargs')
            if got != [pn for pn, _ in params]:
                raise Untranslatable(f'signature changed: {got}')
            # python defaults must agree with the table
            defaults = {}
            for a, d in zip(reversed(fn.args.args), reversed(fn.args.defaults)):
                pty = dict(params)[a.arg]
                defaults[a.arg] = self.expr(d, {}, pty)[0]
            sig['defaults'] = defaults
            self.live = live_names(fn)
            self.in_protected = False
            self.effects_seen = False
            self.assign_log = []
            self.fresh = 0
            env = {pn: (pn, pty) for pn, pty in params}
            env.update(self.spec.get('free_vars', {}))
            self.aux = []
            self.break_k = []
            self.sig_coq = sig['coq']
            self.loop_fuel = 'fuel' if sig.get('fuel') else None
            if sig.get('fuel'):
                head_args = (head_args + ' (fuel : nat)').strip()
            if sig['kind'] == 'pure':
                def fall(s, env2):
                    if sig['ret'].startswith('option'):
                        return 'None'
                    raise Untranslatable('falls off the end of a pure method')
                body = self.block(fn.body, None, env, None, fall, ('pure', sig['ret']))
                text = f"Definition {sig['coq']} {head_args} : {sig['ret']} :=\n  {body}."
            elif sig['kind'] == 'effv':
                def fall_v(s, env2):
                    raise Untranslatable('falls off the end of a value-returning method')
                body = self.block(fn.body, 's', env, None, fall_v, ('effv', sig['ret']))
                text = f"Definition {sig['coq']} {head_args} (s : st) : iter_result * st :=\n  {body}."
            else:
                body = self.block(fn.body, 's', env, None, lambda s, e: f'(OOk, {s})', ('eff',))
                text = f"Definition {sig['coq']} {head_args} (s : st) : R :=\n  {body}."
            self.defined.append(name)
            return '\n\n'.join(self.aux + [text])
        except Untranslatable as ex:
            self.defined.append(name)
            return (f"(* UNTRANSLATABLE {self.spec['cls'] or self.spec['file']}.{name}: {ex} *)\n"
                    f"Definition {sig['coq']}_UNTRANSLATED := tt.")


def strip_option(ty):
    inner = ty[len('option '):]
    if inner.startswith('(') and inner.endswith(')'):
        inner = inner[1:-1]
    return inner


def config_constants():
    """`self.<name> = '<str>'` in Config.__init__ (pypyr/config.py) -> {config.<name>: (coq string, 'string')}"""
    tree = ast.parse((REPO / 'pypyr/config.py').read_text())
    init = find_function(tree, 'Config.__init__')
    out = {}
    for st in ast.walk(init):
        if isinstance(st, ast.Assign) and len(st.targets) == 1 and isinstance(st.targets[0], ast.Attribute) \
                and isinstance(st.targets[0].value, ast.Name) and st.targets[0].value.id == 'self' \
                and isinstance(st.value, ast.Constant) and isinstance(st.value.value, str):
            out['config.' + st.targets[0].attr] = (coq_str(st.value.value), 'string')
    return out


def class_table(tree):
    rows = []
    for n in tree.body:
        if isinstance(n, ast.ClassDef):
            bases = []
            for b in n.bases:
                if isinstance(b, ast.Name):
                    bases.append(b.id)
                else:
                    raise Untranslatable('class base expression')
            rows.append((n.name, bases))
    return rows


STEPSRUNNER = {
    'file': 'pypyr/stepsrunner.py', 'cls': 'StepsRunner', 'section': 'GenStepsRunner',
    'variables': [
        ('prim_step_run_step', 'step -> st -> R', 'Step(step).run_step(context)'),
        ('rec_run_step_groups', 'list val -> option string -> option string -> st -> R',
         'StepsRunner.run_step_groups, re-entered on Jump (the recursion knot)'),
        ('pipeline_body', 'pipeline', 'self.pipeline_body'),
    ],
    'attrs': {'pipeline_body': ('pipeline_body', 'pipeline'), 'context': 'STATE'},
    'fields': {('exn', 'groups'): ('exn_groups', 'list val'),
               ('exn', 'success_group'): ('exn_success_group', 'option string'),
               ('exn', 'failure_group'): ('exn_failure_group', 'option string')},
    'ctors': {'Step': ('step', 'step')},
    'obj_methods': {('step', 'run_step'): ('prim_step_run_step', [])},
    'methods': {
        'get_pipeline_steps': {'kind': 'pure', 'coq': 'gen_get_pipeline_steps',
                               'params': [('step_group', 'string')], 'ret': 'option (list step)'},
        'run_pipeline_steps': {'kind': 'eff', 'coq': 'gen_run_pipeline_steps',
                               'params': [('steps', 'option (list step)')]},
        'run_step_group': {'kind': 'eff', 'coq': 'gen_run_step_group',
                           'params': [('step_group_name', 'string'), ('raise_stop', 'bool')]},
        'run_failure_step_group': {'kind': 'eff', 'coq': 'gen_run_failure_step_group',
                                   'params': [('group_name', 'string')]},
        'run_step_groups': {'kind': 'eff', 'coq': 'gen_run_step_groups',
                            'params': [('groups', 'list string'), ('success_group', 'option string'),
                                       ('failure_group', 'option string')],
                            'rec': ('rec_run_step_groups', [('groups', 'list val'), ('success_group', 'option string'),
                                                            ('failure_group', 'option string')])},
    },
    'order': ['get_pipeline_steps', 'run_pipeline_steps', 'run_step_group', 'run_failure_step_group',
              'run_step_groups'],
}
RG_PARAMS = [('groups', 'list val'), ('success_group', 'option string'), ('failure_group', 'option string')]
STEP = {
    'file': 'pypyr/dsl.py', 'cls': 'Step', 'section': 'GenStep',
    'variables': [
        ('sp', 'step', 'self: the step definition (decorator values as written in the pipeline)'),
        ('prim_run_step_function', 'st -> R', 'self.run_step_function(context): the step body'),
        ('rec_run_step_groups', 'list val -> option string -> option string -> st -> R',
         'context.current_pipeline.steps_runner.run_step_groups (re-entered on Call)'),
        ('prim_reset_context_counters', 'outcome -> st -> R', 'self.reset_context_counters(context, call)'),
        ('prim_retry_loop', 'rcfg -> st -> R', 'self.retry_decorator.retry_loop(context, self.invoke_step)'),
        ('prim_save_error', 'outcome -> bool -> st -> R', 'self.save_error(context, exception, swallowed)'),
        ('prim_foreach_loop', 'st -> R', 'self.foreach_loop(context)'),
    ],
    'attrs': {'run_me': ('(s_run sp)', 'val'), 'skip_me': ('(s_skip sp)', 'val'),
              'swallow_me': ('(s_swallow sp)', 'val'), 'retry_decorator': ('(s_retry sp)', 'option rcfg'),
              'foreach_items': ('(s_foreach sp)', 'option val')},
    'always_truthy': ('rcfg',),
    'ctx_exprs': {'context.current_pipeline.steps_runner': ('tt', 'steps_runner')},
    'unit_objects': ('steps_runner',),
    'fields': {('exn', 'groups'): ('exn_groups', 'list val'),
               ('exn', 'success_group'): ('exn_success_group', 'option string'),
               ('exn', 'failure_group'): ('exn_failure_group', 'option string'),
               ('exn', '__cause__'): ('exn_cause', 'exn')},
    'ctors': {},
    'obj_methods': {('steps_runner', 'run_step_groups'): ('rec_run_step_groups', RG_PARAMS),
                    ('rcfg', 'retry_loop'): ('prim_retry_loop', [('step_method', '@callback:invoke_step')])},
    'methods': {
        'run_step_function': {'kind': 'prim', 'coq': 'prim_run_step_function', 'params': []},
        'reset_context_counters': {'kind': 'prim', 'coq': 'prim_reset_context_counters', 'params': [('call', 'exn')]},
        'save_error': {'kind': 'prim', 'coq': 'prim_save_error',
                       'params': [('exception', 'exn'), ('swallowed', 'bool')]},
        'foreach_loop': {'kind': 'prim', 'coq': 'prim_foreach_loop', 'params': []},
        'invoke_step': {'kind': 'eff', 'coq': 'gen_invoke_step', 'params': []},
        'run_conditional_decorators': {'kind': 'eff', 'coq': 'gen_run_conditional_decorators', 'params': []},
        'run_foreach_or_conditional': {'kind': 'eff', 'coq': 'gen_run_foreach_or_conditional', 'params': []},
    },
    'order': ['invoke_step', 'run_conditional_decorators', 'run_foreach_or_conditional'],
}
RETRY = {
    'file': 'pypyr/dsl.py', 'cls': 'RetryDecorator', 'section': 'GenRetry',
    'variables': [
        ('rc', 'rcfg', 'self: the retry decorator as written in the pipeline'),
        ('prim_step_method', 'Z -> st -> R',
         'step_method(context), run while self.retry_counter holds the given value'),
    ],
    'attrs': {'stop_on': ('(r_stopon rc)', 'option val'), 'retry_on': ('(r_retryon rc)', 'option val')},
    'fields_rw': ('retry_counter',),
    'callbacks': {'step_method': ('prim_step_method', ['self.retry_counter'])},
    'functions': {'get_error_name': ('exn_error_name', 'exn', 'string')},
    'fields': {('exn', '__cause__'): ('exn_cause', 'exn')},
    'ctors': {}, 'obj_methods': {},
    'methods': {'exec_iteration': {'kind': 'effv', 'coq': 'gen_retry_exec_iteration',
                                   'params': [('counter', 'Z'), ('max', 'option Z')], 'ret': 'bool'}},
    'order': ['exec_iteration'],
}
WHILE = {
    'file': 'pypyr/dsl.py', 'cls': 'WhileDecorator', 'section': 'GenWhile',
    'variables': [
        ('w', 'wcfg', 'self: the while decorator as written in the pipeline'),
        ('prim_step_method', 'Z -> st -> R',
         'step_method(context), run while self.while_counter holds the given value'),
    ],
    'attrs': {'stop': ('(w_stop w)', 'option val')},
    'fields_rw': ('while_counter',),
    'callbacks': {'step_method': ('prim_step_method', ['self.while_counter'])},
    'fields': {}, 'ctors': {}, 'obj_methods': {},
    'methods': {'exec_iteration': {'kind': 'effv', 'coq': 'gen_while_exec_iteration',
                                   'params': [('counter', 'Z')], 'ret': 'bool'}},
    'order': ['exec_iteration'],
}
PIPELINE = {
    'file': 'pypyr/pipeline.py', 'cls': 'Pipeline', 'section': 'GenPipeline',
    'variables': [
        ('p_groups', 'option (list val)', 'self.groups'),
        ('p_success', 'option string', 'self.success_group'),
        ('p_failure', 'option string', 'self.failure_group'),
        ('prim_prepare_context', 'st -> R', 'self._prepare_context(context)'),
        ('rec_run_step_groups', 'list val -> option string -> option string -> st -> R',
         'steps_runner.run_step_groups of the runner built for this pipeline'),
        ('prim_run_failure_step_group', 'option string -> st -> R',
         'steps_runner.run_failure_step_group(failure_group)'),
    ],
    'attrs': {'groups': ('p_groups', 'option (list val)'), 'success_group': ('p_success', 'option string'),
              'failure_group': ('p_failure', 'option string')},
    'config_exprs': True,
    'token_ctors': {'StepsRunner': ('tt', 'steps_runner')},
    'unit_objects': ('steps_runner',),
    'fields_rw': ('steps_runner',),
    'set_before_effects': ('steps_runner',),
    'fields': {}, 'ctors': {},
    'obj_methods': {('steps_runner', 'run_step_groups'): ('rec_run_step_groups', RG_PARAMS),
                    ('steps_runner', 'run_failure_step_group'):
                        ('prim_run_failure_step_group', [('group_name', 'option string')])},
    'methods': {
        '_prepare_context': {'kind': 'prim', 'coq': 'prim_prepare_context', 'params': []},
        '_run_pipeline': {'kind': 'eff', 'coq': 'gen_run_pipeline', 'params': []},
    },
    'order': ['_run_pipeline'],
}
PYPE = {
    'file': 'pypyr/steps/pype.py', 'cls': None, 'section': 'GenPype',
    'variables': [
        ('prim_try_body', 'pype_args -> st -> R',
         'the body of the try: new_pipe_and_args, args into context / child context, '
         'load_and_run_pipeline, out written back (modelled by hand: two contexts)'),
    ],
    'attrs': {},
    'eff_functions': {'get_arguments': ('get_arguments', 'pype_args')},
    'abstract_try_body': ('prim_try_body', ['pype_args']),
    'fields': {('pype_args', 'raise_error'): ('pa_raise', 'bool')},
    'ctors': {}, 'obj_methods': {},
    'methods': {'run_step': {'kind': 'eff', 'coq': 'gen_pype_run_step', 'params': []}},
    'order': ['run_step'],
}
STEP_FOREACH = {
    'file': 'pypyr/dsl.py', 'cls': 'Step', 'section': 'GenStepForeach',
    'variables': [
        ('sp', 'step', 'self'),
        ('prim_run_conditional_decorators', 'val -> st -> R',
         'self.run_conditional_decorators(context), run while self.for_counter holds the given item'),
    ],
    'attrs': {'foreach_items': ('(s_foreach sp)', 'option val')},
    'fields_rw': ('for_counter',),
    'fields': {}, 'ctors': {}, 'obj_methods': {},
    'methods': {
        'run_conditional_decorators': {'kind': 'prim', 'coq': 'prim_run_conditional_decorators', 'params': [],
                                       'reads': ['self.for_counter']},
        'foreach_loop': {'kind': 'eff', 'coq': 'gen_foreach_loop', 'params': []},
    },
    'order': ['foreach_loop'],
}
STEP_RUN = {
    'file': 'pypyr/dsl.py', 'cls': 'Step', 'section': 'GenStepRun',
    'variables': [
        ('sp', 'step', 'self'),
        ('prim_set_step_input_context', 'st -> R', 'self.set_step_input_context(context)'),
        ('prim_unset_step_input_context', 'st -> R', 'self.unset_step_input_context(context)'),
        ('prim_while_loop', 'wcfg -> st -> R',
         'self.while_decorator.while_loop(context, self.run_foreach_or_conditional)'),
        ('prim_run_foreach_or_conditional', 'st -> R', 'self.run_foreach_or_conditional(context)'),
    ],
    'attrs': {'run_me': ('(s_run sp)', 'val'), 'skip_me': ('(s_skip sp)', 'val'),
              'while_decorator': ('(s_while sp)', 'option wcfg'),
              'description': ('(s_desc sp)', 'option val')},
    'always_truthy': ('wcfg',),
    'fields': {}, 'ctors': {},
    'obj_methods': {('wcfg', 'while_loop'): ('prim_while_loop',
                                             [('step_method', '@callback:run_foreach_or_conditional')])},
    'methods': {
        'set_step_input_context': {'kind': 'prim', 'coq': 'prim_set_step_input_context', 'params': []},
        'unset_step_input_context': {'kind': 'prim', 'coq': 'prim_unset_step_input_context', 'params': []},
        'run_foreach_or_conditional': {'kind': 'prim', 'coq': 'prim_run_foreach_or_conditional', 'params': []},
        'run_step': {'kind': 'eff', 'coq': 'gen_step_run_step', 'params': []},
    },
    'order': ['run_step'],
}
POLL = {
    'file': 'pypyr/utils/poll.py', 'cls': None, 'section': 'GenPoll',
    'variables': [
        ('prim_f', 'Z -> st -> iter_result * st', 'f(i, *args, **kwargs): the polled function'),
        ('interval_callable', 'bool', 'callable(interval)'),
        ('prim_interval_fn', 'Z -> option Q', 'interval(i) (None = a duration outside the model)'),
        ('prim_interval_const', 'option Q', 'interval, when it is a plain number'),
        ('max_attempts', 'option Z', 'max_attempts'),
    ],
    'attrs': {},
    'free_vars': {'interval': ('prim_interval_const', 'option Q'), 'max_attempts': ('max_attempts', 'option Z')},
    'free_functions': {'interval': ('prim_interval_fn', ['Z'], 'option Q')},
    'ctx_exprs': {'callable(interval)': ('interval_callable', 'bool')},
    'value_callbacks': {'f': ('prim_f', ['Z'], 'bool')},
    'fields': {}, 'ctors': {}, 'obj_methods': {},
    'methods': {'sleep_looper': {'kind': 'effv', 'coq': 'gen_sleep_looper', 'params': [], 'ret': 'bool',
                                 'path': 'while_until_true.decorator.sleep_looper', 'varargs': True,
                                 'fuel': True}},
    'order': ['sleep_looper'],
}
STEP_IN = {
    'file': 'pypyr/dsl.py', 'cls': 'Step', 'section': 'GenStepIn',
    'variables': [('sp', 'step', 'self')],
    'attrs': {'in_parameters': ('(s_in sp)', 'option dict')},
    'fields': {}, 'ctors': {}, 'obj_methods': {},
    'methods': {
        'set_step_input_context': {'kind': 'eff', 'coq': 'gen_set_step_input_context', 'params': []},
        'unset_step_input_context': {'kind': 'eff', 'coq': 'gen_unset_step_input_context', 'params': []},
    },
    'order': ['set_step_input_context', 'unset_step_input_context'],
}
STEP_COUNTERS = {
    'file': 'pypyr/dsl.py', 'cls': 'Step', 'section': 'GenStepCounters',
    'variables': [
        ('sp', 'step', 'self'),
        ('k', 'counters', 'the loop state held on self and its decorators while the body runs: '
                          'self.for_counter, self.while_decorator.while_counter, self.retry_decorator.retry_counter'),
        ('prim_same_object', 'val -> val -> bool', 'a is b'),
    ],
    'attrs': {'while_decorator': ('(s_while sp)', 'option wcfg'), 'retry_decorator': ('(s_retry sp)', 'option rcfg'),
              'foreach_items': ('(s_foreach sp)', 'option val'), 'for_counter': ('(live_for k)', 'val')},
    'always_truthy': ('wcfg', 'rcfg'),
    'same_object': 'prim_same_object',
    'asserts': True,
    'fields': {('wcfg', 'while_counter'): ('(fun _ : wcfg => live_while k)', 'Z'),
               ('rcfg', 'retry_counter'): ('(fun _ : rcfg => live_retry k)', 'Z'),
               ('exn', 'original_config[0]'): ('exn_cfg_key', 'string'),
               ('exn', 'original_config[1]'): ('exn_cfg_val', 'val')},
    'ctors': {}, 'obj_methods': {},
    'methods': {'reset_context_counters': {'kind': 'eff', 'coq': 'gen_reset_context_counters',
                                           'params': [('call', 'exn')]}},
    'order': ['reset_context_counters'],
}
RETRY_LOOP = {
    'file': 'pypyr/dsl.py', 'cls': 'RetryDecorator', 'section': 'GenRetryLoop',
    'variables': [
        ('rc', 'rcfg', 'self: the retry decorator as written in the pipeline'),
        ('prim_get_backoff', 'st -> val -> val -> option Q -> val -> val -> option interval',
         'backoff_cache.get_backoff(name)(sleep=, max_sleep=, jrc=, kwargs=): the back-off callable '
         '(reads random.random(), held in the state); None = a construction outside the model'),
        ('prim_poll_exec_iteration', 'interval -> option Z -> option Z -> st -> iter_result * st',
         'poll.while_until_true(interval, max_attempts)(self.exec_iteration)(context, step_method, max)'),
    ],
    'attrs': {'sleep': ('(r_sleep rc)', 'val'), 'backoff': ('(r_backoff rc)', 'option val'),
              'sleep_max': ('(r_sleepmax rc)', 'option val'), 'jrc': ('(r_jrc rc)', 'val'),
              'backoff_args': ('(r_args rc)', 'option val'), 'max': ('(r_max rc)', 'option val')},
    'config_exprs': True,
    'asserts': True,
    'fields_rw': ('retry_counter',),
    'local_types': {'max_sleep': 'option Q', 'max': 'option Z'},
    'factories': {'backoff_cache.get_backoff': ('prim_get_backoff', ['val'],
                                                [('sleep', 'val'), ('max_sleep', 'option Q'), ('jrc', 'val'),
                                                 ('kwargs', 'val')], 'interval')},
    'polled': ('prim_poll_exec_iteration', 'self.exec_iteration', [('max', 'option Z')], 'interval'),
    'callbacks': {'step_method': ('prim_unused', [])},
    'fields': {}, 'ctors': {}, 'obj_methods': {},
    'methods': {'retry_loop': {'kind': 'eff', 'coq': 'gen_retry_loop', 'params': []}},
    'order': ['retry_loop'],
}
WHILE_LOOP = {
    'file': 'pypyr/dsl.py', 'cls': 'WhileDecorator', 'section': 'GenWhileLoop',
    'variables': [
        ('w', 'wcfg', 'self: the while decorator as written in the pipeline'),
        ('prim_poll_exec_iteration', 'Q -> option Z -> st -> iter_result * st',
         'poll.while_until_true(interval, max_attempts)(self.exec_iteration)(context, step_method)'),
    ],
    'attrs': {'stop': ('(w_stop w)', 'option val'), 'max': ('(w_max w)', 'option val'),
              'sleep': ('(w_sleep w)', 'val'), 'error_on_max': ('(w_eom w)', 'val')},
    'fields_rw': ('while_counter',),
    'local_types': {'max': 'option Z'},
    'callbacks': {'step_method': ('prim_unused', [])},
    'polled': ('prim_poll_exec_iteration', 'self.exec_iteration', [], 'Q'),
    'fields': {}, 'ctors': {}, 'obj_methods': {},
    'methods': {'while_loop': {'kind': 'eff', 'coq': 'gen_while_loop', 'params': []}},
    'order': ['while_loop'],
}
STEP_SAVE = {
    'file': 'pypyr/dsl.py', 'cls': 'Step', 'section': 'GenStepSaveError',
    'variables': [('sp', 'step', 'self')],
    'attrs': {'on_error': ('(s_onerror sp)', 'option val'), 'line_no': ('(option_map fst (s_pos sp))', 'option Z'),
              'line_col': ('(option_map snd (s_pos sp))', 'option Z'), 'name': ('(s_name sp)', 'string')},
    'functions': {'get_error_name': ('exn_error_name', 'exn', 'string')},
    'fields': {}, 'ctors': {}, 'obj_methods': {},
    'methods': {'save_error': {'kind': 'eff', 'coq': 'gen_save_error',
                               'params': [('exception', 'exn'), ('swallowed', 'bool')]}},
    'order': ['save_error'],
}
UNITS = [STEPSRUNNER, STEP, RETRY, WHILE, PIPELINE, PYPE, STEP_FOREACH, STEP_RUN, POLL, STEP_IN, STEP_COUNTERS, RETRY_LOOP, WHILE_LOOP, STEP_SAVE]


def pure_call_hook(unit):
    """`steps = self.get_pipeline_steps(step_group=...)`: a pure method of the same class used in an
    expression.  Installed as an extra expression form."""
    base_expr = unit.expr

    def expr(e, env, want=None):
        if isinstance(e, ast.Call) and isinstance(e.func, ast.Attribute) and isinstance(e.func.value, ast.Name) \
                and e.func.value.id == 'self' and e.func.attr in unit.spec['methods'] \
                and unit.spec['methods'][e.func.attr]['kind'] == 'pure' and e.func.attr in unit.defined:
            sig = unit.spec['methods'][e.func.attr]
            args = unit.bind_args(e, sig['params'], sig.get('defaults', {}), env)
            return unit.coerce(f"({sig['coq']} {' '.join(args)})", sig['ret'], want)
        return base_expr(e, env, want)
    unit.expr = expr


def main():
    lines = ['(** Gen/Control.v — GENERATED by tools/py2coq_ctl.py from the current source under the repository;',
             '    do not edit.  See the translator for the (fail-closed) subset and what it drops. *)',
             'From Coq Require Import ZArith List Bool String.',
             'From PV Require Import PyStr PyVal.',
             'From PV.Model Require Import Engine Ctl.',
             'Import ListNotations.',
             'Local Open Scope string_scope.',
             'Local Open Scope list_scope.',
             '']
    try:
        rows = class_table(ast.parse((REPO / 'pypyr/errors.py').read_text()))
        KNOWN_CLASSES.update(c for c, _ in rows)
        tbl = ';\n   '.join('(' + coq_str(c) + ', [' + '; '.join(coq_str(b) for b in bs) + '])' for c, bs in rows)
        lines += ['(* source: pypyr/errors.py — class statements, in order *)',
                  f'Definition errors_classes : classtable :=\n  [{tbl}].', '']
    except (Untranslatable, OSError, SyntaxError) as ex:
        lines += [f'(* UNTRANSLATABLE pypyr/errors.py: {ex} *)', 'Definition errors_classes_UNTRANSLATED := tt.', '']
    bad = 0
    for spec in UNITS:
        if spec.get('config_exprs'):
            try:
                spec['ctx_exprs'] = {**spec.get('ctx_exprs', {}), **config_constants()}
            except (Untranslatable, OSError, SyntaxError):
                pass
        unit = Unit(spec)
        pure_call_hook(unit)
        lines.append(f"Section {spec['section']}.")
        for v, ty, doc in spec['variables']:
            lines.append(f'  (* {doc} *)')
            lines.append(f'  Variable {v} : {ty}.')
        lines.append('')
        try:
            tree = ast.parse((REPO / spec['file']).read_text())
        except (OSError, SyntaxError) as ex:
            tree = ast.parse('')
            lines.append(f'(* cannot read {spec["file"]}: {ex} *)')
        for name in spec['order']:
            text = unit.method(tree, name)
            bad += 'UNTRANSLATED' in text
            lines.append(f"(* source: {spec['file']} :: {(spec['cls'] + '.') if spec['cls'] else ''}{name} *)")
            lines.append(text)
            lines.append('')
        lines.append(f"End {spec['section']}.")
        lines.append('')
    text = '\n'.join(lines)
    if not OUT.exists() or OUT.read_text() != text:
        OUT.write_text(text)
    print(f'{OUT}: {bad} untranslatable')
    return 0


if __name__ == '__main__':
    sys.exit(main())
