"""Prepare a round of seeded-change sub-agents: /tmp/seed<r>/Cxx/{property.txt,PROMPT.txt,repo worktree}.
Each agent sees only the property text and its own worktree; the summaries of earlier rounds are
passed only as "use a different mechanism from" hints.   usage: tools/mkseedprompts.py <round> [ids...]"""
import json
import os
import subprocess
import sys

r = sys.argv[1]
only = set(sys.argv[2:])
root = f'/tmp/seed{r}'
base = '''You are helping to test a verification harness by producing ONE realistic, subtle bug ("seeded change") in the Python project pypyr. You work ONLY inside your own scratch git worktree of the project at __ROOT__/__ID__/repo (a full checkout; edit files there freely). Do not look at or touch /verif, /repo, or any other directory under __ROOT__.

The property your change must BREAK is described in __ROOT__/__ID__/property.txt — read it first, then read the code it names inside your worktree.

Requirements for the change:
1. It is a small source change to the pypyr package (under __ROOT__/__ID__/repo/pypyr/), the kind of slip a maintainer could plausibly make (an off-by-one, a reordered handler, a wrong default, a missed case, a stale variable, a "harmless" refactor or optimisation, two sites that each look fine alone...). Not a deliberate sabotage marker, no new dependencies, no changes to tests.
2. The project still imports and the EXISTING test-suite still passes with it: run `cd __ROOT__/__ID__/repo && /venv/bin/python -m pytest -q -p no:cacheprovider` — on the unchanged tree this gives "1 failed, 1607 passed" (the one failure, tests/unit/pypyr/steps/debug_test.py::test_complex_object, is pre-existing and unrelated); with your change it must give exactly the same result.
3. It genuinely breaks the property as stated (a user relying on the statement would observe wrong behaviour), and it needs something SPECIFIC to manifest — a particular interleaving, a fault at a particular point, a multi-step sequence of operations, an unusual input, a particular nesting/decorator combination — not something any ordinary use would expose at once.
4. It must be a DIFFERENT mechanism, in a different function or code path, from these changes that are already known:
__KNOWN__
Prefer a clause of the property statement, or a file among those it names, that none of those touch.
5. Provide a demonstration: a small self-contained Python script __ROOT__/__ID__/out/demo.py that takes the path of a pypyr checkout as its only argument (it must put that path first on sys.path, or pass it as PYTHONPATH to subprocesses), exercises the behaviour through pypyr's public surface (pipelines via pypyr.pipelinerunner.run with yaml files it writes to a temp dir, the steps' run_step, Context methods, the cli, etc.), prints what it observed, and exits 0 when the property holds and 1 when it is violated. It must exit 1 on your changed worktree and 0 on the unchanged code (check the unchanged side WITHOUT git stash — the stash is shared between worktrees: `cd __ROOT__/__ID__/repo && git diff > /tmp/__ID__.r__R__.patch && git apply -R /tmp/__ID__.r__R__.patch`, run the demo, `git apply /tmp/__ID__.r__R__.patch`).

Deliverables (write them, then stop):
- __ROOT__/__ID__/out/patch.diff  = output of `git -C __ROOT__/__ID__/repo diff`
- __ROOT__/__ID__/out/demo.py
- __ROOT__/__ID__/out/meta.json = {"property": "__ID__", "summary": "<one sentence: what was changed>", "needs": "<what specific circumstance is needed for it to manifest>", "files": [...], "tests": "<the exact last line of the pytest run with the change>", "demo_changed_exit": 1, "demo_unchanged_exit": 0}
Leave your worktree WITH the change applied. Your final message: 5 lines max summarising the change.
'''
for line in open('/verif/properties.jsonl'):
    d = json.loads(line)
    pid = d['id']
    if only and pid not in only:
        continue
    os.makedirs(f'{root}/{pid}/out', exist_ok=True)
    txt = f"""PROPERTY {d['id']}: {d['title']}

Statement: {d['statement']}

Quantified over: {d['quantifier']['text']}

Why the existing tests cannot settle it: {d['why_tests_cant']}

Where it lives (files): {', '.join(d['anchors']['files'])}
Mechanisms: {'; '.join(m['name'] + ' (' + m['where'] + ')' for m in d['anchors']['mechanism'])}
"""
    open(f'{root}/{pid}/property.txt', 'w').write(txt)
    known = []
    for sub in sorted(os.listdir('/verif/seeded')):
        if sub == pid or sub.startswith(pid + '-'):
            mp = f'/verif/seeded/{sub}/meta.json'
            if os.path.exists(mp):
                known.append('   - "' + json.load(open(mp)).get('summary', '').replace('"', "'") + '"')
    open(f'{root}/{pid}/PROMPT.txt', 'w').write(
        base.replace('__R__', r).replace('__ROOT__', root).replace('__ID__', pid).replace('__KNOWN__', '\n'.join(known)))
    subprocess.run(f'git -C /repo worktree add -f {root}/{pid}/repo HEAD -q', shell=True)
print('prepared', root)
