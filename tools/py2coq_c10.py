"""Tie B for C10 (placeholder until the property's translator is written): writes an empty
coq/theories/Gen/GenC10.v so that the project builds."""
from pathlib import Path
OUT = Path(__file__).resolve().parent.parent / 'coq' / 'theories' / 'Gen' / 'GenC10.v'
TEXT = '(* Gen/GenC10.v - placeholder *)\n'
if not OUT.exists() or OUT.read_text() != TEXT:
    OUT.write_text(TEXT)
