"""Tie B for C10: regenerate coq/theories/Gen/GenC10.v from the CURRENT source of
  pypyr/context.py     Context.merge (its nested merge_recurse) and Context.set_defaults
                       (its nested defaults_recurse): the loop body — the type dispatch, which
                       value is formatted when, what is assigned / extended / recursed into;
  pypyr/utils/types.py are_all_this_type (checked to be all(isinstance(o, T) for o in objects));
  pypyr/dsl.py         the subclasses of SpecialTagDirective;
  pypyr/steps/contextmerge.py, pypyr/steps/default.py   run_step.

What is generated is the SYNTAX TREE of each loop body in the little statement language of
Model/Merge.v ([pstmt] / [pcond] / [pexpr]) with the local names resolved; its meaning is
[Merge.run_item]; Proofs/GenC10Proofs.v proves it equal to the hand-written model for all inputs.

Accepted shape (anything else is fail-closed: the definition comes out as <name>_UNTRANSLATED
with the reason in a comment, so Proofs/GenC10Proofs.v stops compiling):

  def outer(self, INC):                      # Context.merge / Context.set_defaults
      [docstring]
      def inner(CUR, INC2):
          [docstring]
          for K, V in INC2.items():
              <statements>
      inner(self, INC)

  statements:  K = <expr>                         SRebindKey
               CUR[K] = <expr>                    SSetItem
               CUR[K].extend(<expr>)              SExtend
               inner(CUR[K], V)                   SRecurse
               if/elif/else                       SIf    (an if-body ending in `continue`
                                                          takes the rest of the block as its else)
               pass, docstrings                   dropped
  expressions: K, V, CUR[K], self.get_formatted_value(e), e + e, e | e
  conditions:  isinstance(e, C | (C1, C2..)), types.are_all_this_type(C, e1, ..), K in CUR,
               K not in CUR, not c, c or c, c and c
  class names must be builtins (str, bytes, bytearray, list, tuple) or be imported by context.py
  as `from collections.abc import Mapping, Set` / `from pypyr.dsl import SpecialTagDirective`.

  steps: run_step(context) = [docstring; logger.*(constants only) dropped]
               context.assert_key_has_value(key='X', caller=__name__)
               context.<method>(context['Y'])
               logger.info(<constant>, len(context['Z']))      -> the len() argument is kept

The file is rewritten only when its text changes.
"""
import ast
import os
from pathlib import Path

REPO = Path(os.environ.get('VERIF_REPO', '/repo'))
OUT = Path(__file__).resolve().parent.parent / 'coq' / 'theories' / 'Gen' / 'GenC10.v'

BUILTIN_CLASSES = {'str', 'bytes', 'bytearray', 'list', 'tuple'}
IMPORTED_CLASSES = {'Mapping': 'collections.abc', 'Set': 'collections.abc',
                    'SpecialTagDirective': 'pypyr.dsl'}


class Untranslatable(Exception):
    pass


def coq_str(s):
    if any(ord(c) < 32 or ord(c) > 126 for c in s):
        raise Untranslatable('non-printable constant')
    return '"' + s.replace('"', '""') + '"'


def coq_list(xs):
    return '[' + '; '.join(xs) + ']'


def is_doc(st):
    return isinstance(st, ast.Expr) and isinstance(st.value, ast.Constant) and isinstance(st.value.value, str)


def strip(stmts):
    return [st for st in stmts if not is_doc(st) and not isinstance(st, ast.Pass)]


def find(body, kind, name):
    for n in body:
        if isinstance(n, kind) and n.name == name:
            return n
    raise Untranslatable(f'{name} not found')


def imports_of(tree):
    """name -> module it is imported from (from-imports only)"""
    out = {}
    for n in tree.body:
        if isinstance(n, ast.ImportFrom):
            for a in n.names:
                out[a.asname or a.name] = n.module
    return out


class Loop:
    """translate the body of `for K, V in INC.items()` of one inner function"""

    def __init__(self, inner_name, cur, k, v, known_classes):
        self.inner, self.cur, self.k, self.v = inner_name, cur, k, v
        self.known = known_classes

    def is_cur_k(self, e):
        return (isinstance(e, ast.Subscript) and isinstance(e.value, ast.Name) and e.value.id == self.cur
                and isinstance(e.slice, ast.Name) and e.slice.id == self.k)

    def cls(self, e):
        if not isinstance(e, ast.Name):
            raise Untranslatable('class expression ' + ast.unparse(e))
        if e.id not in self.known:
            raise Untranslatable(f'class {e.id} is neither a builtin the model knows nor imported as expected')
        return e.id

    def expr(self, e):
        if isinstance(e, ast.Name) and isinstance(e.ctx, ast.Load):
            if e.id == self.k:
                return 'PKey'
            if e.id == self.v:
                return 'PVal'
            raise Untranslatable(f'name {e.id}')
        if self.is_cur_k(e) and isinstance(e.ctx, ast.Load):
            return 'PCurK'
        if isinstance(e, ast.Call) and isinstance(e.func, ast.Attribute) and isinstance(e.func.value, ast.Name) \
                and e.func.value.id == 'self' and e.func.attr == 'get_formatted_value' \
                and len(e.args) == 1 and not e.keywords:
            return f'(PFmt {self.expr(e.args[0])})'
        if isinstance(e, ast.BinOp) and isinstance(e.op, ast.Add):
            return f'(PAdd {self.expr(e.left)} {self.expr(e.right)})'
        if isinstance(e, ast.BinOp) and isinstance(e.op, ast.BitOr):
            return f'(PBitOr {self.expr(e.left)} {self.expr(e.right)})'
        raise Untranslatable('expression ' + ast.unparse(e))

    def cond(self, c):
        if isinstance(c, ast.UnaryOp) and isinstance(c.op, ast.Not):
            return f'(CNot {self.cond(c.operand)})'
        if isinstance(c, ast.BoolOp):
            parts = [self.cond(x) for x in c.values]
            op = 'COr' if isinstance(c.op, ast.Or) else 'CAnd'
            acc = parts[-1]
            for p in reversed(parts[:-1]):
                acc = f'({op} {p} {acc})'
            return acc
        if isinstance(c, ast.Compare) and len(c.ops) == 1 and isinstance(c.left, ast.Name) and c.left.id == self.k \
                and isinstance(c.comparators[0], ast.Name) and c.comparators[0].id == self.cur:
            if isinstance(c.ops[0], ast.In):
                return 'CKeyIn'
            if isinstance(c.ops[0], ast.NotIn):
                return '(CNot CKeyIn)'
        if isinstance(c, ast.Call) and isinstance(c.func, ast.Name) and c.func.id == 'isinstance' \
                and len(c.args) == 2 and not c.keywords:
            t = c.args[1]
            classes = [self.cls(x) for x in t.elts] if isinstance(t, ast.Tuple) else [self.cls(t)]
            return f'(CIsInst {self.expr(c.args[0])} {coq_list([coq_str(x) for x in classes])})'
        if isinstance(c, ast.Call) and isinstance(c.func, ast.Attribute) and isinstance(c.func.value, ast.Name) \
                and c.func.value.id == 'types' and c.func.attr == 'are_all_this_type' \
                and len(c.args) >= 2 and not c.keywords \
                and not any(isinstance(x, ast.Starred) for x in c.args):
            return (f'(CAllType {coq_str(self.cls(c.args[0]))} '
                    f'{coq_list([self.expr(x) for x in c.args[1:]])})')
        raise Untranslatable('condition ' + ast.unparse(c))

    def block(self, stmts):
        stmts = strip(stmts)
        out = []
        for i, st in enumerate(stmts):
            if isinstance(st, ast.If):
                body, orelse = strip(st.body), strip(st.orelse)
                if body and isinstance(body[-1], ast.Continue) and not orelse:
                    # if c: A; continue / REST   ==   if c: A else: REST
                    out.append(f'SIf {self.cond(st.test)} {self.block(body[:-1])} {self.block(stmts[i + 1:])}')
                    return coq_list(out)
                out.append(f'SIf {self.cond(st.test)} {self.block(body)} {self.block(orelse)}')
            elif isinstance(st, ast.Assign) and len(st.targets) == 1:
                t = st.targets[0]
                if isinstance(t, ast.Name) and t.id == self.k:
                    out.append(f'SRebindKey {self.expr(st.value)}')
                elif self.is_cur_k(t):
                    out.append(f'SSetItem {self.expr(st.value)}')
                else:
                    raise Untranslatable('assignment to ' + ast.unparse(t))
            elif isinstance(st, ast.Expr) and isinstance(st.value, ast.Call):
                c = st.value
                if isinstance(c.func, ast.Attribute) and c.func.attr == 'extend' and self.is_cur_k(c.func.value) \
                        and len(c.args) == 1 and not c.keywords:
                    out.append(f'SExtend {self.expr(c.args[0])}')
                elif isinstance(c.func, ast.Name) and c.func.id == self.inner and len(c.args) == 2 \
                        and not c.keywords and self.is_cur_k(c.args[0]) \
                        and isinstance(c.args[1], ast.Name) and c.args[1].id == self.v:
                    out.append('SRecurse')
                else:
                    raise Untranslatable('call ' + ast.unparse(c))
            else:
                raise Untranslatable(f'statement {type(st).__name__}: ' + ast.unparse(st)[:60])
        return coq_list(out)


def loop_body(ctx_tree, method, known):
    cls = find(ctx_tree.body, ast.ClassDef, 'Context')
    outer = find(cls.body, ast.FunctionDef, method)
    params = [a.arg for a in outer.args.args]
    if len(params) != 2 or params[0] != 'self' or outer.args.vararg or outer.args.kwarg or outer.args.kwonlyargs:
        raise Untranslatable(f'{method}: signature')
    body = strip(outer.body)
    if len(body) != 2 or not isinstance(body[0], ast.FunctionDef):
        raise Untranslatable(f'{method}: expected one nested function and one call')
    inner, call = body
    ok_call = (isinstance(call, ast.Expr) and isinstance(call.value, ast.Call)
               and isinstance(call.value.func, ast.Name) and call.value.func.id == inner.name
               and len(call.value.args) == 2 and not call.value.keywords
               and all(isinstance(x, ast.Name) for x in call.value.args)
               and [x.id for x in call.value.args] == ['self', params[1]])
    if not ok_call:
        raise Untranslatable(f'{method}: the entry call is not {inner.name}(self, {params[1]})')
    iparams = [a.arg for a in inner.args.args]
    if len(iparams) != 2 or inner.args.vararg or inner.args.kwarg or inner.args.kwonlyargs or inner.decorator_list:
        raise Untranslatable(f'{inner.name}: signature')
    cur, inc = iparams
    ibody = strip(inner.body)
    if len(ibody) != 1 or not isinstance(ibody[0], ast.For):
        raise Untranslatable(f'{inner.name}: expected a single for loop')
    loop = ibody[0]
    it = loop.iter
    if not (isinstance(it, ast.Call) and isinstance(it.func, ast.Attribute) and it.func.attr == 'items'
            and isinstance(it.func.value, ast.Name) and it.func.value.id == inc and not it.args and not it.keywords):
        raise Untranslatable(f'{inner.name}: loop is not over {inc}.items()')
    tgt = loop.target
    if not (isinstance(tgt, ast.Tuple) and len(tgt.elts) == 2 and all(isinstance(x, ast.Name) for x in tgt.elts)):
        raise Untranslatable(f'{inner.name}: loop target')
    if loop.orelse:
        raise Untranslatable(f'{inner.name}: for-else')
    k, v = tgt.elts[0].id, tgt.elts[1].id
    if len({cur, inc, k, v, 'self'}) != 5:
        raise Untranslatable(f'{inner.name}: name clash')
    return Loop(inner.name, cur, k, v, known).block(loop.body)


def check_are_all_this_type(repo):
    tree = ast.parse((repo / 'pypyr' / 'utils' / 'types.py').read_text())
    fn = find(tree.body, ast.FunctionDef, 'are_all_this_type')
    a = fn.args
    if len(a.args) != 1 or a.vararg is None or a.kwarg or a.kwonlyargs or a.defaults:
        raise Untranslatable('are_all_this_type: signature')
    t, objs = a.args[0].arg, a.vararg.arg
    body = strip(fn.body)
    ok = False
    if len(body) == 1 and isinstance(body[0], ast.Return):
        r = body[0].value
        if isinstance(r, ast.Call) and isinstance(r.func, ast.Name) and r.func.id == 'all' and len(r.args) == 1 \
                and isinstance(r.args[0], ast.GeneratorExp) and len(r.args[0].generators) == 1:
            g = r.args[0].generators[0]
            e = r.args[0].elt
            ok = (isinstance(g.target, ast.Name) and isinstance(g.iter, ast.Name) and g.iter.id == objs
                  and not g.ifs and not g.is_async
                  and isinstance(e, ast.Call) and isinstance(e.func, ast.Name) and e.func.id == 'isinstance'
                  and len(e.args) == 2 and isinstance(e.args[0], ast.Name) and e.args[0].id == g.target.id
                  and isinstance(e.args[1], ast.Name) and e.args[1].id == t)
    if not ok:
        raise Untranslatable('are_all_this_type is not `return all(isinstance(o, T) for o in objects)`')


def special_tag_subclasses(repo):
    tree = ast.parse((repo / 'pypyr' / 'dsl.py').read_text())
    subs = []
    for n in tree.body:
        if isinstance(n, ast.ClassDef) and any(isinstance(b, ast.Name) and b.id == 'SpecialTagDirective'
                                               for b in n.bases):
            subs.append(n.name)
    return sorted(subs)


def step_src(repo, modname):
    tree = ast.parse((repo / 'pypyr' / 'steps' / f'{modname}.py').read_text())
    fn = find(tree.body, ast.FunctionDef, 'run_step')
    if [a.arg for a in fn.args.args] != ['context']:
        raise Untranslatable(f'{modname}.run_step: signature')

    def ctx_item(e):
        if isinstance(e, ast.Subscript) and isinstance(e.value, ast.Name) and e.value.id == 'context' \
                and isinstance(e.slice, ast.Constant) and isinstance(e.slice.value, str):
            return e.slice.value
        raise Untranslatable(f'{modname}: expected context[<literal>], got ' + ast.unparse(e))

    assert_key = method = arg_key = None
    len_key = None
    phase = 0
    for st in strip(fn.body):
        if not (isinstance(st, ast.Expr) and isinstance(st.value, ast.Call)
                and isinstance(st.value.func, ast.Attribute) and isinstance(st.value.func.value, ast.Name)):
            raise Untranslatable(f'{modname}: statement ' + ast.unparse(st)[:60])
        c = st.value
        obj, attr = c.func.value.id, c.func.attr
        if obj == 'logger':
            if c.keywords:
                raise Untranslatable(f'{modname}: logger keywords')
            for a in c.args:
                if isinstance(a, ast.Constant):
                    continue
                if isinstance(a, ast.Call) and isinstance(a.func, ast.Name) and a.func.id == 'len' \
                        and len(a.args) == 1 and not a.keywords and phase == 2 and len_key is None:
                    len_key = ctx_item(a.args[0])      # evaluated (and may raise) after the merge
                    continue
                raise Untranslatable(f'{modname}: logger argument ' + ast.unparse(a))
        elif obj == 'context' and attr == 'assert_key_has_value' and phase == 0:
            kw = {k.arg: k.value for k in c.keywords}
            if c.args or set(kw) != {'key', 'caller'} or not isinstance(kw['key'], ast.Constant) \
                    or not isinstance(kw['key'].value, str) \
                    or not (isinstance(kw['caller'], ast.Name) and kw['caller'].id == '__name__'):
                raise Untranslatable(f'{modname}: assert_key_has_value arguments')
            assert_key = kw['key'].value
            phase = 1
        elif obj == 'context' and phase == 1 and len(c.args) == 1 and not c.keywords:
            method, arg_key = attr, ctx_item(c.args[0])
            phase = 2
        else:
            raise Untranslatable(f'{modname}: call ' + ast.unparse(c)[:60])
    if phase != 2:
        raise Untranslatable(f'{modname}: incomplete')
    lk = 'None' if len_key is None else f'(Some {coq_str(len_key)})'
    return (f'{{| ss_assert_key := {coq_str(assert_key)}; ss_method := {coq_str(method)}; '
            f'ss_arg_key := {coq_str(arg_key)}; ss_len_key := {lk} |}}')


def definition(name, ty, thunk):
    try:
        return f'Definition {name} : {ty} :=\n  {thunk()}.\n'
    except Untranslatable as e:
        return f'(* NOT TRANSLATED: {str(e).replace("*)", "* )")} *)\nDefinition {name}_UNTRANSLATED := tt.\n'
    except (OSError, SyntaxError) as e:
        return f'(* NOT TRANSLATED: {type(e).__name__} *)\nDefinition {name}_UNTRANSLATED := tt.\n'


def generate(repo):
    parts = ['(** Gen/GenC10.v - GENERATED by tools/py2coq_c10.py from pypyr/context.py, pypyr/utils/types.py,\n'
             '    pypyr/dsl.py, pypyr/steps/contextmerge.py, pypyr/steps/default.py.  Do not edit. *)\n'
             'From PV Require Import Merge.\n'
             'Open Scope string_scope.\n']
    known = set()
    ctx_tree = None
    try:
        ctx_tree = ast.parse((repo / 'pypyr' / 'context.py').read_text())
        imps = imports_of(ctx_tree)
        known = set(BUILTIN_CLASSES)
        for name, mod in IMPORTED_CLASSES.items():
            if imps.get(name) == mod:
                known.add(name)
        shadow = {n.name for n in ctx_tree.body if isinstance(n, (ast.ClassDef, ast.FunctionDef))}
        shadow |= {t.id for n in ctx_tree.body if isinstance(n, ast.Assign) for t in n.targets
                   if isinstance(t, ast.Name)}
        known -= shadow
        if imps.get('types') != 'pypyr.utils':
            known = set()
    except (OSError, SyntaxError):
        pass

    def body(method):
        def go():
            if ctx_tree is None:
                raise Untranslatable('pypyr/context.py does not parse')
            check_are_all_this_type(repo)
            return loop_body(ctx_tree, method, known)
        return go

    parts.append('(* Context.merge: the body of `for k, v in add_me.items()` in merge_recurse *)\n'
                 + definition('gen_merge_body', 'list pstmt', body('merge')))
    parts.append('(* Context.set_defaults: the body of the loop in defaults_recurse *)\n'
                 + definition('gen_defaults_body', 'list pstmt', body('set_defaults')))
    parts.append('(* pypyr/dsl.py: the classes derived from SpecialTagDirective *)\n'
                 + definition('gen_special_tag_classes', 'list string',
                              lambda: coq_list([coq_str(x) for x in special_tag_subclasses(repo)])))
    parts.append('(* pypyr/steps/contextmerge.py run_step *)\n'
                 + definition('gen_contextmerge_step', 'step_src', lambda: step_src(repo, 'contextmerge')))
    parts.append('(* pypyr/steps/default.py run_step *)\n'
                 + definition('gen_default_step', 'step_src', lambda: step_src(repo, 'default')))
    return '\n'.join(parts)


if __name__ == '__main__':
    text = generate(REPO)
    if not OUT.exists() or OUT.read_text() != text:
        OUT.write_text(text)
