#!/bin/sh
# tools/seedcheck.sh <Cxx> [extra check args]: confirm a seeded change and run the property's check on it.
id="$1"; shift
w=/tmp/seed/$id
echo "== $id: demo on changed worktree"; /venv/bin/python $w/out/demo.py $w/repo >/dev/null 2>&1; dc=$?; echo "exit=$dc"
echo "== demo on unchanged /repo"; /venv/bin/python $w/out/demo.py /repo >/dev/null 2>&1; du=$?; echo "exit=$du"
echo "== patch applies to /repo HEAD?"; git -C /repo apply --check $w/out/patch.diff && echo yes
echo "== tests in changed worktree"; tl=$(cd $w/repo && timeout 900 /venv/bin/python -m pytest -q -p no:cacheprovider 2>&1 | tail -1); echo "$tl"
echo "== check on changed worktree"
out=$(cd /verif && VERIF_REPO=$w/repo timeout 1500 ./check $id "$@" 2>&1 | grep -v "^KNOWN-FINDING" | tail -6); echo "$out"
mkdir -p /verif/seeded/$id
cp $w/out/patch.diff $w/out/demo.py /verif/seeded/$id/
/venv/bin/python - "$id" "$dc" "$du" "$tl" "$out" <<'PY'
import json,sys
id,dc,du,tl,out=sys.argv[1:6]
m=json.load(open(f'/tmp/seed/{id}/out/meta.json'))
m.update({'property':id,'demo_changed_exit':int(dc),'demo_unchanged_exit':int(du),'tests_with_change':tl,
 'confirmed_by':'tools/seedcheck.sh: demo.py run on the changed worktree and on unchanged /repo; pytest in the changed worktree; the check run with VERIF_REPO pointing at the changed worktree (equivalent to git apply on /repo, without disturbing concurrent runs)',
 'check_output':out.splitlines(),'detected':'VIOLATION' in out,
 'detected_with_failing_input':'VIOLATION' in out and 'no-failing-input-found' not in out.split('VIOLATION',1)[1].splitlines()[0]})
json.dump(m,open(f'/verif/seeded/{id}/meta.json','w'),indent=1)
print('detected:',m['detected'],'with input:',m['detected_with_failing_input'])
PY
