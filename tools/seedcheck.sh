#!/bin/sh
# tools/seedcheck.sh <Cxx> [extra check args]: confirm a seeded change (seeded/Cxx or /tmp/seed/Cxx/out)
# on a fresh worktree of /repo HEAD and run the property's check on it.
id="$1"; shift
# SEED_SRC / SEED_DEST override where the change comes from / is kept (e.g. round 2: seeded/Cxx-r2)
dest=${SEED_DEST:-/verif/seeded/$id}
src=${SEED_SRC:-$dest}; [ -f $src/patch.diff ] || src=/tmp/seed/$id/out
w=/var/tmp/seedrun/$id
rm -rf $w; mkdir -p /var/tmp/seedrun
git -C /repo worktree prune
git -C /repo worktree add -f $w HEAD -q || exit 2
git -C $w apply $src/patch.diff || { echo "patch does not apply"; git -C /repo worktree remove --force $w; exit 2; }
echo "== $id: demo on changed worktree"; /venv/bin/python $src/demo.py $w >/dev/null 2>&1; dc=$?; echo "exit=$dc"
echo "== demo on unchanged /repo"; /venv/bin/python $src/demo.py /repo >/dev/null 2>&1; du=$?; echo "exit=$du"
echo "== tests in changed worktree"; tl=$(cd $w && timeout 900 /venv/bin/python -m pytest -q -p no:cacheprovider 2>&1 | tail -1); echo "$tl"
echo "== check on changed worktree"
out=$(cd /verif && VERIF_REPO=$w timeout 1500 ./check $id "$@" 2>&1 | grep -v "^KNOWN-FINDING" | tail -6); echo "$out"
mkdir -p $dest
[ "$src" = "$dest" ] || cp $src/patch.diff $src/demo.py $dest/
/venv/bin/python - "$id" "$dc" "$du" "$tl" "$out" "$src" "$dest" <<'PY'
import json,sys,os
id,dc,du,tl,out,src,dest=sys.argv[1:8]
mp=f'{src}/meta.json'
m=json.load(open(mp)) if os.path.exists(mp) else {}
m.update({'property':id,'demo_changed_exit':int(dc),'demo_unchanged_exit':int(du),'tests_with_change':tl,
 'confirmed_by':'tools/seedcheck.sh: patch applied to a fresh worktree of /repo HEAD; demo.py run there (must exit 1) and on unchanged /repo (must exit 0); pytest in the changed worktree; the check run with VERIF_REPO pointing at the changed worktree (same effect as git apply on /repo, without disturbing concurrent runs); worktree removed afterwards',
 'check_output':out.splitlines(),'detected':'VIOLATION' in out,
 'detected_with_failing_input':'VIOLATION' in out and 'no-failing-input-found' not in out.split('VIOLATION',1)[1].splitlines()[0]})
json.dump(m,open(f'{dest}/meta.json','w'),indent=1)
print('detected:',m['detected'],'with input:',m['detected_with_failing_input'])
PY
git -C /repo worktree remove --force $w
