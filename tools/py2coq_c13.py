"""Tie B for C13 (placeholder until the property's translator is written): writes an empty
coq/theories/Gen/GenC13.v so that the project builds."""
from pathlib import Path
OUT = Path(__file__).resolve().parent.parent / 'coq' / 'theories' / 'Gen' / 'GenC13.v'
TEXT = '(* Gen/GenC13.v - placeholder *)\n'
if not OUT.exists() or OUT.read_text() != TEXT:
    OUT.write_text(TEXT)
