"""Tie B for C13: regenerate coq/theories/Gen/GenC13.v from the CURRENT source of

  pypyr/cache/cache.py        Cache.get, Cache.clear   -> control-flow tables gen_get_code /
                                                          gen_clear_code over the `instr` set
                                                          of Model/Cache.v (machine `nstep`)
  pypyr/cache/loadercache.py  Loader.get_pipeline      -> gen_pipeline_key (the key expression)

Proofs/GenC13Proofs.v proves that `nstep` on the generated tables is the hand-written `step`
(for all states and schedules) and gen_pipeline_key = pipeline_key.

How a function body becomes a table.  Every statement at which the thread touches shared
state (config.no_cache, the lock, the dict, the creator) becomes one node; successors are
explicit.  `with self._lock: B` = IAcquire; B; IRelease, plus a second IRelease on B's
exceptional exit that leads to IRaise (what `with` does); a `return` inside the block goes
through an IRelease first.  Nodes are hash-consed (same instruction + same successors = same
node) and numbered in depth-first order from the entry, so the table depends on the control
flow, not on the layout of the text: renaming the local, `if k in c: A else: B` vs
`if k not in c: B else: A`, fall-through vs early `return` inside the `with` all give the
same table.

Accepted subset (anything else => the definition is emitted under the name
<name>_UNTRANSLATED, so every lemma about <name> stops compiling):
  if config.no_cache: / if not config.no_cache:         IIfNoCache
  with self._lock:                                      IAcquire .. IRelease
  if key in self._cache: / if key not in self._cache:   IIfContains
  x = self._cache[key]                                  ILoad
  x = creator()                                         ICallEnter; ICallExit
  self._cache[key] = x                                  IStore
  self._cache.clear()                                   IClearAll
  return x / return creator() / return self._cache[key] IReturnObj (after the above)
  end of body                                           IReturnNone
  (`key`, `creator` = the function's 2nd and 3rd parameter; x = one local name)
Dropped: docstrings, `logger.<level>(...)` calls (assumed effect-free), `pass`.
Assumed: the names mean what they say (self._lock is the lock made in __init__, self._cache
the dict, config the pypyr config object); evaluating `config.no_cache`, `key in d`, `d[key]`,
`d[key] = x`, `d.clear()` is one atomic step each; a creator call is two (enter, exit).
Key expression subset: `v = (A, B)` / direct argument, A, B ::= name | None |
f'{name}' | X if name else Y, with `parent` an optional string (its str(), None when the
argument is None) whose truthiness is non-emptiness.
The file is rewritten only when its text changes.
"""
import ast
import os
from pathlib import Path

REPO = Path(os.environ.get('VERIF_REPO', '/repo'))
OUT = Path(__file__).resolve().parent.parent / 'coq' / 'theories' / 'Gen' / 'GenC13.v'


class Untranslatable(Exception):
    pass


def find(tree, qual):
    body, node = tree.body, None
    for p in qual.split('.'):
        node = next((n for n in body if isinstance(n, (ast.FunctionDef, ast.ClassDef)) and n.name == p), None)
        if node is None:
            raise Untranslatable(f'{qual} not found')
        body = node.body
    return node


def strip(body):
    out = []
    for st in body:
        if isinstance(st, ast.Expr) and isinstance(st.value, ast.Constant) and isinstance(st.value.value, str):
            continue
        if isinstance(st, ast.Expr) and isinstance(st.value, ast.Call) and isinstance(st.value.func, ast.Attribute) \
                and isinstance(st.value.func.value, ast.Name) and st.value.func.value.id == 'logger':
            continue
        if isinstance(st, ast.Pass):
            continue
        out.append(st)
    return out


def is_self_attr(e, attr):
    return isinstance(e, ast.Attribute) and e.attr == attr and isinstance(e.value, ast.Name) and e.value.id == 'self'


class Cfg:
    """hash-consed nodes: (kind, succ ids...)"""

    def __init__(self):
        self.ids = {}
        self.nodes = []

    def mk(self, kind, *succ):
        k = (kind,) + succ
        if k not in self.ids:
            self.ids[k] = len(self.nodes)
            self.nodes.append(k)
        return self.ids[k]

    def table(self, entry):
        order, seen = [], {}

        def visit(n):
            if n in seen:
                return
            seen[n] = len(order)
            order.append(n)
            for s in self.nodes[n][1:]:
                visit(s)
        visit(entry)
        rows = []
        for n in order:
            kind, *succ = self.nodes[n]
            rows.append(kind + ''.join(f' {seen[s]}' for s in succ))
        return rows


class FnCompiler:
    def __init__(self, fn):
        self.fn = fn
        args = [a.arg for a in fn.args.args]
        if fn.args.vararg or fn.args.kwarg or fn.args.kwonlyargs or fn.args.defaults:
            raise Untranslatable('unexpected signature')
        if args[:1] != ['self'] or len(args) not in (1, 3):
            raise Untranslatable(f'unexpected parameters {args}')
        self.key = args[1] if len(args) == 3 else None
        self.creator = args[2] if len(args) == 3 else None
        self.local = None
        self.g = Cfg()
        self.raise_node = self.g.mk('IRaise')

    # -- expression recognisers
    def is_cache(self, e):
        return is_self_attr(e, '_cache')

    def is_key(self, e):
        return self.key is not None and isinstance(e, ast.Name) and e.id == self.key

    def is_local(self, e, bind=False):
        if not isinstance(e, ast.Name) or e.id in ('self', self.key, self.creator):
            return False
        if self.local is None and bind:
            self.local = e.id
        return e.id == self.local

    def is_creator_call(self, e):
        return (self.creator is not None and isinstance(e, ast.Call) and isinstance(e.func, ast.Name)
                and e.func.id == self.creator and not e.args and not e.keywords)

    def is_cache_get(self, e):
        return (isinstance(e, ast.Subscript) and self.is_cache(e.value) and self.is_key(e.slice)
                and isinstance(e.ctx, ast.Load))

    def nocache_test(self, e):
        """-> True (plain) / False (negated) / None"""
        def plain(x):
            return (isinstance(x, ast.Attribute) and x.attr == 'no_cache' and isinstance(x.value, ast.Name)
                    and x.value.id == 'config')
        if plain(e):
            return True
        if isinstance(e, ast.UnaryOp) and isinstance(e.op, ast.Not) and plain(e.operand):
            return False
        return None

    def contains_test(self, e):
        if isinstance(e, ast.UnaryOp) and isinstance(e.op, ast.Not):
            r = self.contains_test(e.operand)
            return None if r is None else not r
        if isinstance(e, ast.Compare) and len(e.ops) == 1 and self.is_key(e.left) \
                and self.is_cache(e.comparators[0]):
            if isinstance(e.ops[0], ast.In):
                return True
            if isinstance(e.ops[0], ast.NotIn):
                return False
        return None

    # -- statements, compiled backwards: block(stmts, k, exc, unwind) -> entry node
    # k: node to continue at; exc: node an exception goes to; unwind: number of enclosing
    # `with self._lock` blocks a `return` has to release
    def ret(self, unwind):
        n = self.g.mk('IReturnObj')
        for _ in range(unwind):
            n = self.g.mk('IRelease', n)
        return n

    def block(self, stmts, k, exc, unwind):
        stmts = strip(stmts)
        if not stmts:
            return k
        st, rest = stmts[0], stmts[1:]
        if isinstance(st, ast.Return):
            if rest:
                raise Untranslatable('code after return')
            v = st.value
            if v is not None and self.is_creator_call(v):
                return self.g.mk('ICallEnter', self.g.mk('ICallExit', self.ret(unwind), exc))
            if v is not None and self.is_cache_get(v):
                return self.g.mk('ILoad', self.ret(unwind), exc)
            if v is not None and self.is_local(v):
                return self.ret(unwind)
            raise Untranslatable('return of something else: ' + ast.unparse(st))
        kk = self.block(rest, k, exc, unwind)
        if isinstance(st, ast.If):
            a = self.block(st.body, kk, exc, unwind)
            b = self.block(st.orelse, kk, exc, unwind)
            t = self.nocache_test(st.test)
            if t is not None:
                return self.g.mk('IIfNoCache', *((a, b) if t else (b, a)))
            t = self.contains_test(st.test)
            if t is not None:
                return self.g.mk('IIfContains', *((a, b) if t else (b, a)))
            raise Untranslatable('unknown test: ' + ast.unparse(st.test))
        if isinstance(st, ast.With):
            if len(st.items) != 1 or st.items[0].optional_vars is not None \
                    or not is_self_attr(st.items[0].context_expr, '_lock'):
                raise Untranslatable('with on something else: ' + ast.unparse(st.items[0]))
            rel_ok = self.g.mk('IRelease', kk)
            rel_exc = self.g.mk('IRelease', exc)
            return self.g.mk('IAcquire', self.block(st.body, rel_ok, rel_exc, unwind + 1))
        if isinstance(st, ast.Assign) and len(st.targets) == 1:
            tg, v = st.targets[0], st.value
            if isinstance(tg, ast.Subscript) and self.is_cache(tg.value) and self.is_key(tg.slice) \
                    and self.is_local(v):
                return self.g.mk('IStore', kk)
            if self.is_creator_call(v) and self.is_local(tg, bind=True):
                return self.g.mk('ICallEnter', self.g.mk('ICallExit', kk, exc))
            if self.is_cache_get(v) and self.is_local(tg, bind=True):
                return self.g.mk('ILoad', kk, exc)
            raise Untranslatable('assignment: ' + ast.unparse(st))
        if isinstance(st, ast.Expr) and isinstance(st.value, ast.Call):
            c = st.value
            if isinstance(c.func, ast.Attribute) and c.func.attr == 'clear' and self.is_cache(c.func.value) \
                    and not c.args and not c.keywords:
                return self.g.mk('IClearAll', kk)
        raise Untranslatable('statement: ' + ast.unparse(st).splitlines()[0])

    def compile(self):
        # the local must be bound before it is used: find its name first (first assignment target)
        for n in ast.walk(self.fn):
            if isinstance(n, ast.Assign) and len(n.targets) == 1 and isinstance(n.targets[0], ast.Name):
                self.local = n.targets[0].id
                break
        end = self.g.mk('IReturnNone')
        entry = self.block(self.fn.body, end, self.raise_node, 0)
        return self.g.table(entry)


def gen_table(path, qual, name):
    try:
        tree = ast.parse((REPO / path).read_text())
        rows = FnCompiler(find(tree, qual)).compile()
        body = ';\n   '.join(rows)
        return (f'(* source: {path} :: {qual} *)\n'
                f'Definition {name} : list instr :=\n  [{body}].\n')
    except (Untranslatable, OSError, SyntaxError) as e:
        return (f'(* source: {path} :: {qual} -- NOT TRANSLATED: {str(e)[:200].replace("*)", "* )")} *)\n'
                f'Definition {name}_UNTRANSLATED : list instr := [].\n')


# ---------------------------------------------------------------- the pipeline key expression

def key_expr(e, env):
    """-> (coq term, type) with types 'ostr' (option string) | 'str'"""
    if isinstance(e, ast.Name) and e.id in env:
        return env[e.id]
    if isinstance(e, ast.Constant) and e.value is None:
        return ('None', 'ostr')
    if isinstance(e, ast.JoinedStr) and len(e.values) == 1 and isinstance(e.values[0], ast.FormattedValue):
        fv = e.values[0]
        if fv.conversion == -1 and fv.format_spec is None and isinstance(fv.value, ast.Name) \
                and env.get(fv.value.id, (None, None))[1] == 'ostr':
            # str() of the parent; only meaningful where the parent is not None -- the
            # enclosing conditional guarantees it (checked below)
            return (env[fv.value.id][0], 'ostr-guarded:' + fv.value.id)
    if isinstance(e, ast.IfExp) and isinstance(e.test, ast.Name) and env.get(e.test.id, (None, None))[1] == 'ostr':
        a, ta = key_expr(e.body, env)
        b, tb = key_expr(e.orelse, env)
        if ta == 'ostr-guarded:' + e.test.id:
            ta = 'ostr'
        if ta == tb == 'ostr':
            return (f'(if truthy {env[e.test.id][0]} then {a} else {b})', 'ostr')
    raise Untranslatable('key expression: ' + ast.unparse(e))


def gen_key(path, qual, name):
    try:
        fn = find(ast.parse((REPO / path).read_text()), qual)
        args = [a.arg for a in fn.args.args]
        if args != ['self', 'name', 'parent']:
            raise Untranslatable(f'unexpected parameters {args}')
        env = {'parent': ('parent', 'ostr'), 'name': ('name', 'str')}
        body = strip(fn.body)
        keyvar = None
        if len(body) == 2 and isinstance(body[0], ast.Assign) and len(body[0].targets) == 1 \
                and isinstance(body[0].targets[0], ast.Name):
            keyvar, keyval = body[0].targets[0].id, body[0].value
            body = body[1:]
        if len(body) != 1 or not isinstance(body[0], ast.Return) or not isinstance(body[0].value, ast.Call):
            raise Untranslatable('unexpected shape of get_pipeline')
        call = body[0].value
        f = call.func
        if not (isinstance(f, ast.Attribute) and f.attr == 'get' and is_self_attr(f.value, '_pipeline_cache')
                and len(call.args) == 2 and not call.keywords and isinstance(call.args[1], ast.Lambda)):
            raise Untranslatable('the pipeline cache is not consulted as expected')
        lam = call.args[1].body
        if not (isinstance(lam, ast.Call) and is_self_attr(lam.func, '_load_pipeline')
                and [ast.unparse(a) for a in lam.args] == ['name', 'parent'] and not lam.keywords):
            raise Untranslatable('creator is not self._load_pipeline(name, parent)')
        k = call.args[0]
        if keyvar is not None and isinstance(k, ast.Name) and k.id == keyvar:
            k = keyval
        if not (isinstance(k, ast.Tuple) and len(k.elts) == 2):
            raise Untranslatable('key is not a pair: ' + ast.unparse(k))
        a, ta = key_expr(k.elts[0], env)
        b, tb = key_expr(k.elts[1], env)
        if (ta, tb) != ('ostr', 'str'):
            raise Untranslatable(f'key components have types {ta}, {tb}')
        return (f'(* source: {path} :: {qual} — the key handed to self._pipeline_cache.get *)\n'
                f'Definition {name} (parent : option string) (name : string) : key :=\n  ({a}, {b}).\n')
    except (Untranslatable, OSError, SyntaxError) as e:
        return (f'(* source: {path} :: {qual} -- NOT TRANSLATED: {str(e)[:200].replace("*)", "* )")} *)\n'
                f'Definition {name}_UNTRANSLATED : unit := tt.\n')


def main():
    text = ('(** Gen/GenC13.v — GENERATED by tools/py2coq_c13.py from the current source under the\n'
            '    repository; do not edit.  See the translator for the (fail-closed) subset. *)\n'
            'From PV Require Import Cache.\n'
            'Open Scope string_scope.\n\n')
    text += gen_table('pypyr/cache/cache.py', 'Cache.get', 'gen_get_code') + '\n'
    text += gen_table('pypyr/cache/cache.py', 'Cache.clear', 'gen_clear_code') + '\n'
    text += gen_key('pypyr/cache/loadercache.py', 'Loader.get_pipeline', 'gen_pipeline_key')
    if not OUT.exists() or OUT.read_text() != text:
        OUT.write_text(text)


if __name__ == '__main__':
    main()
