"""Regenerate MANIFEST.json from the table below (keeps it valid and consistent)."""
import json
from pathlib import Path

V = Path(__file__).resolve().parent.parent
CHECKS = {
    # id: (design_ref, level text, level_note, technique)
}


def load():
    spec = json.loads((V / 'tools' / 'manifest_src.json').read_text())
    checks = []
    for pid, c in spec['checks'].items():
        checks.append({
            'property_id': pid,
            'quick_cmd': f'./check {pid} --tier quick',
            'thorough_cmd': f'./check {pid} --tier thorough',
            'evidence_file': f'/verif/evidence/{pid}.json',
            'replay_cmd_template': f'./check {pid} --replay {{path}}',
            'engine': 'coq-proof+correspondence',
            'level_claimed': {'category': 'proof', 'text': c['text'], 'design_ref': c['design_ref']},
            'level_note': c['note'],
            'technique': c['technique'],
        })
    na = list(spec.get('not_applicable', []))
    listed = set(spec['checks']) | {x['property_id'] for x in na}
    for line in (V / 'properties.jsonl').read_text().splitlines():
        pid = json.loads(line)['id']
        if pid not in listed:
            na.append({'property_id': pid,
                       'reason': 'not claimed yet: its model/check is still under construction in this '
                                 'round (DESIGN.md section 8 build order); the technique applies'})
    m = {
        'version': 1,
        'setup_cmd': './setup.sh',
        'hooks': {
            'guard': 'PYPYR_VERIF',
            'enable': 'no source hooks: probe steps, loaders and fault injectors live in /verif/harness and are '
                      'loaded by name or by attribute patching from the harness process; PYPYR_VERIF=1 is exported '
                      'by ./check for completeness',
            'baseline_off_cmd': 'cd /repo && /venv/bin/python -m pytest -ra -q -p no:cacheprovider --timeout=900 '
                                '--continue-on-collection-errors',
            'source_commits': spec.get('source_commits', []),
            'add_only': True,
        },
        'engines': [{
            'name': 'coq-proof+correspondence',
            'path': '/verif/coq (models, proofs), /verif/harness (correspondence, monitors), /verif/check',
            'serves_properties': sorted(spec['checks']),
            'kind_free_text': 'Machine-checked theorems (Coq 8.16.1) over hand-written executable Gallina models; '
                              'the models are tied to /repo on every run by evaluating them inside Coq (vm_compute) '
                              'on generated cases and comparing with the observations of the real code; monitors '
                              'written from the property statements search for a concrete failing input when a '
                              'proof or the correspondence breaks.',
        }],
        'checks': checks,
        'notes': spec.get('notes', ''),
        'not_applicable': na,
    }
    (V / 'MANIFEST.json').write_text(json.dumps(m, indent=1) + '\n')


if __name__ == '__main__':
    load()
