"""Tie B for C19: regenerate coq/theories/Gen/GenC19.v from the CURRENT source of

  pypyr/loaders/file.py       cwd_pipelines_dir, pypyr_dir, builtin_pipelines_dir (module level),
                              find_pipeline, get_pipeline_path, get_pipeline_definition,
                              load_pipeline_from_file
  pypyr/pipedef.py            PipelineInfo.__init__, PipelineFileInfo.__init__ (defaults, fields)
  pypyr/steps/pype.py         get_arguments (the slice that computes loader / py_dir / parent),
                              run_step (which PypeArgs fields reach new_pipe_and_args and
                              load_and_run_pipeline)
  pypyr/pipeline.py           Pipeline.load_and_run_pipeline, Pipeline.run (root parent)
  pypyr/cache/loadercache.py  Loader.get_pipeline (cache key), Loader._load_pipeline (wrapping
                              of a bare mapping), LoaderCache.get_pype_loader (default loader)
  pypyr/config.py             Config.__init__: default_loader, pipelines_subdir
  pypyr/moduleloader.py       add_sys_path (_known_dirs test, exists test, the sys.path membership
                              test, append, bookkeeping); `with _sys_path_lock:` is transparent;
                              get_module (exactly one importlib.import_module attempt per call,
                              the handler only builds a message and raises; message text dropped)

Proofs/GenC19Proofs.v proves every generated definition equal to the hand-written model of
Model/Loader.v, so an edit to that source re-checks, or breaks, those lemmas.

Fail-closed: anything outside the subset below raises Untranslatable and the definition comes
out as <name>_UNTRANSLATED (reason in a comment); the lemma naming the expected definition then
no longer compiles.

Subset / conventions
  statements   x = e | x.append(e) | add_sys_path(e) | if/else (continuation duplicated) |
               return e | raise Cls(msg) | `for v in xs: ...; if c: break ... else: raise`
               followed by `return e` (-> Fixpoint over xs) | r = f(...) for a translated
               function returning `res` (-> let*).  Names may be rebound (Coq `let` shadows).
  dropped      docstrings, logger.* calls, `assert`; in load_pipeline_from_file the
               `try: with open(path) as f: yaml = get_pipeline_yaml(f) except FileNotFoundError`
               block is read as "yaml := the payload of the file at path"; `file_cache.get(k,
               lambda: X)` is read as X; in load_and_run_pipeline `if context is None` and the
               final `with context.pipeline_scope(self)` (running the steps) are not translated;
               in get_arguments everything that does not feed loader / py_dir / parent.
  types        str, path (both Coq string), parent (Loader.pyparent), bool, ostr (option
               string), pair, list, info (Loader.pinfo), pdef, opts (Loader.pype_opts)
  primitives   (Section Variables, instantiated by the proofs with the model's functions)
               Path.is_absolute/is_file/exists/resolve/samefile/joinpath/.parent/.name, Path(),
               add_sys_path; config.cwd, config.pipelines_subdir, config.default_loader, the
               repository root
  tables       pype.get('loader'|'resolveFromParent'|'parent'|'pyDir', d) -> the fields of
               Loader.pype_opts; PipelineInfo attribute -> field of Loader.pinfo.
"""
import ast
import os
import sys
from pathlib import Path

REPO = Path(os.environ.get('VERIF_REPO', '/repo'))
OUT = Path(__file__).resolve().parent.parent / 'coq' / 'theories' / 'Gen' / 'GenC19.v'

STR, PATH, PARENT, BOOL, OSTR, NONE = 'str', 'path', 'parent', 'bool', 'ostr', 'none'
INFO, PDEF, OPTS, YAML, ST = 'info', 'pdef', 'opts', 'yaml', 'st'


class Untranslatable(Exception):
    pass


def coq_str(s):
    if '\n' in s:
        parts = s.split('\n')
        return '(' + ' ++ nl ++ '.join(coq_str(p) for p in parts) + ')'
    if any(ord(c) < 32 or ord(c) > 126 for c in s):
        raise Untranslatable('non-printable constant')
    return '"' + s.replace('"', '""') + '"'


def is_logging(st):
    return (isinstance(st, ast.Expr) and isinstance(st.value, ast.Call)
            and isinstance(st.value.func, ast.Attribute) and isinstance(st.value.func.value, ast.Name)
            and st.value.func.value.id == 'logger')


def is_doc(st):
    return isinstance(st, ast.Expr) and isinstance(st.value, ast.Constant) and isinstance(st.value.value, str)


def skip(st):
    return is_logging(st) or is_doc(st) or isinstance(st, ast.Assert) or isinstance(st, ast.Pass)


def find(tree, qual):
    body, node = tree.body, None
    for p in qual.split('.'):
        node = next((n for n in body if isinstance(n, (ast.FunctionDef, ast.ClassDef)) and n.name == p), None)
        if node is None:
            raise Untranslatable(f'{qual} not found')
        body = node.body
    return node


def module_assign(tree, name):
    for n in tree.body:
        if isinstance(n, ast.Assign) and len(n.targets) == 1 and isinstance(n.targets[0], ast.Name) \
                and n.targets[0].id == name:
            return n.value
    raise Untranslatable(f'module-level {name} not found')


def imported_names(tree):
    """name -> qualified name for `from m import a`"""
    out = {}
    for n in tree.body:
        if isinstance(n, ast.ImportFrom) and n.module:
            for a in n.names:
                out[a.asname or a.name] = f'{n.module}.{a.name}'
    return out


INFO_FIELDS = {'pipeline_name': ('i_name', STR), 'loader': ('i_loader', STR), 'parent': ('i_parent', PARENT),
               'is_loader_cascading': ('i_lcasc', BOOL), 'is_parent_cascading': ('i_pcasc', BOOL)}

PYPE_KEYS = {'loader': ('optkey_get_ostr', 'o_loader', OSTR), 'parent': ('optkey_get_parent', 'o_parent', PARENT),
             'resolveFromParent': ('opt_get_bool', 'o_resolve', BOOL), 'pyDir': (None, 'o_pydir', OSTR)}

# result-returning translated functions: python name -> (coq name, [arg types], value type, effectful)
RES_FUNS = {'find_pipeline': ('gen_find_pipeline', [STR, ('list', ('pair', PATH, STR))], PATH),
            'get_pipeline_path': ('gen_get_pipeline_path', [STR, PARENT], PATH)}


class Tr:
    """expression / statement translator for one module"""

    def __init__(self, modname, tree):
        self.modname = modname
        self.tree = tree
        self.imports = imported_names(tree)

    # ---------------------------------------------------------------- types
    def coerce(self, t, ty, want):
        if want is None or want == ty:
            return t
        if ty == NONE and want == OSTR:
            return 'None'
        if ty == NONE and want == PARENT:
            return 'PNone'
        if ty == STR and want == OSTR:
            return f'(Some {t})'
        if ty == PATH and want == PARENT:
            return f'(PPath {t})'
        if ty == STR and want == PARENT:
            return f'(PStr {t})'
        if ty == OSTR and want == PARENT:
            return f'(match {t} with Some s => PStr s | None => PNone end)'
        if ty == PATH and want == STR:
            raise Untranslatable('a Path used where a str is expected')
        raise Untranslatable(f'type {ty} where {want} expected')

    def join_types(self, a, b):
        if a == b:
            return a
        s = {a, b}
        if s == {NONE, STR} or s == {NONE, OSTR} or s == {STR, OSTR}:
            return OSTR
        if PARENT in s and s <= {PARENT, NONE, PATH, STR}:
            return PARENT
        if s == {NONE, PATH}:
            return PARENT
        raise Untranslatable(f'branches of types {a} and {b}')

    def truthy(self, t, ty):
        if ty == BOOL:
            return t
        if ty == PARENT:
            return f'(p_truthy {t})'
        if ty == OSTR:
            return f'(ostr_truthy {t})'
        if ty == STR:
            return f'(negb ({t} =? ""))'
        raise Untranslatable(f'truth value of a {ty}')

    def truth(self, e, env):
        if isinstance(e, ast.UnaryOp) and isinstance(e.op, ast.Not):
            return f'(negb {self.truth(e.operand, env)})'
        if isinstance(e, ast.BoolOp):
            ts = [self.truth(v, env) for v in e.values]
            op = 'andb' if isinstance(e.op, ast.And) else 'orb'
            acc = ts[-1]
            for t in reversed(ts[:-1]):
                acc = f'({op} {t} {acc})'
            return acc
        t, ty = self.expr(e, env)
        return self.truthy(t, ty)

    # ---------------------------------------------------------------- expressions
    def expr(self, e, env):
        if isinstance(e, ast.Name):
            if e.id == '__name__':
                return coq_str(self.modname), STR
            if e.id in env:
                return env[e.id]
            raise Untranslatable(f'unknown name {e.id}')
        if isinstance(e, ast.Constant):
            v = e.value
            if v is None:
                return '(@None string)', NONE    # retyped by coerce where it is used
            if isinstance(v, bool):
                return ('true' if v else 'false'), BOOL
            if isinstance(v, str):
                return coq_str(v), STR
            raise Untranslatable(f'constant {v!r}')
        if isinstance(e, ast.JoinedStr):
            parts = []
            for v in e.values:
                if isinstance(v, ast.Constant) and isinstance(v.value, str):
                    parts.append(coq_str(v.value))
                elif isinstance(v, ast.FormattedValue) and v.conversion == -1 and v.format_spec is None:
                    parts.append(self.text_of(*self.expr(v.value, env)))
                else:
                    raise Untranslatable('f-string part')
            return '(' + ' ++ '.join(parts) + ')', STR
        if isinstance(e, ast.Attribute):
            key = ast.unparse(e)
            if key in env:
                return env[key]
            if key == 'config.cwd':
                return 'cfg_cwd', PATH
            if key == 'config.pipelines_subdir':
                return 'cfg_pipelines_subdir', STR
            if key == 'config.default_loader':
                return 'cfg_default_loader', STR
            t, ty = self.expr(e.value, env)
            if ty == PATH and e.attr == 'parent':
                return f'(prim_parent {t})', PATH
            if ty == PATH and e.attr == 'name':
                return f'(prim_name {t})', STR
            if ty == INFO and e.attr in INFO_FIELDS:
                f, fty = INFO_FIELDS[e.attr]
                return f'({f} {t})', fty
            raise Untranslatable(f'attribute {e.attr} of a {ty}')
        if isinstance(e, ast.UnaryOp) and isinstance(e.op, ast.Not):
            return self.truth(e, env), BOOL
        if isinstance(e, ast.BoolOp):
            return self.truth(e, env), BOOL
        if isinstance(e, ast.Compare) and len(e.ops) == 1 and isinstance(e.ops[0], (ast.Eq, ast.NotEq)):
            a, ta = self.expr(e.left, env)
            b, tb = self.expr(e.comparators[0], env)
            if (ta, tb) == (OSTR, STR):
                t = f'(ostr_eq_str {a} {b})'
            elif (ta, tb) == (STR, OSTR):
                t = f'(ostr_eq_str {b} {a})'
            elif ta == tb and ta in (STR, PATH):
                t = f'({a} =? {b})'
            else:
                raise Untranslatable(f'== between {ta} and {tb}')
            return (t if isinstance(e.ops[0], ast.Eq) else f'(negb {t})'), BOOL
        if isinstance(e, ast.Compare) and len(e.ops) == 1 and isinstance(e.ops[0], (ast.In, ast.NotIn)):
            x, tx = self.expr(e.left, env)
            coll = ast.unparse(e.comparators[0])
            if coll == '_known_dirs' and tx == PARENT and '$known' in env:
                t = f'(existsb (pp_eqb {x}) {env["$known"]})'
            elif coll == 'sys.path' and tx in (STR, PATH) and '$sp' in env:
                t = f'(str_in {x} {env["$sp"]})'
            else:
                raise Untranslatable(f'membership test in {coll}')
            return (t if isinstance(e.ops[0], ast.In) else f'(negb {t})'), BOOL
        if isinstance(e, ast.IfExp):
            # `x if isinstance(x, Path) else Path(x)` narrows a parent to its two classes
            tst = e.test
            if isinstance(tst, ast.Call) and isinstance(tst.func, ast.Name) and tst.func.id == 'isinstance' \
                    and len(tst.args) == 2 and isinstance(tst.args[0], ast.Name) \
                    and isinstance(tst.args[1], ast.Name) and tst.args[1].id == 'Path':
                n = tst.args[0].id
                t, ty = self.expr(tst.args[0], env)
                if ty != PARENT:
                    raise Untranslatable('isinstance(_, Path) on a non-parent')
                a, ta = self.expr(e.body, dict(env, **{n: (f'(parent_text {t})', PATH)}))
                b, tb = self.expr(e.orelse, dict(env, **{n: (f'(parent_text {t})', STR)}))
                ty2 = self.join_types(ta, tb)
                return (f'(if is_path_obj {t} then {self.coerce(a, ta, ty2)} '
                        f'else {self.coerce(b, tb, ty2)})'), ty2
            c = self.truth(tst, env)
            a, ta = self.expr(e.body, env)
            b, tb = self.expr(e.orelse, env)
            ty2 = self.join_types(ta, tb)
            return f'(if {c} then {self.coerce(a, ta, ty2)} else {self.coerce(b, tb, ty2)})', ty2
        if isinstance(e, ast.Tuple) and len(e.elts) == 2:
            a, ta = self.expr(e.elts[0], env)
            b, tb = self.expr(e.elts[1], env)
            return f'({a}, {b})', ('pair', ta, tb)
        if isinstance(e, ast.Subscript) and isinstance(e.slice, ast.Constant) and e.slice.value in (0, 1):
            t, ty = self.expr(e.value, env)
            if not (isinstance(ty, tuple) and ty[0] == 'pair'):
                raise Untranslatable('subscript of a non-pair')
            return f'({"fst" if e.slice.value == 0 else "snd"} {t})', ty[1 + e.slice.value]
        if isinstance(e, ast.List) and not e.elts:
            return '[]', ('list', None)
        if isinstance(e, ast.ListComp) and len(e.generators) == 1 and not e.generators[0].ifs \
                and isinstance(e.generators[0].target, ast.Name):
            g = e.generators[0]
            xs, tx = self.expr(g.iter, env)
            if not (isinstance(tx, tuple) and tx[0] == 'list'):
                raise Untranslatable('comprehension over a non-list')
            v = g.target.id
            b, tb = self.expr(e.elt, dict(env, **{v: (v, tx[1])}))
            return f'(map (fun {v} => {b}) {xs})', ('list', tb)
        if isinstance(e, ast.Call):
            return self.call(e, env)
        raise Untranslatable(f'expression {type(e).__name__}: {ast.unparse(e)[:60]}')

    def text_of(self, t, ty):
        """str(x) / f'{x}'"""
        if ty in (STR, PATH):
            return t
        if ty == PARENT:
            return f'(p_str {t})'
        raise Untranslatable(f'str() of a {ty}')

    def kwargs(self, e, names, env):
        if e.args:
            raise Untranslatable(f'positional arguments to {ast.unparse(e.func)}')
        got = {k.arg: k.value for k in e.keywords}
        if set(got) - set(names):
            raise Untranslatable(f'unexpected keyword {sorted(set(got) - set(names))}')
        return got

    def call(self, e, env):
        f = e.func
        if isinstance(f, ast.Name):
            if f.id == 'Path' and len(e.args) == 1 and not e.keywords:
                t, ty = self.expr(e.args[0], env)
                if ty == PATH:
                    return t, PATH
                if ty != STR:
                    raise Untranslatable(f'Path() of a {ty}')
                return f'(prim_Path {t})', PATH
            if f.id == 'str' and len(e.args) == 1 and not e.keywords:
                return self.text_of(*self.expr(e.args[0], env)), STR
            if f.id in ('PipelineInfo', 'PipelineFileInfo'):
                want = {'PipelineInfo': ['pipeline_name', 'loader', 'parent', 'is_parent_cascading',
                                         'is_loader_cascading'],
                        'PipelineFileInfo': ['pipeline_name', 'loader', 'parent', 'path']}[f.id]
                got = self.kwargs(e, want, env)
                args = []
                for n in want:
                    if n not in got:
                        if f.id == 'PipelineInfo' and n.startswith('is_'):
                            args.append(f'gen_PipelineInfo_default_{n}')
                            continue
                        raise Untranslatable(f'{f.id}: missing {n}')
                    t, ty = self.expr(got[n], env)
                    wty = PATH if n == 'path' else INFO_FIELDS[n][1]
                    args.append(self.coerce(t, ty, wty))
                return f'(gen_{f.id} ' + ' '.join(args) + ')', INFO
            if f.id == 'PipelineDefinition':
                got = self.kwargs(e, ['pipeline', 'info'], env)
                if set(got) != {'pipeline', 'info'}:
                    raise Untranslatable('PipelineDefinition arguments')
                p, tp = self.expr(got['pipeline'], env)
                i, ti = self.expr(got['info'], env)
                if tp != YAML or ti != INFO:
                    raise Untranslatable('PipelineDefinition argument types')
                isfile = 'true' if (isinstance(got['info'], ast.Name) and env.get('$fileinfo') == got['info'].id) \
                    or (isinstance(got['info'], ast.Call) and ast.unparse(got['info'].func) == 'PipelineFileInfo') \
                    else 'false'
                return f'{{| d_file := {p}; d_is_file_info := {isfile}; d_info := {i} |}}', PDEF
            raise Untranslatable(f'call of {f.id}')
        if isinstance(f, ast.Attribute):
            # pype.get(key, default)
            if isinstance(f.value, ast.Name) and f.attr == 'get' and env.get(f.value.id, (None, None))[1] == OPTS \
                    and len(e.args) == 2 and isinstance(e.args[0], ast.Constant) and not e.keywords:
                key = e.args[0].value
                if key not in PYPE_KEYS:
                    raise Untranslatable(f'pype key {key!r}')
                fn, field, fty = PYPE_KEYS[key]
                o = env[f.value.id][0]
                d, td = self.expr(e.args[1], env)
                if fn is None:
                    if td != NONE:
                        raise Untranslatable(f'default of pype.get({key!r})')
                    return f'({field} {o})', fty
                return f'({fn} ({field} {o}) {self.coerce(d, td, fty)})', fty
            # "\n".join(xs)
            if f.attr == 'join' and isinstance(f.value, ast.Constant) and isinstance(f.value.value, str) \
                    and len(e.args) == 1:
                xs, tx = self.expr(e.args[0], env)
                if tx != ('list', STR):
                    raise Untranslatable('join of a non list-of-str')
                return f'(join {coq_str(f.value.value)} {xs})', STR
            t, ty = self.expr(f.value, env)
            if ty == PATH and not e.keywords:
                if f.attr in ('is_absolute', 'is_file', 'exists') and not e.args:
                    return f'(prim_{f.attr} {t})', BOOL
                if f.attr == 'resolve' and not e.args:
                    return f'(prim_resolve {t})', PATH
                if f.attr in ('samefile', 'joinpath') and len(e.args) == 1:
                    a, ta = self.expr(e.args[0], env)
                    if ta not in (PATH, STR) or (f.attr == 'samefile' and ta != PATH):
                        raise Untranslatable(f'{f.attr} argument of type {ta}')
                    return f'(prim_{f.attr} {t} {a})', (BOOL if f.attr == 'samefile' else PATH)
            raise Untranslatable(f'method {f.attr} of a {ty}')
        raise Untranslatable('call')

    # ---------------------------------------------------------------- statements
    def block(self, stmts, env, mode, k=None):
        """mode: 'res' (function returns a value or raises -> res T) | 'eff' (returns (st, value))"""
        stmts = [s for s in stmts if not skip(s)]
        if not stmts:
            if k is None and mode == 'sys':
                return self.sys_state(env)
            if k is None:
                raise Untranslatable('control reaches the end of the function')
            return k(env)
        st, rest = stmts[0], stmts[1:]

        def cont(env2):
            return self.block(rest, env2, mode, k)

        if mode == 'sys':
            r = self.sys_stmt(st, rest, env, k)
            if r is not None:
                return r
        if isinstance(st, ast.Return):
            if st.value is None:
                raise Untranslatable('bare return')
            t, ty = self.expr(st.value, env)
            env['$ret'] = ty
            return f'Ok {t}' if mode == 'res' else f'({env["$st"][0]}, {t})'
        if isinstance(st, ast.Raise) and mode == 'res' and isinstance(st.exc, ast.Call) \
                and isinstance(st.exc.func, ast.Name) and len(st.exc.args) == 1:
            cls = self.imports.get(st.exc.func.id)
            if cls is None:
                raise Untranslatable(f'unknown exception class {st.exc.func.id}')
            m, tm = self.expr(st.exc.args[0], env)
            if tm != STR:
                raise Untranslatable('exception message type')
            return f'Err {coq_str(cls)} {m}'
        if isinstance(st, ast.If):
            c = self.truth(st.test, env)
            a = self.block(st.body + rest, dict(env), mode, k)
            b = self.block(st.orelse + rest, dict(env), mode, k)
            return f'(if {c} then {a} else {b})'
        if isinstance(st, ast.Assign) and len(st.targets) == 1 and isinstance(st.targets[0], ast.Name):
            v = st.targets[0].id
            val = st.value
            if isinstance(val, ast.Call) and isinstance(val.func, ast.Name) and val.func.id in RES_FUNS:
                fn, argtys, rty = RES_FUNS[val.func.id]
                args = self.call_args(val, argtys, env)
                if mode != 'res' and mode != 'effres':
                    raise Untranslatable('result-returning call outside a result-returning function')
                env2 = dict(env, **{v: (v, rty)})
                return f'(let* {v} := {fn} {args} in {cont(env2)})'
            t, ty = self.expr(val, env)
            env2 = dict(env, **{v: (v, ty)})
            if isinstance(val, ast.Call) and ast.unparse(val.func) == 'PipelineFileInfo':
                env2['$fileinfo'] = v
            return f'(let {v} := {t} in {cont(env2)})'
        if isinstance(st, ast.Expr) and isinstance(st.value, ast.Call):
            c = st.value
            if isinstance(c.func, ast.Attribute) and c.func.attr == 'append' and isinstance(c.func.value, ast.Name) \
                    and len(c.args) == 1 and not c.keywords:
                v = c.func.value.id
                lt, lty = self.expr(c.func.value, env)
                if not (isinstance(lty, tuple) and lty[0] == 'list'):
                    raise Untranslatable('append to a non-list')
                x, tx = self.expr(c.args[0], env)
                if lty[1] is not None and lty[1] != tx:
                    raise Untranslatable('list element type')
                env2 = dict(env, **{v: (v, ('list', tx))})
                return f'(let {v} := ({lt} ++ [{x}])%list in {cont(env2)})'
            if ast.unparse(c.func) in ('add_sys_path', 'pypyr.moduleloader.add_sys_path') and len(c.args) == 1 \
                    and not c.keywords and '$st' in env:
                x, tx = self.expr(c.args[0], env)
                if tx == OSTR:     # a truthy option: its content
                    raise Untranslatable('add_sys_path of a possibly-None value')
                s = env['$st'][0]
                env2 = dict(env, **{'$st': (s, ST)})
                return f'(let {s} := prim_add_sys_path {s} {self.coerce(x, tx, PARENT)} in {cont(env2)})'
        raise Untranslatable(f'statement {type(st).__name__}: {ast.unparse(st)[:70]}')

    # add_sys_path: state = (_known_dirs, sys.path), both ordinary (shadowed) let-bound names
    def sys_state(self, env):
        return f'{{| known := {env["$known"]}; syspath := {env["$sp"]} |}}'

    def sys_stmt(self, st, rest, env, k):
        def cont(env2):
            return self.block(rest, env2, 'sys', k)
        if isinstance(st, ast.Return) and st.value is None:
            return self.sys_state(env)
        if isinstance(st, ast.With) and len(st.items) == 1 and st.items[0].optional_vars is None \
                and ast.unparse(st.items[0].context_expr) == '_sys_path_lock':
            return self.block(st.body + rest, env, 'sys', k)
        if isinstance(st, ast.Expr) and isinstance(st.value, ast.Call) and len(st.value.args) == 1 \
                and not st.value.keywords:
            fn = ast.unparse(st.value.func)
            if fn == '_known_dirs.add':
                x, tx = self.expr(st.value.args[0], env)
                if tx != PARENT:
                    raise Untranslatable('_known_dirs.add of a non-parent')
                return f'(let kn := ({x} :: {env["$known"]}) in {cont(dict(env, **{"$known": "kn"}))})'
            if fn == 'sys.path.append':
                x, tx = self.expr(st.value.args[0], env)
                if tx not in (STR, PATH):
                    raise Untranslatable('sys.path.append of a non-string')
                return f'(let sp := ({env["$sp"]} ++ [{x}])%list in {cont(dict(env, **{"$sp": "sp"}))})'
        return None

    def call_args(self, call, argtys, env):
        if call.keywords and call.args:
            raise Untranslatable('mixed positional/keyword call')
        vals = list(call.args)
        if call.keywords:
            fn = find(self.tree, call.func.id)
            names = [a.arg for a in fn.args.args]
            kw = {k.arg: k.value for k in call.keywords}
            if set(kw) != set(names):
                raise Untranslatable('keyword arguments do not match the signature')
            vals = [kw[n] for n in names]
        if len(vals) != len(argtys):
            raise Untranslatable('argument count')
        out = []
        for v, ty in zip(vals, argtys):
            t, tv = self.expr(v, env)
            if isinstance(ty, tuple):
                if tv != ty:
                    raise Untranslatable(f'argument type {tv}')
                out.append(t)
            else:
                out.append(self.coerce(t, tv, ty))
        return ' '.join(out)


# ---------------------------------------------------------------------- units

def parse(rel):
    p = REPO / rel
    return ast.parse(p.read_text()), rel[:-3].replace('/', '.')


def unit_config():
    tree, _ = parse('pypyr/config.py')
    init = find(tree, 'Config.__init__')
    vals = {}
    for st in ast.walk(init):
        if isinstance(st, ast.Assign) and len(st.targets) == 1 and isinstance(st.targets[0], ast.Attribute) \
                and isinstance(st.targets[0].value, ast.Name) and st.targets[0].value.id == 'self' \
                and st.targets[0].attr in ('default_loader', 'pipelines_subdir'):
            if st.targets[0].attr in vals or not (isinstance(st.value, ast.Constant) and isinstance(st.value.value, str)):
                raise Untranslatable(f'Config.{st.targets[0].attr} is not a single string constant')
            vals[st.targets[0].attr] = st.value.value
    if set(vals) != {'default_loader', 'pipelines_subdir'}:
        raise Untranslatable('Config defaults not found')
    return [f'Definition gen_config_default_loader : string := {coq_str(vals["default_loader"])}.',
            f'Definition gen_config_pipelines_subdir : string := {coq_str(vals["pipelines_subdir"])}.']


def unit_pipedef():
    tree, _ = parse('pypyr/pipedef.py')
    init = find(tree, 'PipelineInfo.__init__')
    names = [a.arg for a in init.args.args][1:]
    defaults = dict(zip(names[len(names) - len(init.args.defaults):], init.args.defaults))
    if set(names) != set(INFO_FIELDS):
        raise Untranslatable(f'PipelineInfo.__init__ parameters {names}')
    out = []
    for n in ('is_parent_cascading', 'is_loader_cascading'):
        d = defaults.get(n)
        if not (isinstance(d, ast.Constant) and isinstance(d.value, bool)):
            raise Untranslatable(f'default of {n}')
        out.append(f'Definition gen_PipelineInfo_default_{n} : bool := {"true" if d.value else "false"}.')
    # body: self.<attr> = <param>
    assigned = {}
    for st in init.body:
        if skip(st):
            continue
        if isinstance(st, ast.Assign) and len(st.targets) == 1 and isinstance(st.targets[0], ast.Attribute) \
                and isinstance(st.targets[0].value, ast.Name) and st.targets[0].value.id == 'self' \
                and isinstance(st.value, ast.Name) and st.value.id in names:
            assigned[st.targets[0].attr] = st.value.id
        else:
            raise Untranslatable(f'PipelineInfo.__init__: {ast.unparse(st)[:60]}')
    if set(assigned) != set(INFO_FIELDS):
        raise Untranslatable('PipelineInfo.__init__ does not set every attribute')
    order = ['pipeline_name', 'loader', 'parent', 'is_parent_cascading', 'is_loader_cascading']
    tys = {'pipeline_name': 'string', 'loader': 'string', 'parent': 'pyparent',
           'is_parent_cascading': 'bool', 'is_loader_cascading': 'bool'}
    params = ' '.join(f'({n} : {tys[n]})' for n in order)
    fields = '; '.join(f'{INFO_FIELDS[a][0]} := {assigned[a]}' for a in
                       ['pipeline_name', 'loader', 'parent', 'is_loader_cascading', 'is_parent_cascading'])
    out.append(f'Definition gen_PipelineInfo {params} : pinfo := {{| {fields} |}}.')
    # PipelineFileInfo.__init__: super().__init__(pipeline_name=..., loader=..., parent=...); self.path = path
    finit = find(tree, 'PipelineFileInfo.__init__')
    fnames = [a.arg for a in finit.args.args][1:]
    if fnames != ['pipeline_name', 'loader', 'parent', 'path'] or finit.args.defaults:
        raise Untranslatable(f'PipelineFileInfo.__init__ parameters {fnames}')
    sup = None
    for st in finit.body:
        if skip(st):
            continue
        if isinstance(st, ast.Expr) and isinstance(st.value, ast.Call) \
                and ast.unparse(st.value.func) == 'super().__init__' and sup is None:
            sup = st.value
        elif isinstance(st, ast.Assign) and ast.unparse(st.targets[0]) == 'self.path' \
                and isinstance(st.value, ast.Name) and st.value.id == 'path':
            pass
        else:
            raise Untranslatable(f'PipelineFileInfo.__init__: {ast.unparse(st)[:60]}')
    if sup is None or sup.args:
        raise Untranslatable('PipelineFileInfo.__init__: super().__init__ call')
    kw = {k.arg: k.value for k in sup.keywords}
    args = []
    for n in order:
        if n in kw:
            if not (isinstance(kw[n], ast.Name) and kw[n].id in fnames):
                if isinstance(kw[n], ast.Constant) and isinstance(kw[n].value, bool):
                    args.append('true' if kw[n].value else 'false')
                    continue
                raise Untranslatable(f'super().__init__ argument {n}')
            args.append(kw[n].id)
        elif n.startswith('is_'):
            args.append(f'gen_PipelineInfo_default_{n}')
        else:
            raise Untranslatable(f'super().__init__ misses {n}')
    out.append('Definition gen_PipelineFileInfo (pipeline_name loader : string) (parent : pyparent) '
               f'(path : string) : pinfo := gen_PipelineInfo {" ".join(args)}.')
    return out


def for_else_find(tr, fn, env):
    """for v in xs: <assigns>; if c: break [else: log]   else: raise X(msg)   ; return e"""
    body = [s for s in fn.body if not skip(s)]
    if len(body) != 2 or not isinstance(body[0], ast.For) or not isinstance(body[1], ast.Return):
        raise Untranslatable('find_pipeline: expected `for ... else ...` followed by `return`')
    loop, ret = body
    if not (isinstance(loop.target, ast.Name) and isinstance(loop.iter, ast.Name)):
        raise Untranslatable('loop header')
    xs, txs = tr.expr(loop.iter, env)
    v = loop.target.id
    lenv = dict(env, **{v: (v, txs[1])})
    lets = []
    stmts = [s for s in loop.body if not skip(s)]
    assigned = []
    while stmts and isinstance(stmts[0], ast.Assign):
        st = stmts.pop(0)
        if len(st.targets) != 1 or not isinstance(st.targets[0], ast.Name):
            raise Untranslatable('loop assignment')
        t, ty = tr.expr(st.value, lenv)
        n = st.targets[0].id
        lets.append(f'let {n} := {t} in ')
        lenv[n] = (n, ty)
        assigned.append(n)
    if len(stmts) != 1 or not isinstance(stmts[0], ast.If):
        raise Untranslatable('loop body must end in `if ...: break`')
    iff = stmts[0]
    tb = [s for s in iff.body if not skip(s)]
    eb = [s for s in iff.orelse if not skip(s)]
    if len(tb) != 1 or not isinstance(tb[0], ast.Break) or eb:
        raise Untranslatable('loop `if` must be `break` / nothing')
    c = tr.truth(iff.test, lenv)
    # the value that survives the loop: the names the `return` reads
    live = [n for n in assigned if any(isinstance(x, ast.Name) and x.id == n for x in ast.walk(ret.value))]
    if len(live) != 1:
        raise Untranslatable('exactly one loop variable must be live after the loop')
    res = live[0]
    loop_def = (f'Fixpoint gen_find_pipeline_loop (file_name : string) (dirs : list (string * string)) '
                f': option string :=\n  match {xs} with\n  | [] => None\n  | {v} :: {xs}\' =>\n      '
                + ''.join(lets) + f'if {c} then Some {res} else gen_find_pipeline_loop file_name {xs}\'\n  end.')
    # else: raise
    els = [s for s in loop.orelse if not skip(s)]
    renv = dict(env)
    err = tr.block(els, renv, 'res')
    renv2 = dict(env, **{res: (res, lenv[res][1])})
    okv, tyv = tr.expr(ret.value, renv2)
    if tyv != PATH:
        raise Untranslatable('find_pipeline must return a Path')
    main = ('Definition gen_find_pipeline (file_name : string) (dirs : list (string * string)) : res string :=\n'
            f'  match gen_find_pipeline_loop file_name dirs with\n  | Some {res} => Ok {okv}\n  | None => {err}\n  end.')
    return [loop_def, main]


def unit_file():
    tree, modname = parse('pypyr/loaders/file.py')
    tr = Tr(modname, tree)
    out = [f'Definition gen_file_loader_name : string := {coq_str(modname)}.']
    # module level: cwd_pipelines_dir, pypyr_dir, builtin_pipelines_dir
    e = module_assign(tree, 'pypyr_dir')
    if not (isinstance(e, ast.Subscript) and ast.unparse(e.value) == 'Path(__file__).parents'
            and isinstance(e.slice, ast.Constant) and isinstance(e.slice.value, int)):
        raise Untranslatable('pypyr_dir is not Path(__file__).parents[n]')
    parts = 'pypyr/loaders/file.py'.split('/')[:-1]
    up = e.slice.value
    if up >= len(parts):
        raise Untranslatable('pypyr_dir above the repository')
    t = 'repo_root'
    for seg in parts[:len(parts) - up]:
        t = f'(prim_joinpath {t} {coq_str(seg)})'
    out.append(f'Definition gen_pypyr_dir : string := {t}.')
    genv = {'pypyr_dir': ('gen_pypyr_dir', PATH)}
    for name in ('cwd_pipelines_dir', 'builtin_pipelines_dir'):
        t, ty = tr.expr(module_assign(tree, name), genv)
        if ty != PATH:
            raise Untranslatable(f'{name} is not a Path')
        out.append(f'Definition gen_{name} : string := {t}.')
        genv[name] = (f'gen_{name}', PATH)
    # find_pipeline
    fn = find(tree, 'find_pipeline')
    if [a.arg for a in fn.args.args] != ['file_name', 'dirs']:
        raise Untranslatable('find_pipeline signature')
    env = dict(genv, file_name=('file_name', STR), dirs=('dirs', ('list', ('pair', PATH, STR))))
    out += for_else_find(tr, fn, env)
    # get_pipeline_path
    fn = find(tree, 'get_pipeline_path')
    if [a.arg for a in fn.args.args] != ['pipeline_name', 'parent']:
        raise Untranslatable('get_pipeline_path signature')
    env = dict(genv, pipeline_name=('pipeline_name', STR), parent=('parent', PARENT))
    body = tr.block(fn.body, env, 'res')
    out.append('Definition gen_get_pipeline_path (pipeline_name : string) (parent : pyparent) : res string :=\n  '
               + body + '.')
    # load_pipeline_from_file
    fn = find(tree, 'load_pipeline_from_file')
    if [a.arg for a in fn.args.args] != ['path']:
        raise Untranslatable('load_pipeline_from_file signature')
    stmts = [s for s in fn.body if not skip(s)]
    if not stmts or not isinstance(stmts[0], ast.Try):
        raise Untranslatable('load_pipeline_from_file: expected the try/open block first')
    yaml_var = read_yaml_block(stmts[0])
    env = dict(genv, path=('path', PATH), **{yaml_var: ('path', YAML), '$st': ('st', ST)})
    body = tr.block(stmts[1:], env, 'eff')
    if env.get('$ret') != PDEF:
        pass
    out.append('Definition gen_load_pipeline_from_file (path : string) (st : sysst) : sysst * pdef :=\n  '
               + body + '.')
    # get_pipeline_definition: path look-up, then (through file_cache) load_pipeline_from_file
    fn = find(tree, 'get_pipeline_definition')
    if [a.arg for a in fn.args.args] != ['pipeline_name', 'parent']:
        raise Untranslatable('get_pipeline_definition signature')
    stmts = [s for s in fn.body if not skip(s)]
    if len(stmts) != 3:
        raise Untranslatable('get_pipeline_definition: expected look-up, cached load, return')
    a, b, c = stmts
    if not (isinstance(a, ast.Assign) and isinstance(a.value, ast.Call) and ast.unparse(a.value.func) == 'get_pipeline_path'):
        raise Untranslatable('get_pipeline_definition: first statement')
    pv = a.targets[0].id
    args = tr.call_args(a.value, RES_FUNS['get_pipeline_path'][1],
                        {'pipeline_name': ('pipeline_name', STR), 'parent': ('parent', PARENT)})
    if not (isinstance(b, ast.Assign) and isinstance(b.value, ast.Call)
            and ast.unparse(b.value.func) == 'file_cache.get' and len(b.value.args) == 2
            and ast.unparse(b.value.args[0]) == f'str({pv})' and isinstance(b.value.args[1], ast.Lambda)
            and not b.value.args[1].args.args
            and ast.unparse(b.value.args[1].body) == f'load_pipeline_from_file({pv})'):
        raise Untranslatable('get_pipeline_definition: cached load')
    dv = b.targets[0].id
    if not (isinstance(c, ast.Return) and isinstance(c.value, ast.Name) and c.value.id == dv):
        raise Untranslatable('get_pipeline_definition: return')
    out.append('Definition gen_get_pipeline_definition (pipeline_name : string) (parent : pyparent) (st : sysst) '
               ': res (sysst * pdef) :=\n'
               f'  (let* {pv} := gen_get_pipeline_path {args} in Ok (gen_load_pipeline_from_file {pv} st)).')
    return out


def read_yaml_block(tr_stmt):
    """try: with open(path, ...) as f: v = pypyr.yaml.get_pipeline_yaml(f)
       except FileNotFoundError: <log>; raise          -> name of v"""
    if len(tr_stmt.body) != 1 or not isinstance(tr_stmt.body[0], ast.With) or tr_stmt.orelse or tr_stmt.finalbody:
        raise Untranslatable('try block shape')
    w = tr_stmt.body[0]
    if len(w.items) != 1 or not isinstance(w.items[0].context_expr, ast.Call) \
            or ast.unparse(w.items[0].context_expr.func) != 'open' \
            or ast.unparse(w.items[0].context_expr.args[0]) != 'path' or w.items[0].optional_vars is None:
        raise Untranslatable('with open(path) shape')
    fvar = w.items[0].optional_vars.id
    wb = [s for s in w.body if not skip(s)]
    if len(wb) != 1 or not isinstance(wb[0], ast.Assign) \
            or ast.unparse(wb[0].value) != f'pypyr.yaml.get_pipeline_yaml({fvar})':
        raise Untranslatable('yaml read shape')
    for h in tr_stmt.handlers:
        hb = [s for s in h.body if not skip(s)]
        if len(hb) != 1 or not isinstance(hb[0], ast.Raise) or hb[0].exc is not None:
            raise Untranslatable('except handler must re-raise')
    return wb[0].targets[0].id


def assigned_names(st):
    out = set()
    for n in ast.walk(st):
        if isinstance(n, ast.Name) and isinstance(n.ctx, ast.Store):
            out.add(n.id)
    return out


def read_names(st):
    return {n.id for n in ast.walk(st) if isinstance(n, ast.Name) and isinstance(n.ctx, ast.Load)}


def simple_stmt(st):
    """Assign to a name, or an if/else made only of such"""
    if isinstance(st, ast.Assign):
        return len(st.targets) == 1 and isinstance(st.targets[0], ast.Name)
    if isinstance(st, ast.If):
        return all(simple_stmt(s) for s in st.body + st.orelse if not skip(s))
    return False


def unit_pype():
    tree, modname = parse('pypyr/steps/pype.py')
    tr = Tr(modname, tree)
    # field order of PypeArgs
    nt = module_assign(tree, 'PypeArgs')
    if not (isinstance(nt, ast.Call) and ast.unparse(nt.func) == 'namedtuple' and len(nt.args) == 2
            and isinstance(nt.args[1], ast.List)):
        raise Untranslatable('PypeArgs is not namedtuple(name, [fields])')
    fields = [x.value for x in nt.args[1].elts]
    fn = find(tree, 'get_arguments')
    stmts = [s for s in fn.body if not skip(s)]
    ret = stmts[-1]
    if not (isinstance(ret, ast.Return) and isinstance(ret.value, ast.Call)
            and ast.unparse(ret.value.func) == 'PypeArgs' and not ret.value.keywords
            and len(ret.value.args) == len(fields)):
        raise Untranslatable('get_arguments must end in `return PypeArgs(<positional>)`')
    want = {f: ret.value.args[fields.index(f)] for f in ('loader', 'py_dir', 'parent')}
    needed = set()
    for e in want.values():
        needed |= read_names(e)
    keep = []
    for st in reversed(stmts[:-1]):
        asg = assigned_names(st)
        if not (asg & needed):
            continue
        if isinstance(st, ast.Assign) and len(st.targets) == 1 and isinstance(st.targets[0], ast.Name) \
                and ast.unparse(st.value) in ("context.get_formatted('pype')",
                                              'context.current_pipeline.pipeline_definition.info'):
            needed -= asg
            keep.append(('param', st))
            continue
        if not simple_stmt(st):
            raise Untranslatable(f'get_arguments: {ast.unparse(st)[:60]} feeds loader/py_dir/parent')
        keep.append(('stmt', st))
        needed |= read_names(st)
    keep.reverse()
    env = {}
    body = []
    for kind, st in keep:
        if kind == 'param':
            v = st.targets[0].id
            env[v] = ('pype', OPTS) if 'get_formatted' in ast.unparse(st.value) else ('info', INFO)
        else:
            body.append(st)
    unknown = {n for st in body for n in read_names(st)} - set(env) - {n for st in body for n in assigned_names(st)} \
        - {'None', 'True', 'False'}
    if unknown:
        raise Untranslatable(f'get_arguments: unbound names {sorted(unknown)}')

    def final(env2):
        ts = []
        for f, wty in (('loader', OSTR), ('py_dir', OSTR), ('parent', PARENT)):
            t, ty = tr.expr(want[f], env2)
            ts.append(tr.coerce(t, ty, wty))
        return '(' + ', '.join(ts) + ')'
    term = tr.block(body, env, 'pure', final)
    out = ['Definition gen_get_arguments (info : pinfo) (pype : pype_opts) '
           ': option string * option string * pyparent :=\n  ' + term + '.']
    # run_step: which fields of pype_args reach the child Pipeline and its load
    fn = find(tree, 'run_step')
    pa = None
    for n in ast.walk(fn):
        if isinstance(n, ast.Assign) and isinstance(n.value, ast.Call) and ast.unparse(n.value.func) == 'get_arguments':
            pa = n.targets[0].id
    if pa is None:
        raise Untranslatable('run_step does not call get_arguments')
    newp = [n for n in ast.walk(fn) if isinstance(n, ast.Call) and ast.unparse(n.func) == 'Pipeline.new_pipe_and_args']
    loads = [n for n in ast.walk(fn) if isinstance(n, ast.Call) and isinstance(n.func, ast.Attribute)
             and n.func.attr == 'load_and_run_pipeline']
    if len(newp) != 1 or not loads:
        raise Untranslatable('run_step: new_pipe_and_args / load_and_run_pipeline calls')
    kw = {k.arg: k.value for k in newp[0].keywords}

    def field_of(e):
        if isinstance(e, ast.Attribute) and isinstance(e.value, ast.Name) and e.value.id == pa and e.attr in fields:
            return e.attr
        raise Untranslatable(f'run_step passes {ast.unparse(e)} instead of a field of {pa}')
    wired = [field_of(kw['loader']), field_of(kw['py_dir'])]
    ps = set()
    for c in loads:
        if len(c.args) != 2 or c.keywords:
            raise Untranslatable('load_and_run_pipeline call shape')
        ps.add(field_of(c.args[1]))
    if len(ps) != 1:
        raise Untranslatable('load_and_run_pipeline calls pass different parents')
    wired.append(ps.pop())
    if wired != ['loader', 'py_dir', 'parent']:
        raise Untranslatable(f'run_step wires loader<-{wired[0]}, py_dir<-{wired[1]}, parent<-{wired[2]}')
    if not (isinstance(kw.get('name'), ast.Attribute) and kw['name'].attr == 'pipeline_name'):
        raise Untranslatable('run_step: name argument')
    out.append('Definition gen_run_step_request (info : pinfo) (pype : pype_opts) '
               ': option string * option string * pyparent :=\n'
               '  let a := gen_get_arguments info pype in (fst (fst a), snd (fst a), snd a).')
    return out


def unit_pipeline():
    tree, modname = parse('pypyr/pipeline.py')
    tr = Tr(modname, tree)
    fn = find(tree, 'Pipeline.load_and_run_pipeline')
    names = [a.arg for a in fn.args.args]
    if names != ['self', 'context', 'parent'] or len(fn.args.defaults) != 1:
        raise Untranslatable('load_and_run_pipeline signature')
    d, td = tr.expr(fn.args.defaults[0], {})
    out = [f'Definition gen_load_and_run_pipeline_default_parent : pyparent := {tr.coerce(d, td, PARENT)}.']
    stmts = [s for s in fn.body if not skip(s)]
    # dropped: `if context is None: context = Context()`
    stmts = [s for s in stmts if not (isinstance(s, ast.If) and ast.unparse(s.test) == 'context is None'
                                      and assigned_names(s) == {'context'})]
    if len(stmts) != 4:
        raise Untranslatable('load_and_run_pipeline: expected py_dir, loader, get_pipeline, run')
    pyd, ldr, getp, run = stmts
    env = {'self.py_dir': ('self_py_dir', OSTR), 'self.loader': ('self_loader', OSTR),
           'self.name': ('self_name', STR), 'parent': ('parent', PARENT), '$st': ('st', ST)}
    # if self.py_dir: add_sys_path(self.py_dir)   (inside the branch the option is its content)
    if not (isinstance(pyd, ast.If) and ast.unparse(pyd.test) == 'self.py_dir' and not pyd.orelse):
        raise Untranslatable('load_and_run_pipeline: py_dir statement')
    inner = [s for s in pyd.body if not skip(s)]
    if len(inner) != 1 or ast.unparse(inner[0]) != 'pypyr.moduleloader.add_sys_path(self.py_dir)':
        raise Untranslatable('load_and_run_pipeline: py_dir branch')
    st1 = ('(if ostr_truthy self_py_dir then prim_add_sys_path st (PStr (ostr_get self_py_dir)) else st)')
    if not (isinstance(ldr, ast.Assign) and ast.unparse(ldr.value) == 'loader_cache.get_pype_loader(self.loader)'):
        raise Untranslatable('load_and_run_pipeline: loader statement')
    lv = ldr.targets[0].id
    if not (isinstance(getp, ast.Assign) and ast.unparse(getp.targets[0]) == 'self.pipeline_definition'
            and isinstance(getp.value, ast.Call) and ast.unparse(getp.value.func) == f'{lv}.get_pipeline'
            and not getp.value.args):
        raise Untranslatable('load_and_run_pipeline: get_pipeline statement')
    kw = {k.arg: k.value for k in getp.value.keywords}
    if set(kw) != {'name', 'parent'}:
        raise Untranslatable('get_pipeline keywords')
    n, tn = tr.expr(kw['name'], env)
    p, tp = tr.expr(kw['parent'], env)
    if tn != STR:
        raise Untranslatable('get_pipeline name type')
    if not (isinstance(run, ast.With) and 'pipeline_scope' in ast.unparse(run.items[0].context_expr)):
        raise Untranslatable('load_and_run_pipeline: final statement')
    out.append('Definition gen_load_and_run_pipeline (self_py_dir self_loader : option string) (self_name : string) '
               '(parent : pyparent) (st : sysst) : sysst * (option string * string * pyparent) :=\n'
               f'  ({st1}, (self_loader, {n}, {tr.coerce(p, tp, PARENT)})).')
    # Pipeline.run: root pipelines get the default parent
    fn = find(tree, 'Pipeline.run')
    calls = [c for c in ast.walk(fn) if isinstance(c, ast.Call) and isinstance(c.func, ast.Attribute)
             and c.func.attr == 'load_and_run_pipeline']
    if len(calls) != 1 or calls[0].keywords or len(calls[0].args) not in (1, 2):
        raise Untranslatable('Pipeline.run: load_and_run_pipeline call')
    if len(calls[0].args) == 1:
        out.append('Definition gen_root_parent : pyparent := gen_load_and_run_pipeline_default_parent.')
    else:
        t, ty = tr.expr(calls[0].args[1], {})
        out.append(f'Definition gen_root_parent : pyparent := {tr.coerce(t, ty, PARENT)}.')
    return out


def unit_loadercache():
    tree, modname = parse('pypyr/cache/loadercache.py')
    tr = Tr(modname, tree)
    out = []
    # Loader.get_pipeline: the cache key
    fn = find(tree, 'Loader.get_pipeline')
    stmts = [s for s in fn.body if not skip(s)]
    if len(stmts) != 2 or not isinstance(stmts[0], ast.Assign) or not isinstance(stmts[1], ast.Return):
        raise Untranslatable('Loader.get_pipeline: expected key assignment and return')
    kv = stmts[0].targets[0].id
    r = stmts[1].value
    if not (isinstance(r, ast.Call) and ast.unparse(r.func) == 'self._pipeline_cache.get' and len(r.args) == 2
            and ast.unparse(r.args[0]) == kv and isinstance(r.args[1], ast.Lambda)
            and ast.unparse(r.args[1].body) == 'self._load_pipeline(name, parent)'):
        raise Untranslatable('Loader.get_pipeline: cache call')
    env = {'name': ('name', STR), 'parent': ('parent', PARENT)}
    key = stmts[0].value
    if not (isinstance(key, ast.Tuple) and len(key.elts) == 2):
        raise Untranslatable('cache key is not a (parent, name) pair')
    a, ta = tr.expr(key.elts[0], env)
    b, tb = tr.expr(key.elts[1], env)
    if ta != OSTR or tb != STR:
        raise Untranslatable(f'cache key component types {ta}, {tb}')
    out.append(f'Definition gen_cache_key (parent : pyparent) (name : string) : option string * string := ({a}, {b}).')
    # Loader._load_pipeline: wrapping of a bare mapping
    fn = find(tree, 'Loader._load_pipeline')
    wrap = None
    for st in fn.body:
        if isinstance(st, ast.If) and ast.unparse(st.test) == 'not isinstance(pipeline_definition, PipelineDefinition)':
            inner = [s for s in st.body if not skip(s)]
            if len(inner) == 1 and isinstance(inner[0], ast.Assign) \
                    and ast.unparse(inner[0].targets[0]) == 'pipeline_definition' and not st.orelse:
                wrap = inner[0].value
    if wrap is None:
        raise Untranslatable('Loader._load_pipeline: wrapping statement not found')
    env = {'name': ('name', STR), 'parent': ('parent', PARENT), 'self.name': ('loader_name', STR),
           'pipeline_definition': ('payload', YAML)}
    t, ty = tr.expr(wrap, env)
    if ty != PDEF:
        raise Untranslatable('wrapping does not build a PipelineDefinition')
    out.append('Definition gen_wrap_bare_mapping (loader_name name : string) (parent : pyparent) (payload : string) '
               f': pdef := {t}.')
    # LoaderCache.get_pype_loader: default loader
    fn = find(tree, 'LoaderCache.get_pype_loader')
    stmts = [s for s in fn.body if not skip(s)]
    if len(stmts) != 3 or not isinstance(stmts[0], ast.If) or ast.unparse(stmts[0].test) != 'loader':
        raise Untranslatable('get_pype_loader: expected `if loader: ... else: loader = default`')
    tb = [s for s in stmts[0].body if not skip(s)]
    eb = [s for s in stmts[0].orelse if not skip(s)]
    if tb or len(eb) != 1 or not isinstance(eb[0], ast.Assign) or ast.unparse(eb[0].targets[0]) != 'loader':
        raise Untranslatable('get_pype_loader: branches')
    d, td = tr.expr(eb[0].value, {})
    if td != STR:
        raise Untranslatable('default loader type')
    g = stmts[1]
    if not (isinstance(g, ast.Assign) and isinstance(g.value, ast.Call) and ast.unparse(g.value.func) == 'self.get'
            and ast.unparse(g.value.args[0]) == 'loader'
            and ast.unparse(g.value.args[1]) == 'lambda: load_the_loader(loader)'):
        raise Untranslatable('get_pype_loader: cache call')
    out.append('Definition gen_pype_loader_name (loader : option string) : string := '
               f'(if ostr_truthy loader then ostr_get loader else {d}).')
    return out


def unit_moduleloader():
    tree, modname = parse('pypyr/moduleloader.py')
    tr = Tr(modname, tree)
    fn = find(tree, 'add_sys_path')
    if [a.arg for a in fn.args.args] != ['path']:
        raise Untranslatable('add_sys_path signature')
    env = {'path': ('path', PARENT), '$known': '(known st)', '$sp': '(syspath st)'}
    body = tr.block(fn.body, env, 'sys')
    return ['Definition gen_add_sys_path (st : sysst) (path : pyparent) : sysst :=\n  ' + body + '.']


def unit_get_module():
    """try: m = importlib.import_module(name); return m
       except ModuleNotFoundError as err: <build message, log>; raise PyModuleNotFoundError(msg) from err
    -> one import attempt per call, nothing else consulted or remembered"""
    tree, modname = parse('pypyr/moduleloader.py')
    imports = imported_names(tree)
    fn = find(tree, 'get_module')
    if [a.arg for a in fn.args.args] != ['module_abs_import']:
        raise Untranslatable('get_module signature')
    body = [s for s in fn.body if not skip(s)]
    if len(body) != 1 or not isinstance(body[0], ast.Try) or body[0].orelse or body[0].finalbody:
        raise Untranslatable('get_module: expected a single try/except')
    tr = body[0]
    tb = [s for s in tr.body if not skip(s)]
    if not (len(tb) == 2 and isinstance(tb[0], ast.Assign) and isinstance(tb[0].targets[0], ast.Name)
            and ast.unparse(tb[0].value) == 'importlib.import_module(module_abs_import)'
            and isinstance(tb[1], ast.Return) and isinstance(tb[1].value, ast.Name)
            and tb[1].value.id == tb[0].targets[0].id):
        raise Untranslatable('get_module: the try body is not exactly `m = importlib.import_module(name); '
                             'return m`')
    if len(tr.handlers) != 1 or ast.unparse(tr.handlers[0].type) != 'ModuleNotFoundError':
        raise Untranslatable('get_module: handlers')
    hb = [s for s in tr.handlers[0].body if not skip(s)]
    last = hb[-1] if hb else None
    if not (isinstance(last, ast.Raise) and isinstance(last.exc, ast.Call) and isinstance(last.exc.func, ast.Name)
            and imports.get(last.exc.func.id) == 'pypyr.errors.PyModuleNotFoundError'):
        raise Untranslatable('get_module: the handler must end in raise PyModuleNotFoundError(...)')
    for st in hb[:-1]:
        for n in ast.walk(st):
            if isinstance(n, ast.Call) and not (isinstance(n.func, ast.Attribute)
                                                and isinstance(n.func.value, ast.Name) and n.func.value.id == 'logger'):
                raise Untranslatable(f'get_module: handler calls {ast.unparse(n.func)}')
            if isinstance(n, (ast.Global, ast.Nonlocal, ast.Return, ast.Raise, ast.Try, ast.While, ast.For)):
                raise Untranslatable(f'get_module: handler statement {type(n).__name__}')
            if isinstance(n, (ast.Attribute, ast.Subscript)) and isinstance(n.ctx, ast.Store):
                raise Untranslatable('get_module: handler stores into an object')
    return ['Definition gen_get_module (prim_import : string -> option string) (module_abs_import : string) '
            ': res string :=\n  match prim_import module_abs_import with\n  | Some imported_module => Ok imported_module\n'
            '  | None => Err "pypyr.errors.PyModuleNotFoundError" module_abs_import\n  end.']


PRELUDE = '''(** Gen/GenC19.v — GENERATED by tools/py2coq_c19.py from the current source under the repository;
    do not edit.  A definition that could not be translated gets the suffix _UNTRANSLATED, which
    breaks every lemma of Proofs/GenC19Proofs.v that mentions the expected name. *)
From PV Require Import Loader.
Open Scope string_scope.

(* fixed helpers (not generated from source) *)
Definition ostr_truthy (o : option string) : bool := match o with Some s => negb (s =? "") | None => false end.
Definition ostr_get (o : option string) : string := match o with Some s => s | None => "" end.
Definition ostr_eq_str (o : option string) (s : string) : bool := match o with Some x => x =? s | None => false end.
Definition optkey_get_ostr (k : optkey string) (d : option string) : option string :=
  match k with Absent => d | Null => None | Given s => Some s end.
Definition optkey_get_parent (k : optkey string) (d : pyparent) : pyparent :=
  match k with Absent => d | Null => PNone | Given s => PStr s end.
Definition opt_get_bool (k : option bool) (d : bool) : bool := match k with Some b => b | None => d end.
Definition is_path_obj (p : pyparent) : bool := match p with PPath _ => true | _ => false end.
Definition parent_text (p : pyparent) : string := p_str p.

Section Gen.
Variables (repo_root cfg_cwd cfg_pipelines_subdir cfg_default_loader : string).
Variables (prim_is_file prim_exists prim_is_absolute : string -> bool).
Variables (prim_resolve prim_parent prim_name prim_Path : string -> string).
Variable prim_joinpath : string -> string -> string.
Variable prim_samefile : string -> string -> bool.
Variable prim_add_sys_path : sysst -> pyparent -> sysst.
'''

UNITS = [('pypyr/moduleloader.py', unit_moduleloader, ['gen_add_sys_path']),
         ('pypyr/moduleloader.py', unit_get_module, ['gen_get_module']),
         ('pypyr/config.py', unit_config, ['gen_config_default_loader', 'gen_config_pipelines_subdir']),
         ('pypyr/pipedef.py', unit_pipedef, ['gen_PipelineInfo', 'gen_PipelineFileInfo']),
         ('pypyr/loaders/file.py', unit_file, ['gen_find_pipeline', 'gen_get_pipeline_path',
                                               'gen_load_pipeline_from_file', 'gen_get_pipeline_definition']),
         ('pypyr/steps/pype.py', unit_pype, ['gen_get_arguments', 'gen_run_step_request']),
         ('pypyr/pipeline.py', unit_pipeline, ['gen_load_and_run_pipeline', 'gen_root_parent']),
         ('pypyr/cache/loadercache.py', unit_loadercache, ['gen_cache_key', 'gen_wrap_bare_mapping',
                                                           'gen_pype_loader_name'])]


def main():
    lines = [PRELUDE]
    bad = 0
    for src, fn, names in UNITS:
        lines.append(f'(* ---- {src} ---- *)')
        try:
            lines += fn()
        except (Untranslatable, OSError, SyntaxError, KeyError, AttributeError, IndexError) as e:
            bad += 1
            reason = str(e).replace('*)', '* )').replace('(*', '( *')
            lines.append(f'(* NOT TRANSLATED: {type(e).__name__}: {reason} *)')
            for n in names:
                lines.append(f'Definition {n}_UNTRANSLATED : unit := tt.')
        lines.append('')
    lines.append('End Gen.')
    text = '\n'.join(lines) + '\n'
    if not OUT.exists() or OUT.read_text() != text:
        OUT.write_text(text)
    print(f'{OUT}: {bad} untranslatable unit(s)')
    return 0


if __name__ == '__main__':
    sys.exit(main())
