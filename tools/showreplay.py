import json,sys
sys.path.insert(0,'/verif/harness')
import engine
d=json.load(open(sys.argv[1]))
def show(c):
    for pn,g in c['lib']:
        print('---',pn); print(engine.emit_pipeline(g, c.get('flow') if 'c' in dir() else False)[0])
    print({k:c.get(k) for k in ('groups','success','failure','jit')}, 'dict_in' , c.get('dict_in'))
c=d['case']; show(c)
o=d['impl_observation']
print('IMPL outcome',o['outcome']); print('trace'); 
for e in o['trace']: print('  ',e)
print('sleeps',o['sleeps']); print('ctx',o['ctx']); print(o['eid_pattern'])
print('MODEL', d.get('model_observation',{}).get('model'))
print('monitor', d.get('monitor'))
