import json,sys
sys.path.insert(0,'/verif/harness')
import engine
d=json.load(open(sys.argv[1]))
c=d['case']
for pn,g in c['lib']:
    print('---',pn); print(engine.emit_pipeline(g)[0])
print({k:c.get(k) for k in ('groups','success','failure','jit')}, c.get('dict_in'))
o=d['impl_observation']
print('IMPL',o['outcome'], [e['l'][:4] for e in o['trace']], 'sleeps',o['sleeps'])
print('runErrors',[(e.get('name'),e.get('description'),e.get('step'),e.get('swallowed')) for e in engine.run_errors(o)])
print('MON',d['monitor']['clause'], d['monitor']['message'][:900])
