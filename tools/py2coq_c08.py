"""Tie B for C08 / C09: regenerate coq/theories/Gen/GenC08.v from the CURRENT source (under
$VERIF_REPO, default /repo) of pypyr/formatting.py

  * RecursionSpec.__init__                       -> gen_RecursionSpec
  * RecursiveFormatter._FORMAT_SPEC_RECURSION_DEPTH, __init__ (which attributes hold the
    passthrough / special types)
  * RecursiveFormatter._format_keep_type         -> gen_format_keep_type (+ its loop body)
  * RecursiveFormatter._get_formatted_iterable   -> gen_get_formatted_iterable
  * RecursiveFormatter.vformat                   -> gen_vformat

from pypyr/dsl.py the `get_value` of the special tags PyString / SicString / Jsonify
(-> gen_<Tag>_get_value; context.get_eval_string, context.get_formatted_value and json.dumps stay
abstract), and, from pypyr/context.py, how Context builds the formatter (`formatter =
RecursiveFormatter(special_types=...)`) and calls it (`self.formatter.vformat(v, None, self)`).
Proofs/GenC08Proofs.v proves the generated definitions equal, for all inputs, to the hand model
(Model/Format.v: mk_rspec, keep_type, iter_body / fmt_iter, format_value).

Fail-closed: anything outside the subset below makes the definition come out under the name
<gen_name>_UNTRANSLATED (reason in a comment), so every lemma that mentions the expected name
stops compiling.

What stays abstract (Section variables of the generated file, instantiated in the proofs by the
hand model): CPython's string.Formatter.parse (the C tokenizer), get_field, _vformat (format-spec
expansion), convert_field, format_field, and `.get_value(context)` of the special tags.  The
translator checks that RecursiveFormatter does not override any of them.

Translation (monadic, over `res`; continuation of an `if` duplicated unless both branches only
rebind names, then the rebinding is joined):
  dropped as effect-free: docstrings, logger.* calls, `used_args` book-keeping
      (`used_args = set()`, `used_args.add(x)`, `self.check_unused_args(...)`: a no-op in CPython),
      and the `memo` idiom of _get_formatted_iterable (`if memo is None: memo = {}`,
      `x = id(obj)`, `y = memo.get(x, None)`, `if y is not None: return y`,
      `[if new is not obj:] memo[x] = new` where `new` is what is returned afterwards):
      memoising by identity inside one top-level call cannot change a result.  A call that
      shares `memo` must pass `is_recursive` on unchanged, otherwise that is not true: refused.
  `args`, `kwargs`, `used_args` are ambient: every call must pass them on under the same names.
  x = e                        let x1 := e in ...                (fresh name per binding)
  a, b = e                     let '(a1, b1) := e in ...
  x += k                       auto_add / Z addition
  l.append(e)                  let l2 := l1 ++ [e] in ...        (element type from LOCAL_LISTS)
  r.attr = v                   functional record update; refused once r has been stored elsewhere
  for a,b,c,d in self.parse(s) for_parse over the (items, tail) of the tokenizer; the body becomes a
                               separate definition <name>_body over the tuple of the outer names it
                               rebinds; c, d exist only where `b is not None`
  raise E('literal')           Err "E" "literal"
  return e                     Ok e
  effectful calls (self.get_field, self._vformat, self.convert_field, self.format_field,
  self._format_keep_type, self._get_formatted_iterable = the recursion knot, obj.get_value,
  l[0], attribute of a possibly-None object, str <- object) are sequenced with let* in Python's
  evaluation order.
  expressions: names, constants, not/and/or with Python truthiness by type, ==, <, is [not] None,
  is False, `c in s`, len, str, isinstance against classes of KNOWN_CLASSES (imported names are
  checked), s.isdigit(), s[:n] / s[n:], tuples, x if c else y, list comprehensions and
  generator expressions (mapM), ''.join(list), obj.items(), obj.__class__(generator),
  RecursionSpec(spec).
  isinstance: besides being translated (isinst_any over the value universe), the class tuples of
  every isinstance test of a method are emitted as data (gen_<method>_isinstance_tests); the proofs
  run that ladder over a table of Python types the value universe lacks (bytearray, frozenset, ...).
"""
import ast
import os
import re
import sys
from pathlib import Path

REPO = Path(os.environ.get('VERIF_REPO', '/repo'))
OUT = Path(__file__).resolve().parent.parent / 'coq' / 'theories' / 'Gen' / 'GenC08.v'


class Untranslatable(Exception):
    pass


class NotSimple(Exception):
    """an `if` whose branches do more than rebind names: fall back to duplicating the rest"""


def coq_str(s):
    if any(ord(c) < 32 or ord(c) > 126 for c in s):
        raise Untranslatable('non-printable constant')
    return '"' + s.replace('"', '""') + '"'


def is_logging(st):
    return (isinstance(st, ast.Expr) and isinstance(st.value, ast.Call)
            and isinstance(st.value.func, ast.Attribute) and isinstance(st.value.func.value, ast.Name)
            and st.value.func.value.id == 'logger')


def is_doc(st):
    return isinstance(st, ast.Expr) and isinstance(st.value, ast.Constant) and isinstance(st.value.value, str)


def strip(body):
    return [st for st in body if not is_doc(st) and not is_logging(st) and not isinstance(st, ast.Pass)]


def find(tree, qual):
    body, node = tree.body, None
    for p in qual.split('.'):
        node = next((n for n in body if isinstance(n, (ast.FunctionDef, ast.ClassDef)) and n.name == p), None)
        if node is None:
            raise Untranslatable(f'{qual} not found')
        body = node.body
    return node


# ---------------------------------------------------------------- types
RSPEC_FIELDS = [('has_recursed', 'bool'), ('is_set', 'bool'), ('is_recursive', 'bool'), ('is_flat', 'bool'),
                ('format_spec', 'string')]
ENTRY = ('tuple', ('val', 'bool', ('option', 'rspec')))
COQ_TY = {'rspec': 'src_rspec', 'conv': '(option ascii)', 'parse': '(list item * ptail)'}

# classes isinstance may name: the table Model/FormatSrc.v classes_of knows; where they must come from
KNOWN_CLASSES = {'str': None, 'bytes': None, 'bytearray': None, 'list': None, 'tuple': None, 'dict': None,
                 'int': None, 'float': None, 'bool': None,
                 'Mapping': 'collections.abc', 'Sequence': 'collections.abc', 'Set': 'collections.abc',
                 'SpecialTagDirective': 'pypyr.dsl', 'PyString': 'pypyr.dsl', 'SicString': 'pypyr.dsl',
                 'Jsonify': 'pypyr.dsl'}

AMBIENT = ('args', 'kwargs', 'used_args')

# string.Formatter methods left abstract: python parameter names -> types; coq primitive; result
PRIMS = {
    'parse': dict(params=[('format_string', 'string')], coq='prim_parse', ret='parse', monadic=False),
    'get_field': dict(params=[('field_name', 'string'), ('args', 'ambient'), ('kwargs', 'ambient')],
                      coq='prim_get_field', ret=('tuple', ('val', 'val')), monadic=True),
    '_vformat': dict(params=[('format_string', 'string'), ('args', 'ambient'), ('kwargs', 'ambient'),
                             ('used_args', 'ambient'), ('recursion_depth', 'Z'), ('auto_arg_index', 'autoidx')],
                     defaults={'auto_arg_index': '(AutoAt 0%Z)'},
                     coq='prim_vformat', ret=('tuple', ('string', 'autoidx')), monadic=True),
    'convert_field': dict(params=[('value', 'val'), ('conversion', 'conv')], coq='prim_convert_field',
                          ret='val', monadic=True),
    'format_field': dict(params=[('value', 'val'), ('format_spec', 'string')], coq='prim_format_field',
                         ret='string', monadic=True),
}
NOOPS = ('check_unused_args',)        # string.Formatter.check_unused_args: `pass`

# parameter types of the translated methods (by python parameter name)
SIGS = {
    '_format_keep_type': dict(coq='gen_format_keep_type', ret='val',
                              params={'format_string': 'string', 'args': 'ambient', 'kwargs': 'ambient',
                                      'used_args': 'ambient', 'recursion_depth': 'Z',
                                      'auto_arg_index': 'autoidx', 'is_recursive': 'bool'}),
    '_get_formatted_iterable': dict(coq='gen_get_formatted_iterable', ret='val', rec='rec_get_formatted_iterable',
                                    params={'obj': 'val', 'args': 'ambient', 'kwargs': 'ambient',
                                            'used_args': 'ambient', 'memo': 'memo', 'is_recursive': 'bool'}),
    'vformat': dict(coq='gen_vformat', ret='val',
                    params={'format_string': 'val', 'args': 'ambient', 'kwargs': 'ambient'}),
}
ORDER = ['_format_keep_type', '_get_formatted_iterable', 'vformat']
# element type of the list-valued locals (`x = []`) of a method: a modelling decision, python
# tuples are heterogeneous
LOCAL_LISTS = {'_format_keep_type': ENTRY}


def ty_str(t):
    if isinstance(t, str):
        return COQ_TY.get(t, t)
    if t[0] == 'option':
        return f'(option {ty_str(t[1])})'
    if t[0] == 'list':
        return f'(list {ty_str(t[1])})'
    if t[0] == 'tuple':
        return '(' + ' * '.join(ty_str(x) for x in t[1]) + ')'
    raise Untranslatable(f'type {t!r} has no Coq counterpart')


def tup(terms):
    return terms[0] if len(terms) == 1 else '(' + ', '.join(terms) + ')'


def pat(names):
    return names[0] if len(names) == 1 else "'(" + ', '.join(names) + ')'


def wrap(binds, body):
    for p, m in reversed(binds):
        body = f'(let* {p} := {m} in {body})'
    return body


def ret_m(binds, term):
    """`Ok term` after the bindings; a final `let* x := m in Ok x` is just m"""
    if binds and binds[-1][0] == term:
        return wrap(binds[:-1], binds[-1][1])
    return wrap(binds, f'(Ok {term})')


class Tr:
    """one function"""

    def __init__(self, unit, fname):
        self.unit = unit
        self.fname = fname
        self.n = 0
        self.aux = []
        self.parts = {}        # coq text of a tuple -> [(term, type)]
        self.params = {}       # python parameter name -> coq name, for the memo rule

    def fresh(self, base):
        self.n += 1
        return f'{base.replace(".", "_")}{self.n}'

    # ------------------------------------------------------------ coercions
    def coerce(self, binds, term, ty, want):
        """-> term of type want (may add a binding)"""
        if want is None or want == ty:
            return term
        if want == 'val' and ty == 'string':
            return f'(VStr {term})'
        if want == 'string' and ty == 'val':
            x = self.fresh('s')
            binds.append((x, f'as_str {term}'))
            return x
        if isinstance(want, tuple) and want[0] == 'option':
            if ty == 'none':
                return 'None'
            return f'(Some {self.coerce(binds, term, ty, want[1])})'
        if isinstance(want, tuple) and want[0] == 'tuple' and isinstance(ty, tuple) and ty[0] == 'tuple' \
                and len(want[1]) == len(ty[1]) and term in self.parts:
            return tup([self.coerce(binds, t, tt, w) for (t, tt), w in zip(self.parts[term], want[1])])
        if isinstance(want, tuple) and want[0] == 'list' and ty == 'emptylist':
            return '[]'
        raise Untranslatable(f'{ty_str(ty) if ty not in ("none", "emptylist") else ty} where {ty_str(want)} expected')

    # ------------------------------------------------------------ expressions
    def ev(self, e, env, want=None):
        """-> (bindings in evaluation order, pure coq term, type); may narrow env in place"""
        if isinstance(e, ast.Name):
            if e.id not in env:
                raise Untranslatable(f'unknown name {e.id}')
            t, ty = env[e.id]
            if ty in ('poison', 'ambient', 'memo', 'idof', 'memohit', 'bookkeeping', 'ofield') \
                    or (isinstance(ty, tuple) and ty[0] == 'ofield'):
                raise Untranslatable(f'{e.id} used as a value')
            if ty == 'rspec' or ty == ('option', 'rspec'):
                env['__esc__'] = env.get('__esc__', frozenset()) | {t}
            return [], t, ty
        if isinstance(e, ast.Constant):
            v = e.value
            if v is None:
                return [], 'None', 'none'
            if isinstance(v, bool):
                if want == 'autoidx' and v is False:
                    return [], 'AutoOff', 'autoidx'
                return [], ('true' if v else 'false'), 'bool'
            if isinstance(v, int):
                if v < 0:
                    raise Untranslatable('negative constant')
                if want == 'nat':
                    return [], str(v), 'nat'
                if want == 'autoidx':
                    return [], f'(AutoAt {v}%Z)', 'autoidx'
                return [], f'{v}%Z', 'Z'
            if isinstance(v, str):
                return [], coq_str(v), 'string'
            raise Untranslatable(f'constant {v!r}')
        if isinstance(e, ast.Attribute):
            return self.attribute(e, env)
        if isinstance(e, ast.UnaryOp) and isinstance(e.op, ast.Not):
            b, t = self.truth(e.operand, env)
            return b, f'(negb {t})', 'bool'
        if isinstance(e, ast.BoolOp):
            return self.boolop(e, env)
        if isinstance(e, ast.Compare) and len(e.ops) == 1:
            return self.compare(e, env)
        if isinstance(e, ast.BinOp) and isinstance(e.op, (ast.Add, ast.Sub)):
            ba, a, ta = self.ev(e.left, env, 'Z')
            bb, b, tb = self.ev(e.right, env, 'Z')
            if ta != 'Z' or tb != 'Z':
                raise Untranslatable('arithmetic on non-integers')
            return ba + bb, f'({a} {"+" if isinstance(e.op, ast.Add) else "-"} {b})%Z', 'Z'
        if isinstance(e, ast.IfExp):
            bc, c = self.truth(e.test, env)
            ea, eb = dict(env), dict(env)
            ba, a, ta = self.ev(e.body, ea, want)
            bb, b, tb = self.ev(e.orelse, eb, want)
            ty = ta if ta == tb else ('val' if {ta, tb} == {'val', 'string'} else None)
            if ty is None:
                raise Untranslatable('branches of a conditional expression differ in type')
            a = self.coerce(ba, a, ta, ty)
            b = self.coerce(bb, b, tb, ty)
            if not ba and not bb:
                return bc, f'(if {c} then {a} else {b})', ty
            x = self.fresh('x')
            return bc + [(x, f'(if {c} then {ret_m(ba, a)} else {ret_m(bb, b)})')], x, ty
        if isinstance(e, ast.Tuple):
            binds, items = [], []
            for x in e.elts:
                b, t, ty = self.ev(x, env)
                binds += b
                items.append((t, ty))
            term = tup([t for t, _ in items])
            self.parts[term] = items
            return binds, term, ('tuple', tuple(ty for _, ty in items))
        if isinstance(e, ast.List):
            if not e.elts:
                return [], '[]', 'emptylist'
            raise Untranslatable('list display')
        if isinstance(e, (ast.ListComp, ast.GeneratorExp)):
            return self.comprehension(e, env)
        if isinstance(e, ast.Subscript):
            return self.subscript(e, env)
        if isinstance(e, ast.Call):
            return self.call(e, env)
        raise Untranslatable(f'expression {type(e).__name__}')

    def attribute(self, e, env):
        if isinstance(e.value, ast.Name) and e.value.id == 'self':
            if e.attr in self.unit.consts:
                return [], f'gen{e.attr}', 'Z'
            raise Untranslatable(f'self.{e.attr} as a value')
        if isinstance(e.value, ast.Name) and e.value.id in env:
            t, ty = env[e.value.id]
            fields = dict(RSPEC_FIELDS)
            if ty == ('option', 'rspec'):
                if e.attr not in fields:
                    raise Untranslatable(f'attribute {e.attr}')
                x = self.fresh(e.value.id + '_')
                env[e.value.id] = (x, 'rspec')       # from here on it is known not to be None
                return [(x, f'need_attr {t} {coq_str(e.attr)}')], f'(rs_{e.attr} {x})', fields[e.attr]
            if ty == 'rspec':
                if e.attr not in fields:
                    raise Untranslatable(f'attribute {e.attr}')
                return [], f'(rs_{e.attr} {t})', fields[e.attr]
        raise Untranslatable(f'attribute {ast.unparse(e)}')

    def truth(self, e, env):
        """python truthiness -> (bindings, bool term)"""
        b, t, ty = self.ev(e, env)
        if ty == 'bool':
            return b, t
        if ty == 'string':
            return b, f'(negb (String.eqb {t} ""))'
        if ty == 'val':
            return b, f'(py_truth {t})'
        if ty == 'autoidx':
            return b, f'(auto_truth {t})'
        if ty == 'Z':
            return b, f'(negb (Z.eqb {t} 0))'
        if isinstance(ty, tuple) and ty[0] == 'list':
            return b, f'(negb (is_nil {t}))'
        raise Untranslatable(f'truthiness of {ty if isinstance(ty, str) else ty_str(ty)}')

    def class_attr(self, e):
        return (isinstance(e, ast.Attribute) and isinstance(e.value, ast.Name) and e.value.id == 'self'
                and e.attr in self.unit.type_attrs)

    def boolop(self, e, env):
        # `self.X and isinstance(obj, self.X)`: X is None, a class or a tuple of classes
        if isinstance(e.op, ast.And) and len(e.values) == 2 and self.class_attr(e.values[0]):
            c = e.values[1]
            if isinstance(c, ast.Call) and isinstance(c.func, ast.Name) and c.func.id == 'isinstance' \
                    and len(c.args) == 2 and not c.keywords and self.class_attr(c.args[1]) \
                    and c.args[1].attr == e.values[0].attr:
                b, t, ty = self.ev(c.args[0], env)
                if ty != 'val':
                    raise Untranslatable('isinstance on a non-object')
                return b, f'(isinst_opt {t} {e.values[0].attr})', 'bool'
        binds, ts = [], []
        for i, v in enumerate(e.values):
            b, t = self.truth(v, dict(env) if i else env)
            if b and i:
                raise Untranslatable('effect in a short-circuited operand')
            binds += b
            ts.append(t)
        op = 'andb' if isinstance(e.op, ast.And) else 'orb'
        acc = ts[-1]
        for t in reversed(ts[:-1]):
            acc = f'({op} {t} {acc})'
        return binds, acc, 'bool'

    def compare(self, e, env):
        op, rhs = e.ops[0], e.comparators[0]
        if isinstance(op, (ast.Is, ast.IsNot)) and isinstance(rhs, ast.Constant) and rhs.value is None:
            b, t, ty = self.ev(e.left, env)
            if ty == 'none':
                r = 'true'
            elif isinstance(ty, tuple) and ty[0] == 'option' or ty == 'conv':
                r = f'(match {t} with None => true | Some _ => false end)'
            else:
                raise Untranslatable('is None on something that cannot be None')
            return b, (r if isinstance(op, ast.Is) else f'(negb {r})'), 'bool'
        if isinstance(op, (ast.Is, ast.IsNot)) and isinstance(rhs, ast.Constant) and rhs.value is False:
            b, t, ty = self.ev(e.left, env)
            if ty != 'autoidx':
                raise Untranslatable('is False')
            r = f'(auto_is_false {t})'
            return b, (r if isinstance(op, ast.Is) else f'(negb {r})'), 'bool'
        if isinstance(op, (ast.In, ast.NotIn)) and isinstance(e.left, ast.Constant) \
                and isinstance(e.left.value, str) and len(e.left.value) == 1:
            b, t, ty = self.ev(rhs, env)
            t = self.coerce(b, t, ty, 'string')
            ch = e.left.value
            if not (32 <= ord(ch) < 127) or ch == '"':
                raise Untranslatable('character constant')
            r = f'(contains_char "{ch}"%char {t})'
            return b, (r if isinstance(op, ast.In) else f'(negb {r})'), 'bool'
        if isinstance(op, (ast.Eq, ast.NotEq, ast.Lt, ast.LtE, ast.Gt, ast.GtE)):
            ba, a, ta = self.ev(e.left, env)
            bb, b, tb = self.ev(rhs, env, ta)
            if ta != tb:
                raise Untranslatable('comparison of different types')
            if isinstance(op, (ast.Eq, ast.NotEq)):
                fn = {'string': 'String.eqb', 'nat': 'Nat.eqb', 'Z': 'Z.eqb', 'bool': 'Bool.eqb'}.get(ta)
                if fn is None:
                    raise Untranslatable(f'== on {ta}')
                r = f'({fn} {a} {b})'
                return ba + bb, (r if isinstance(op, ast.Eq) else f'(negb {r})'), 'bool'
            if ta not in ('Z', 'nat'):
                raise Untranslatable('ordering on non-integers')
            m = 'Z' if ta == 'Z' else 'Nat'
            if isinstance(op, (ast.Gt, ast.GtE)):
                a, b = b, a
            fn = f'{m}.ltb' if isinstance(op, (ast.Lt, ast.Gt)) else f'{m}.leb'
            return ba + bb, f'({fn} {a} {b})', 'bool'
        if isinstance(op, (ast.Is, ast.IsNot)):
            raise Untranslatable('identity comparison: ' + ast.unparse(e))
        raise Untranslatable('comparison ' + ast.unparse(e))

    def subscript(self, e, env):
        b, t, ty = self.ev(e.value, env)
        s = e.slice
        if isinstance(s, ast.Slice):
            if ty != 'string' or s.step is not None:
                raise Untranslatable('slice')

            def bound(x):
                if isinstance(x, ast.Constant) and isinstance(x.value, int) and not isinstance(x.value, bool) \
                        and x.value >= 0:
                    return x.value
                raise Untranslatable('slice bound')
            if s.lower is None and s.upper is not None:
                return b, f'(str_take {bound(s.upper)} {t})', 'string'
            if s.upper is None and s.lower is not None:
                return b, f'(str_drop {bound(s.lower)} {t})', 'string'
            raise Untranslatable('slice form')
        if isinstance(ty, tuple) and ty[0] == 'list' and isinstance(s, ast.Constant) and isinstance(s.value, int) \
                and not isinstance(s.value, bool) and s.value >= 0:
            x = self.fresh('e')
            return b + [(x, f'list_get {t} {s.value}')], x, ty[1]
        raise Untranslatable('subscript')

    def comprehension(self, e, env):
        if len(e.generators) != 1 or e.generators[0].ifs or e.generators[0].is_async:
            raise Untranslatable('comprehension form')
        g = e.generators[0]
        binds = []
        it = g.iter
        if isinstance(it, ast.Call) and isinstance(it.func, ast.Attribute) and it.func.attr == 'items' \
                and not it.args and not it.keywords:
            b, t, ty = self.ev(it.func.value, env)
            if ty != 'val':
                raise Untranslatable('.items() of a non-object')
            xs = self.fresh('items')
            binds = b + [(xs, f'py_items {t}')]
            elty = ('tuple', ('val', 'val'))
        else:
            b, t, ty = self.ev(it, env)
            if ty == 'val':
                xs = self.fresh('items')
                binds = b + [(xs, f'py_iter {t}')]
                elty = 'val'
            elif isinstance(ty, tuple) and ty[0] == 'list':
                xs, binds, elty = t, b, ty[1]
            else:
                raise Untranslatable('iteration over ' + (ty if isinstance(ty, str) else ty_str(ty)))
        x = self.fresh('x')
        sub, prefix = self.bind_target(g.target, x, elty, dict(env))
        bb, bt, bty = self.ev(e.elt, sub)
        ys = self.fresh('ys')
        binds.append((ys, f'mapM (fun {x} : {ty_str(elty)} => {prefix}{ret_m(bb, bt)}) {xs}'))
        return binds, ys, ('list', bty)

    def bind_target(self, target, x, ty, env):
        if isinstance(target, ast.Name):
            if target.id in AMBIENT:
                raise Untranslatable(f'{target.id} rebound')
            env[target.id] = (x, ty)
            return env, ''
        if isinstance(target, ast.Tuple) and isinstance(ty, tuple) and ty[0] == 'tuple' \
                and len(target.elts) == len(ty[1]) and all(isinstance(t, ast.Name) for t in target.elts):
            names = []
            for t, tty in zip(target.elts, ty[1]):
                if t.id in AMBIENT:
                    raise Untranslatable(f'{t.id} rebound')
                nm = self.fresh(t.id)
                names.append(nm)
                env[t.id] = (nm, tty)
            return env, f"let '({', '.join(names)}) := {x} in "
        raise Untranslatable('assignment / loop target')

    def call(self, e, env):
        f = e.func
        if isinstance(f, ast.Name):
            if f.id == 'len' and len(e.args) == 1 and not e.keywords:
                b, t, ty = self.ev(e.args[0], env)
                if not (isinstance(ty, tuple) and ty[0] == 'list'):
                    raise Untranslatable('len of a non-list')
                return b, f'(List.length {t})', 'nat'
            if f.id == 'str' and len(e.args) == 1 and not e.keywords:
                b, t, ty = self.ev(e.args[0], env)
                if ty == 'autoidx':
                    return b, f'(auto_str {t})', 'string'
                if ty == 'Z':
                    return b, f'(str_of_Z {t})', 'string'
                raise Untranslatable('str() of ' + (ty if isinstance(ty, str) else ty_str(ty)))
            if f.id == 'isinstance' and len(e.args) == 2 and not e.keywords:
                b, t, ty = self.ev(e.args[0], env)
                if ty != 'val':
                    raise Untranslatable('isinstance on a non-object')
                cs = e.args[1].elts if isinstance(e.args[1], ast.Tuple) else [e.args[1]]
                names = []
                for c in cs:
                    if not isinstance(c, ast.Name) or c.id not in KNOWN_CLASSES:
                        raise Untranslatable(f'isinstance against {ast.unparse(c)}')
                    self.unit.check_class_name(c.id)
                    names.append(coq_str(c.id))
                return b, f'(isinst_any {t} [{"; ".join(names)}])', 'bool'
            if f.id == 'RecursionSpec' and len(e.args) == 1 and not e.keywords:
                if 'gen_RecursionSpec' not in self.unit.defined:
                    raise Untranslatable('RecursionSpec could not be translated')
                b, t, ty = self.ev(e.args[0], env)
                t = self.coerce(b, t, ty, 'string')
                return b, f'(gen_RecursionSpec {t})', 'rspec'
            raise Untranslatable(f'call of {f.id}')
        if not isinstance(f, ast.Attribute):
            raise Untranslatable('call form')
        if isinstance(f.value, ast.Constant) and isinstance(f.value.value, str) and f.attr == 'join' \
                and len(e.args) == 1 and not e.keywords:
            b, t, ty = self.ev(e.args[0], env)
            if ty == ('list', 'string'):
                return b, f'(join {coq_str(f.value.value)} {t})', 'string'
            if ty == ('list', 'val'):
                x = self.fresh('joined')
                return b + [(x, f'str_join_vals {coq_str(f.value.value)} {t}')], x, 'string'
            raise Untranslatable('join of ' + ty_str(ty))
        if f.attr == 'isdigit' and not e.args and not e.keywords:
            b, t, ty = self.ev(f.value, env)
            if ty != 'string':
                raise Untranslatable('isdigit on a non-string')
            return b, f'(isdigit {t})', 'bool'
        if isinstance(f.value, ast.Name) and f.value.id == 'self':
            return self.self_call(e, env)
        if f.attr == 'get_value' and len(e.args) == 1 and not e.keywords \
                and isinstance(e.args[0], ast.Name) and e.args[0].id == 'kwargs' \
                and env.get('kwargs', (None, None))[1] == 'ambient':
            b, t, ty = self.ev(f.value, env)
            if ty != 'val':
                raise Untranslatable('get_value on a non-object')
            x = self.fresh('value')
            return b + [(x, f'prim_get_value {t}')], x, 'val'
        if f.attr == '__class__' and len(e.args) == 1 and not e.keywords:
            bo, o, oty = self.ev(f.value, env)
            if oty != 'val':
                raise Untranslatable('__class__ of a non-object')
            b, t, ty = self.ev(e.args[0], env)
            x = self.fresh('built')
            if ty == ('list', ('tuple', ('val', 'val'))):
                return bo + b + [(x, f'class_call_pairs {o} {t}')], x, 'val'
            if ty == ('list', 'val'):
                return bo + b + [(x, f'class_call_items {o} {t}')], x, 'val'
            raise Untranslatable('constructor argument')
        raise Untranslatable(f'call of .{f.attr}')

    def self_call(self, e, env):
        name = e.func.attr
        if name in PRIMS:
            if name in self.unit.overridden:
                raise Untranslatable(f'{name} is overridden by RecursiveFormatter: no longer CPython\'s')
            sig = PRIMS[name]
            params, defaults = sig['params'], sig.get('defaults', {})
            target, ret, monadic = sig['coq'], sig['ret'], sig['monadic']
        elif name in SIGS:
            src = self.unit.signature(name)
            params, defaults = src['params'], src['defaults']
            ret, monadic = SIGS[name]['ret'], True
            if name in self.unit.defined_methods:
                target = SIGS[name]['coq']
            elif 'rec' in SIGS[name]:
                target = SIGS[name]['rec']
            else:
                raise Untranslatable(f'forward call to {name}')
        else:
            raise Untranslatable(f'call of self.{name}')
        given, order = {}, []
        if len(e.args) > len(params) or any(isinstance(a, ast.Starred) for a in e.args):
            raise Untranslatable('positional arguments')
        for (pn, _), a in zip(params, e.args):
            given[pn] = a
            order.append(pn)
        for kw in e.keywords:
            if kw.arg is None or kw.arg not in dict(params) or kw.arg in given:
                raise Untranslatable(f'keyword {kw.arg}')
            given[kw.arg] = kw.value
            order.append(kw.arg)
        binds, vals = [], {}
        for pn in order:                       # evaluation order: as written
            pty, a = dict(params)[pn], given[pn]
            if pty == 'ambient':
                if not (isinstance(a, ast.Name) and a.id == pn and env.get(pn, (None, None))[1] == 'ambient'):
                    raise Untranslatable(f'{pn} is not passed on unchanged')
                vals[pn] = None
            elif pty == 'memo':
                if isinstance(a, ast.Constant) and a.value is None:
                    vals[pn] = ('fresh',)
                elif isinstance(a, ast.Name) and a.id == 'memo' and env.get('memo', (None, None))[1] == 'memo':
                    vals[pn] = ('shared',)
                else:
                    raise Untranslatable('memo argument')
            else:
                b, t, ty = self.ev(a, env, pty)
                vals[pn] = self.coerce(b, t, ty, pty)
                binds += b
        args = []
        for pn, pty in params:
            if pn not in vals:
                if pty == 'ambient':
                    raise Untranslatable(f'{pn} not passed')
                if pty == 'memo':
                    vals[pn] = ('fresh',)
                elif pn in defaults:
                    vals[pn] = defaults[pn]
                else:
                    raise Untranslatable(f'missing argument {pn}')
            if pty == 'memo':
                if vals[pn] == ('shared',) and vals.get('is_recursive') != self.params.get('is_recursive'):
                    raise Untranslatable('memo is shared with a call that changes is_recursive: a cached '
                                         'result could be returned for the other mode')
                continue
            if vals[pn] is not None:
                args.append(vals[pn])
        callt = f'{target} {" ".join(args)}'
        if not monadic:
            return binds, f'({callt})', ret
        x = self.fresh('r')
        return binds + [(x, callt)], x, ret

    # ------------------------------------------------------------ statements
    def stmts(self, body, env, kont):
        body = strip(body)
        if not body:
            return kont(env)
        st, rest = body[0], body[1:]
        go = lambda env2: self.stmts(rest, env2, kont)     # noqa: E731
        drop = self.bookkeeping(st, env)
        if drop is not None:
            return go(drop)
        if isinstance(st, ast.Return):
            if not isinstance(kont, FunctionEnd):
                raise Untranslatable('return inside a loop')
            if st.value is None:
                return '(Ok VNone)'
            b, t, ty = self.ev(st.value, env, 'val')
            if ty == 'none':
                t, ty = 'VNone', 'val'
            t = self.coerce(b, t, ty, 'val')
            if '__memo_stored__' in env and env['__memo_stored__'] != t:
                raise Untranslatable('what was memoised is not what is returned')
            return ret_m(b, t)
        if isinstance(st, ast.Raise):
            x = st.exc
            if isinstance(x, ast.Call) and isinstance(x.func, ast.Name) and len(x.args) == 1 and not x.keywords \
                    and isinstance(x.args[0], ast.Constant) and isinstance(x.args[0].value, str) \
                    and st.cause is None and x.func.id in ('ValueError', 'TypeError', 'KeyError', 'RuntimeError'):
                return f'(Err {coq_str(x.func.id)} {coq_str(x.args[0].value)})'
            raise Untranslatable('raise form')
        if isinstance(st, ast.AugAssign) and isinstance(st.target, ast.Name) and isinstance(st.op, ast.Add):
            x = st.target.id
            if x not in env:
                raise Untranslatable(f'unknown name {x}')
            t, ty = env[x]
            b, v, vty = self.ev(st.value, env, 'Z')
            if vty != 'Z':
                raise Untranslatable('+= of a non-integer')
            nm = self.fresh(x)
            if ty == 'autoidx':
                new = f'auto_add {t} {v}'
            elif ty == 'Z':
                new = f'({t} + {v})%Z'
            else:
                raise Untranslatable('+= on ' + (ty if isinstance(ty, str) else ty_str(ty)))
            return wrap(b, f'(let {nm} := {new} in {go({**env, x: (nm, ty)})})')
        if isinstance(st, ast.Assign) and len(st.targets) == 1:
            tg = st.targets[0]
            if isinstance(tg, ast.Name):
                if env.get(tg.id, (None, None))[1] in ('ambient', 'memo'):
                    raise Untranslatable(f'{tg.id} rebound')
                want = env[tg.id][1] if tg.id in env and isinstance(env[tg.id][1], str) \
                    and env[tg.id][1] in ('autoidx', 'Z', 'bool', 'string', 'val') else None
                b, t, ty = self.ev(st.value, env, want)
                if ty == 'emptylist':
                    elty = LOCAL_LISTS.get(self.fname)
                    if elty is None:
                        raise Untranslatable(f'element type of the list {tg.id} is not declared')
                    ty = ('list', elty)
                    t = f'(@nil {ty_str(elty)})'
                if ty == 'none':
                    raise Untranslatable('None bound to a name')
                if want is not None:
                    t = self.coerce(b, t, ty, want)
                    ty = want
                nm = self.fresh(tg.id)
                return wrap(b, f'(let {nm} := {t} in {go({**env, tg.id: (nm, ty)})})')
            if isinstance(tg, ast.Tuple):
                b, t, ty = self.ev(st.value, env)
                sub, prefix = self.bind_target(tg, t, ty, dict(env))
                return wrap(b, f'({prefix}{go(sub)})')
            if isinstance(tg, ast.Attribute) and isinstance(tg.value, ast.Name) and tg.value.id in env \
                    and env[tg.value.id][1] == 'rspec' and tg.attr in dict(RSPEC_FIELDS):
                r, _ = env[tg.value.id]
                if r in env.get('__esc__', frozenset()):
                    raise Untranslatable(f'{tg.value.id}.{tg.attr} assigned after the object was stored '
                                         f'elsewhere (aliasing)')
                fty = dict(RSPEC_FIELDS)[tg.attr]
                b, t, ty = self.ev(st.value, env, fty)
                t = self.coerce(b, t, ty, fty)
                nm = self.fresh(tg.value.id)
                return wrap(b, f'(let {nm} := rs_set_{tg.attr} {t} {r} in {go({**env, tg.value.id: (nm, "rspec")})})')
            raise Untranslatable('assignment target')
        if isinstance(st, ast.Expr) and isinstance(st.value, ast.Call) and isinstance(st.value.func, ast.Attribute) \
                and st.value.func.attr == 'append' and isinstance(st.value.func.value, ast.Name) \
                and len(st.value.args) == 1 and not st.value.keywords:
            lname = st.value.func.value.id
            if lname not in env or not (isinstance(env[lname][1], tuple) and env[lname][1][0] == 'list'):
                raise Untranslatable('append on a non-list')
            l, lty = env[lname]
            b, t, ty = self.ev(st.value.args[0], env)
            t = self.coerce(b, t, ty, lty[1])
            nm = self.fresh(lname)
            return wrap(b, f'(let {nm} := ({l} ++ [{t}])%list in {go({**env, lname: (nm, lty)})})')
        if isinstance(st, ast.If):
            return self.if_stmt(st, rest, env, kont)
        if isinstance(st, ast.For):
            return self.for_stmt(st, rest, env, kont)
        raise Untranslatable(f'statement {type(st).__name__}: {ast.unparse(st)[:50]}')

    def bookkeeping(self, st, env):
        """statements dropped as effect-free -> the (possibly extended) env, else None"""
        amb = lambda n: env.get(n, (None, None))[1] == 'ambient'      # noqa: E731
        # used_args = set() ; used_args.add(x) ; self.check_unused_args(...)
        if isinstance(st, ast.Assign) and len(st.targets) == 1 and isinstance(st.targets[0], ast.Name) \
                and st.targets[0].id == 'used_args' and isinstance(st.value, ast.Call) \
                and isinstance(st.value.func, ast.Name) and st.value.func.id == 'set' and not st.value.args \
                and 'used_args' not in env:
            return {**env, 'used_args': ('', 'ambient')}
        if isinstance(st, ast.Expr) and isinstance(st.value, ast.Call) and isinstance(st.value.func, ast.Attribute):
            f = st.value.func
            if f.attr == 'add' and isinstance(f.value, ast.Name) and f.value.id == 'used_args' and amb('used_args') \
                    and len(st.value.args) == 1 and isinstance(st.value.args[0], ast.Name) \
                    and st.value.args[0].id in env and env[st.value.args[0].id][1] == 'val':
                return env
            if isinstance(f.value, ast.Name) and f.value.id == 'self' and f.attr in NOOPS:
                if f.attr in self.unit.overridden:
                    raise Untranslatable(f'{f.attr} is overridden: no longer a no-op')
                if all(isinstance(a, ast.Name) and amb(a.id) for a in st.value.args) and not st.value.keywords:
                    return env
        if 'memo' not in env or env['memo'][1] != 'memo':
            return None
        # if memo is None: memo = {}
        if isinstance(st, ast.If) and not st.orelse and ast.unparse(st.test) == 'memo is None' \
                and len(st.body) == 1 and ast.unparse(st.body[0]) in ('memo = {}', 'memo = dict()'):
            return env
        # x = id(obj)
        if isinstance(st, ast.Assign) and len(st.targets) == 1 and isinstance(st.targets[0], ast.Name) \
                and isinstance(st.value, ast.Call) and isinstance(st.value.func, ast.Name) \
                and st.value.func.id == 'id' and len(st.value.args) == 1 and isinstance(st.value.args[0], ast.Name) \
                and st.value.args[0].id in env and env[st.value.args[0].id][0] == self.params.get('obj') \
                and st.targets[0].id not in env:
            return {**env, st.targets[0].id: ('', 'idof')}
        # y = memo.get(x, None)
        if isinstance(st, ast.Assign) and len(st.targets) == 1 and isinstance(st.targets[0], ast.Name) \
                and isinstance(st.value, ast.Call) and ast.unparse(st.value.func) == 'memo.get' \
                and 1 <= len(st.value.args) <= 2 and isinstance(st.value.args[0], ast.Name) \
                and env.get(st.value.args[0].id, (None, None))[1] == 'idof' \
                and (len(st.value.args) == 1 or ast.unparse(st.value.args[1]) == 'None') and not st.value.keywords \
                and st.targets[0].id not in env:
            return {**env, st.targets[0].id: ('', 'memohit')}
        # if y is not None: return y
        if isinstance(st, ast.If) and not st.orelse and isinstance(st.test, ast.Compare) \
                and isinstance(st.test.left, ast.Name) and env.get(st.test.left.id, (None, None))[1] == 'memohit' \
                and ast.unparse(st.test) == f'{st.test.left.id} is not None' and len(st.body) == 1 \
                and ast.unparse(st.body[0]) == f'return {st.test.left.id}':
            return env
        # [if new is not obj:] memo[x] = new
        store = st
        if isinstance(st, ast.If) and not st.orelse and len(st.body) == 1 and isinstance(st.test, ast.Compare) \
                and len(st.test.ops) == 1 and isinstance(st.test.ops[0], (ast.Is, ast.IsNot)) \
                and isinstance(st.test.left, ast.Name) and isinstance(st.test.comparators[0], ast.Name) \
                and all(env.get(n.id, (None, None))[1] == 'val' for n in (st.test.left, st.test.comparators[0])):
            store = st.body[0]
        if isinstance(store, ast.Assign) and len(store.targets) == 1 and isinstance(store.targets[0], ast.Subscript) \
                and ast.unparse(store.targets[0].value) == 'memo' and isinstance(store.targets[0].slice, ast.Name) \
                and env.get(store.targets[0].slice.id, (None, None))[1] == 'idof' \
                and isinstance(store.value, ast.Name) and env.get(store.value.id, (None, None))[1] == 'val':
            return {**env, '__memo_stored__': env[store.value.id][0]}
        return None

    def pure_block(self, body, env):
        """a branch that only rebinds names -> ([(coq name, term)], env)"""
        lets = []
        env = dict(env)
        for st in strip(body):
            if isinstance(st, ast.If):
                lets2, env = self.join_if(st, env)
                lets += lets2
                continue
            if isinstance(st, ast.Assign) and len(st.targets) == 1 and isinstance(st.targets[0], ast.Name):
                x = st.targets[0].id
                if x not in env or not isinstance(env[x][1], str) or env[x][1] not in ('autoidx', 'Z', 'bool', 'string'):
                    raise NotSimple()
                b, t, ty = self.ev(st.value, env, env[x][1])
                if b:
                    raise NotSimple()
                t = self.coerce(b, t, ty, env[x][1])
                nm = self.fresh(x)
                lets.append((nm, t))
                env[x] = (nm, env[x][1])
                continue
            if isinstance(st, ast.Expr) and isinstance(st.value, ast.Call) and isinstance(st.value.func, ast.Attribute) \
                    and st.value.func.attr == 'append' and isinstance(st.value.func.value, ast.Name) \
                    and len(st.value.args) == 1 and not st.value.keywords:
                lname = st.value.func.value.id
                if lname not in env or not (isinstance(env[lname][1], tuple) and env[lname][1][0] == 'list'):
                    raise NotSimple()
                l, lty = env[lname]
                b, t, ty = self.ev(st.value.args[0], env)
                t = self.coerce(b, t, ty, lty[1])
                if b:
                    raise NotSimple()
                nm = self.fresh(lname)
                lets.append((nm, f'({l} ++ [{t}])%list'))
                env[lname] = (nm, lty)
                continue
            raise NotSimple()
        return lets, env

    def join_if(self, st, env):
        """`if c: <rebindings> else: <rebindings>` -> one let over the tuple of rebound names"""
        if self.narrows(st.test, env):
            raise NotSimple()
        saved_n = self.n
        b, c = self.truth(st.test, dict(env))
        if b:
            self.n = saved_n
            raise NotSimple()
        la, ea = self.pure_block(st.body, env)
        lb, eb = self.pure_block(st.orelse, env)
        changed = [x for x in env if not x.startswith('__') and (ea[x] != env[x] or eb[x] != env[x])]
        if not changed or set(ea) != set(env) or set(eb) != set(env):
            raise NotSimple()

        def branch(lets, e2):
            body = tup([e2[x][0] for x in changed])
            for nm, t in reversed(lets):
                body = f'(let {nm} := {t} in {body})'
            return body
        outs = [self.fresh(x) for x in changed]
        new_env = {**env, **{x: (o, env[x][1]) for x, o in zip(changed, outs)}}
        return [(pat(outs), f'(if {c} then {branch(la, ea)} else {branch(lb, eb)})')], new_env

    def narrows(self, test, env):
        while isinstance(test, ast.UnaryOp) and isinstance(test.op, ast.Not):
            test = test.operand
        return (isinstance(test, ast.Compare) and isinstance(test.left, ast.Name) and test.left.id in env
                and isinstance(env[test.left.id][1], tuple) and env[test.left.id][1][0] == 'ofield')

    def if_stmt(self, st, rest, env, kont):
        saved = self.n
        try:
            lets, env2 = self.join_if(st, env)
        except NotSimple:
            self.n = saved
            lets = None
        if lets is not None:
            body = self.stmts(rest, env2, kont)
            for p, t in reversed(lets):
                body = f'(let {p} := {t} in {body})'
            return body
        then = lambda e2: self.stmts(list(st.body) + rest, e2, kont)       # noqa: E731
        other = lambda e2: self.stmts(list(st.orelse) + rest, e2, kont)    # noqa: E731
        test, neg = st.test, False
        while isinstance(test, ast.UnaryOp) and isinstance(test.op, ast.Not):
            test, neg = test.operand, not neg
        if self.narrows(test, env):
            # `field_name is [not] None`: the format spec and conversion exist only with a field
            if not (len(test.ops) == 1 and isinstance(test.ops[0], (ast.Is, ast.IsNot))
                    and isinstance(test.comparators[0], ast.Constant) and test.comparators[0].value is None):
                raise Untranslatable('test on a field name that may be None')
            name = test.left.id
            fld, (_, spec_name, conv_name) = env[name]
            fn, fs, cv = self.fresh(name), self.fresh(spec_name), self.fresh(conv_name)
            some_env = {**env, name: (fn, 'string'), spec_name: (fs, 'string'), conv_name: (cv, 'conv')}
            none_env = {**env, name: ('None', 'none')}
            is_some = isinstance(test.ops[0], ast.IsNot) != neg
            a = then(some_env) if is_some else other(some_env)
            b = other(none_env) if is_some else then(none_env)
            return f'(match {fld} with Some ({fn}, {fs}, {cv}) => {a} | None => {b} end)'
        env = dict(env)
        b, c = self.truth(st.test, env)          # may narrow env for both branches
        return wrap(b, f'(if {c} then {then(dict(env))} else {other(dict(env))})')

    def for_stmt(self, st, rest, env, kont):
        if st.orelse:
            raise Untranslatable('for/else')
        if not isinstance(kont, FunctionEnd):
            raise Untranslatable('nested loop')
        b, it, ity = self.ev(st.iter, env)
        if ity != 'parse' or b:
            raise Untranslatable('only `for ... in self.parse(s)` loops are translated')
        tg = st.target
        if not (isinstance(tg, ast.Tuple) and len(tg.elts) == 4 and all(isinstance(x, ast.Name) for x in tg.elts)):
            raise Untranslatable('loop target: expected the 4-tuple yielded by parse')
        names = [x.id for x in tg.elts]
        if len(set(names)) != 4 or any(n in env for n in names):
            raise Untranslatable('loop target shadows an outer name')
        carried = [n for n in env if not n.startswith('__') and n in rebound_names(st.body)]
        if any(env[n][1] in ('ambient', 'memo') for n in carried):
            raise Untranslatable('ambient name rebound in the loop')
        if not carried:
            raise Untranslatable('loop without effect')
        st_names = [self.fresh(n) for n in carried]
        lit, fld = self.fresh(names[0]), self.fresh('field')
        inner = {**env, **{n: (nm, env[n][1]) for n, nm in zip(carried, st_names)},
                 names[0]: (lit, 'string'), names[1]: (fld, ('ofield', names[2], names[3])),
                 names[2]: ('', 'poison'), names[3]: ('', 'poison')}
        inner.pop('__memo_stored__', None)
        body = self.stmts(list(st.body), inner, LoopEnd(carried))
        # free outer names of the body become parameters of the body definition
        outer = [n for n in env if not n.startswith('__') and n not in carried and env[n][0]
                 and re.search(r'(?<![\w\'])' + re.escape(env[n][0]) + r'(?![\w\'])', body)]
        bname = SIGS[self.fname]['coq'] + '_body'
        binders = ' '.join(f'({env[n][0]} : {ty_str(env[n][1])})' for n in outer)
        st_ty = ty_str(('tuple', tuple(env[n][1] for n in carried))) if len(carried) > 1 else ty_str(env[carried[0]][1])
        self.aux.append(
            f'(* the body of the `for ... in self.parse(...)` loop; state = ({", ".join(carried)}) *)\n'
            f'  Definition {bname} {binders} (st_ : {st_ty}) (it_ : item) : res {st_ty} :=\n'
            f"    let {pat(st_names)} := st_ in let '({lit}, {fld}) := it_ in\n    {body}.")
        outs = [self.fresh(n) for n in carried]
        after = {**env, **{n: (o, env[n][1]) for n, o in zip(carried, outs)}}
        args = ' '.join(env[n][0] for n in outer)
        init = tup([env[n][0] for n in carried])
        return (f'(let* {tup(outs)} := for_parse {it} ({bname} {args}) {init} in\n    '
                f'{self.stmts(rest, after, kont)})')


class FunctionEnd:
    """falling off the end of the function: return None"""

    def __call__(self, env):
        if '__memo_stored__' in env:
            raise Untranslatable('memoised value is not returned')
        return '(Ok VNone)'


class LoopEnd:
    """end of a loop body: the current values of the carried names"""

    def __init__(self, carried):
        self.carried = carried

    def __call__(self, env):
        return '(Ok ' + tup([env[n][0] for n in self.carried]) + ')'


def rebound_names(body):
    out = set()
    for st in body:
        for n in ast.walk(st):
            if isinstance(n, (ast.Assign, ast.AnnAssign, ast.AugAssign)):
                tgs = n.targets if isinstance(n, ast.Assign) else [n.target]
                for tg in tgs:
                    for m in ast.walk(tg):
                        if isinstance(m, ast.Name) and isinstance(m.ctx, ast.Store):
                            out.add(m.id)
                    if isinstance(tg, (ast.Attribute, ast.Subscript)) and isinstance(tg.value, ast.Name):
                        out.add(tg.value.id)
            if isinstance(n, (ast.NamedExpr,)):
                raise Untranslatable('walrus')
            if isinstance(n, ast.Call) and isinstance(n.func, ast.Attribute) and isinstance(n.func.value, ast.Name) \
                    and n.func.attr in ('append', 'extend', 'insert', 'pop', 'clear', 'remove', 'update'):
                out.add(n.func.value.id)
    out.discard('used_args')
    return out


# ---------------------------------------------------------------- the class as a whole

class Unit:
    def __init__(self, tree):
        self.tree = tree
        self.cls = find(tree, 'RecursiveFormatter')
        self.defined = set()            # generated top-level names available
        self.defined_methods = set()
        self.consts = {}
        self.type_attrs = {}
        self.overridden = {n.name for n in self.cls.body if isinstance(n, ast.FunctionDef)
                           and (n.name in PRIMS or n.name in NOOPS)}
        bases = [ast.unparse(b) for b in self.cls.bases]
        if bases != ['Formatter']:
            raise Untranslatable(f'bases of RecursiveFormatter: {bases}')
        self.imports = {}
        for st in tree.body:
            if isinstance(st, ast.ImportFrom):
                for a in st.names:
                    self.imports[a.asname or a.name] = (st.module, a.name)
            elif isinstance(st, ast.Import):
                for a in st.names:
                    self.imports[(a.asname or a.name).split('.')[0]] = (a.name, None)
            elif isinstance(st, (ast.Assign, ast.AnnAssign, ast.AugAssign)):
                for n in ast.walk(st):
                    if isinstance(n, ast.Name) and isinstance(n.ctx, ast.Store):
                        self.imports[n.id] = ('<assigned>', None)
            elif isinstance(st, (ast.FunctionDef, ast.ClassDef)):
                self.imports[st.name] = ('<defined>', None)
        if self.imports.get('Formatter') != ('string', 'Formatter'):
            raise Untranslatable('Formatter is not string.Formatter')

    def check_class_name(self, name):
        want = KNOWN_CLASSES[name]
        got = self.imports.get(name)
        if want is None:
            if got is not None:
                raise Untranslatable(f'builtin {name} is shadowed')
        elif got != (want, name):
            raise Untranslatable(f'{name} does not come from {want}')

    def signature(self, name):
        fn = find(self.tree, f'RecursiveFormatter.{name}')
        a = fn.args
        if a.vararg or a.kwarg or a.kwonlyargs or a.posonlyargs or fn.decorator_list:
            raise Untranslatable(f'signature of {name}')
        names = [x.arg for x in a.args]
        if not names or names[0] != 'self':
            raise Untranslatable(f'signature of {name}')
        names = names[1:]
        types = SIGS[name]['params']
        if any(n not in types for n in names):
            raise Untranslatable(f'signature of {name} changed: {names}')
        defaults = {}
        tr = Tr(self, name)
        for pn, d in zip(reversed(names), reversed(a.defaults)):
            pty = types[pn]
            if pty == 'memo':
                if not (isinstance(d, ast.Constant) and d.value is None):
                    raise Untranslatable('default of memo')
                continue
            b, t, ty = tr.ev(d, {}, pty)
            defaults[pn] = tr.coerce(b, t, ty, pty)
        return dict(fn=fn, params=[(n, types[n]) for n in names], defaults=defaults)

    # ---- RecursionSpec.__init__
    def recursion_spec(self):
        fn = find(self.tree, 'RecursionSpec.__init__')
        a = fn.args
        if [x.arg for x in a.args] != ['self', 'format_spec'] or a.defaults or a.vararg or a.kwarg or a.kwonlyargs:
            raise Untranslatable('signature of RecursionSpec.__init__')
        cls = find(self.tree, 'RecursionSpec')
        if cls.bases or any(isinstance(n, ast.FunctionDef) and n.name != '__init__' for n in cls.body):
            raise Untranslatable('RecursionSpec has bases or further methods')
        tr = InitTr(self, '__init__')
        env = {'format_spec': ('format_spec', 'string')}
        body = tr.stmts(list(fn.body), env, InitEnd())
        return f'(format_spec : string) : src_rspec :=\n  {body}'

    # ---- class constants and __init__
    def class_consts(self):
        out = []
        for st in self.cls.body:
            if isinstance(st, ast.Assign) and len(st.targets) == 1 and isinstance(st.targets[0], ast.Name):
                v = st.value
                if isinstance(v, ast.Constant) and isinstance(v.value, int) and not isinstance(v.value, bool):
                    self.consts[st.targets[0].id] = v.value
                    out.append((st.targets[0].id, v.value))
                else:
                    raise Untranslatable(f'class attribute {st.targets[0].id}')
        return out

    def init_attrs(self):
        """__init__ must only store its parameters (all defaulting to None) under the same names"""
        fn = find(self.tree, 'RecursiveFormatter.__init__')
        a = fn.args
        names = [x.arg for x in a.args][1:]
        if a.vararg or a.kwarg or a.kwonlyargs or len(a.defaults) != len(names) \
                or not all(isinstance(d, ast.Constant) and d.value is None for d in a.defaults):
            raise Untranslatable('signature of RecursiveFormatter.__init__')
        seen = []
        for st in strip(fn.body):
            if isinstance(st, ast.Assign) and len(st.targets) == 1 and isinstance(st.targets[0], ast.Attribute) \
                    and ast.unparse(st.targets[0].value) == 'self' and isinstance(st.value, ast.Name) \
                    and st.value.id == st.targets[0].attr and st.value.id in names:
                seen.append(st.value.id)
            else:
                raise Untranslatable('statement in RecursiveFormatter.__init__')
        if sorted(seen) != sorted(names):
            raise Untranslatable('RecursiveFormatter.__init__ does not store every parameter once')
        self.type_attrs = {n: True for n in names}
        return names

    def isinstance_tests(self, name):
        """every `isinstance(x, C)` of the method, in source order -> (tests on the first parameter,
        tests on anything else); C as the alphabetically sorted class names, or ['self.<attr>'] for
        the passthrough / special types.  The proofs evaluate this ladder over a table of Python
        types (bytearray, frozenset, ... which the value universe does not contain), so dropping or
        adding a class in any test breaks them."""
        src = self.signature(name)
        subject = next((pn for pn, pty in src['params'] if pty not in ('ambient', 'memo')), None)
        found = []

        class V(ast.NodeVisitor):
            def visit_Call(v, node):
                if isinstance(node.func, ast.Name) and node.func.id == 'isinstance':
                    found.append(node)
                v.generic_visit(node)
        for st in src['fn'].body:
            V().visit(st)
        for n in ast.walk(src['fn']):
            if isinstance(n, ast.Name) and n.id == 'isinstance' and isinstance(n.ctx, ast.Store):
                raise Untranslatable('isinstance is rebound')
        on_subject, others = [], []
        for c in found:
            if len(c.args) != 2 or c.keywords:
                raise Untranslatable('isinstance form')
            k = c.args[1]
            if self.type_attrs and isinstance(k, ast.Attribute) and isinstance(k.value, ast.Name) \
                    and k.value.id == 'self' and k.attr in self.type_attrs:
                names = ['self.' + k.attr]
            else:
                cs = k.elts if isinstance(k, ast.Tuple) else [k]
                names = []
                for x in cs:
                    if not isinstance(x, ast.Name) or x.id not in KNOWN_CLASSES:
                        raise Untranslatable(f'isinstance against {ast.unparse(x)}')
                    self.check_class_name(x.id)
                    names.append(x.id)
                names = sorted(set(names))
            if isinstance(c.args[0], ast.Name) and c.args[0].id == subject:
                on_subject.append(names)
            else:
                others.append(names)

        def lst(xss):
            return '[' + '; '.join('[' + '; '.join(coq_str(x) for x in xs) + ']' for xs in xss) + ']'
        return f': list (list string) * list (list string) :=\n  ({lst(on_subject)}, {lst(others)})'

    def method(self, name):
        src = self.signature(name)
        tr = Tr(self, name)
        env = {}
        binders = []
        for pn, pty in src['params']:
            if pty in ('ambient', 'memo'):
                env[pn] = ('', pty)
            else:
                env[pn] = (pn, pty)
                tr.params[pn] = pn
                binders.append(f'({pn} : {ty_str(pty)})')
        body = tr.stmts(list(src['fn'].body), env, FunctionEnd())
        self.defined_methods.add(name)
        head = f"Definition {SIGS[name]['coq']} {' '.join(binders)} : res {ty_str(SIGS[name]['ret'])} :=\n    {body}."
        return '\n\n  '.join(tr.aux + [head])


class InitTr(Tr):
    """RecursionSpec.__init__: `self.x = e` (also chained) builds the record"""

    def attribute(self, e, env):
        if isinstance(e.value, ast.Name) and e.value.id == 'self':
            key = 'self.' + e.attr
            if key not in env:
                raise Untranslatable(f'{key} read before it is assigned')
            return [], env[key][0], env[key][1]
        return super().attribute(e, env)

    def stmts(self, body, env, kont):
        body = strip(body)
        if body and isinstance(body[0], ast.Assign) and all(
                isinstance(t, ast.Attribute) and isinstance(t.value, ast.Name) and t.value.id == 'self'
                for t in body[0].targets):
            st, rest = body[0], body[1:]
            fields = dict(RSPEC_FIELDS)
            env = dict(env)
            b, t, ty = None, None, None
            for tg in st.targets:
                if tg.attr not in fields:
                    raise Untranslatable(f'attribute {tg.attr} is not part of the RecursionSpec record')
                if b is None:
                    b, t, ty = self.ev(st.value, env, fields[tg.attr])
                    if b:
                        raise Untranslatable('effect in RecursionSpec.__init__')
                if ty != fields[tg.attr]:
                    raise Untranslatable(f'type of self.{tg.attr}')
            nm = self.fresh(st.targets[0].attr)
            for tg in st.targets:
                env['self.' + tg.attr] = (nm, fields[tg.attr])
            return f'(let {nm} := {t} in {self.stmts(rest, env, kont)})'
        return super().stmts(body, env, kont)

    def pure_block(self, body, env):
        lets, env = [], dict(env)
        for st in strip(body):
            if isinstance(st, ast.Assign) and all(
                    isinstance(t, ast.Attribute) and isinstance(t.value, ast.Name) and t.value.id == 'self'
                    for t in st.targets):
                fields = dict(RSPEC_FIELDS)
                for tg in st.targets:
                    if tg.attr not in fields or 'self.' + tg.attr not in env:
                        raise NotSimple()
                b, t, ty = self.ev(st.value, env, fields[st.targets[0].attr])
                if b or any(fields[tg.attr] != ty for tg in st.targets):
                    raise NotSimple()
                nm = self.fresh(st.targets[0].attr)
                lets.append((nm, t))
                for tg in st.targets:
                    env['self.' + tg.attr] = (nm, ty)
                continue
            if isinstance(st, ast.If):
                l2, env = self.join_if(st, env)
                lets += l2
                continue
            raise NotSimple()
        return lets, env


class InitEnd(FunctionEnd):
    def __call__(self, env):
        terms = []
        for f, _ in RSPEC_FIELDS:
            if 'self.' + f not in env:
                raise Untranslatable(f'self.{f} is not assigned on every path')
            terms.append(env['self.' + f][0])
        return '(mk_src_rspec ' + ' '.join(terms) + ')'


# ---------------------------------------------------------------- special tags (pypyr/dsl.py)

TAGS = {   # class -> type of self.value (the yaml payload) in the value universe
    'PyString': 'string', 'SicString': 'string', 'Jsonify': 'val',
}
TAG_PRIMS = {   # calls left abstract in get_value
    'context.get_eval_string': ('prim_get_eval_string', 'string', 'val'),
    'context.get_formatted_value': ('prim_get_formatted_value', 'val', 'val'),
    'json.dumps': ('prim_json_dumps', 'val', 'string'),
}


class TagTr(Tr):
    """<Tag>.get_value(self, context): `self.value` is the payload"""

    def __init__(self, cls_name):
        super().__init__(None, 'get_value')
        self.cls_name = cls_name

    def attribute(self, e, env):
        if isinstance(e.value, ast.Name) and e.value.id == 'self' and e.attr == 'value':
            return [], 'value', TAGS[self.cls_name]
        raise Untranslatable(f'attribute {ast.unparse(e)}')

    def call(self, e, env):
        key = ast.unparse(e.func)
        if key in TAG_PRIMS and len(e.args) == 1 and not e.keywords:
            prim, aty, rty = TAG_PRIMS[key]
            b, t, ty = self.ev(e.args[0], env)
            t = self.coerce(b, t, ty, aty)
            x = self.fresh('r')
            return b + [(x, f'{prim} {t}')], x, rty
        raise Untranslatable(f'call of {key}')


def translate_tag(cls_name):
    tree = ast.parse((REPO / 'pypyr' / 'dsl.py').read_text())
    cls = find(tree, cls_name)
    if [ast.unparse(b) for b in cls.bases] != ['SpecialTagDirective']:
        raise Untranslatable(f'bases of {cls_name}')
    fn = find(tree, f'{cls_name}.get_value')
    a = fn.args
    if [x.arg for x in a.args] != ['self', 'context'] or a.vararg or a.kwarg or a.kwonlyargs or fn.decorator_list \
            or not all(isinstance(d, ast.Constant) and d.value is None for d in a.defaults):
        raise Untranslatable(f'signature of {cls_name}.get_value')
    if key_names(tree, 'json') != ('json', None):
        raise Untranslatable('json is not the json module')
    tr = TagTr(cls_name)
    body = tr.stmts(list(fn.body), {'context': ('', 'ambient')}, FunctionEnd())
    return f'(value : {ty_str(TAGS[cls_name])}) : res val :=\n    {body}'


def key_names(tree, name):
    for st in tree.body:
        if isinstance(st, ast.Import):
            for a in st.names:
                if (a.asname or a.name) == name:
                    return (a.name, None)
        if isinstance(st, ast.ImportFrom):
            for a in st.names:
                if (a.asname or a.name) == name:
                    return (st.module, a.name)
    return None


# ---------------------------------------------------------------- Context: construction and calls

def class_list(e):
    if isinstance(e, ast.Constant) and e.value is None:
        return 'None'
    cs = e.elts if isinstance(e, ast.Tuple) else [e]
    for c in cs:
        if not isinstance(c, ast.Name) or c.id not in KNOWN_CLASSES:
            raise Untranslatable(f'class {ast.unparse(c)}')
    return '(Some [' + '; '.join(coq_str(c.id) for c in cs) + '])'


def context_formatter(init_names):
    """`formatter = RecursiveFormatter(...)` in class Context -> {attribute: option (list class)}"""
    tree = ast.parse((REPO / 'pypyr' / 'context.py').read_text())
    imp = {}
    for st in tree.body:
        if isinstance(st, ast.ImportFrom):
            for a in st.names:
                imp[a.asname or a.name] = (st.module, a.name)
    if imp.get('RecursiveFormatter') != ('pypyr.formatting', 'RecursiveFormatter'):
        raise Untranslatable('context.py does not import pypyr.formatting.RecursiveFormatter')
    cls = find(tree, 'Context')
    made = [st for st in cls.body if isinstance(st, ast.Assign) and len(st.targets) == 1
            and isinstance(st.targets[0], ast.Name) and st.targets[0].id == 'formatter']
    if len(made) != 1 or not isinstance(made[0].value, ast.Call) \
            or ast.unparse(made[0].value.func) != 'RecursiveFormatter':
        raise Untranslatable('Context.formatter')
    for n in ast.walk(cls):
        if n is not made[0] and isinstance(n, (ast.Assign, ast.AugAssign, ast.AnnAssign)):
            tgs = n.targets if isinstance(n, ast.Assign) else [n.target]
            if any(ast.unparse(t) in ('formatter', 'self.formatter', 'Context.formatter') for t in tgs):
                raise Untranslatable('Context.formatter is reassigned')
    c = made[0].value
    vals = {n: 'None' for n in init_names}
    if len(c.args) > len(init_names):
        raise Untranslatable('arguments of RecursiveFormatter(...)')
    for n, a in zip(init_names, c.args):
        vals[n] = class_list(a)
    for kw in c.keywords:
        if kw.arg not in init_names:
            raise Untranslatable(f'keyword {kw.arg}')
        vals[kw.arg] = class_list(kw.value)
        for x in ([kw.value] if not isinstance(kw.value, ast.Tuple) else kw.value.elts):
            if isinstance(x, ast.Name) and KNOWN_CLASSES.get(x.id) and imp.get(x.id) != (KNOWN_CLASSES[x.id], x.id):
                raise Untranslatable(f'{x.id} does not come from {KNOWN_CLASSES[x.id]}')
    return vals, cls


def context_call(cls, method):
    """every `self.formatter.vformat(...)` in Context.<method> must be vformat(<value>, None, self)"""
    fn = next((n for n in cls.body if isinstance(n, ast.FunctionDef) and n.name == method), None)
    if fn is None:
        raise Untranslatable(f'Context.{method} not found')
    calls = [n for n in ast.walk(fn) if isinstance(n, ast.Call) and isinstance(n.func, ast.Attribute)
             and ast.unparse(n.func.value) == 'self.formatter']
    if not calls:
        raise Untranslatable(f'Context.{method} does not call the formatter')
    none, ctx = True, True
    for c in calls:
        if c.func.attr != 'vformat' or len(c.args) != 3 or c.keywords:
            raise Untranslatable(f'formatter call in Context.{method}')
        none = none and isinstance(c.args[1], ast.Constant) and c.args[1].value is None
        ctx = ctx and isinstance(c.args[2], ast.Name) and c.args[2].id == 'self'
    return f': src_ambient := mk_src_ambient {"true" if none else "false"} {"true" if ctx else "false"}'


# ---------------------------------------------------------------- output

def emit(lines, header, name, fn, indent='', kind='Definition', raw=False):
    try:
        body = fn()
        lines.append(f'{indent}(* {header} *)')
        lines.append(f'{indent}{body}' if raw else f'{indent}{kind} {name} {body}.')
        return 'ok'
    except Exception as ex:      # fail closed on anything, including bugs of the translator itself
        msg = str(ex).replace('*)', '* )').replace('(*', '( *').replace('"', "'")
        lines.append(f'{indent}(* {header} could not be translated: {type(ex).__name__}: {msg} *)')
        lines.append(f'{indent}Definition {name}_UNTRANSLATED : unit := tt.')
        return f'untranslated: {ex}'


def translate_all():
    lines = ['(** Gen/GenC08.v — GENERATED by tools/py2coq_c08.py from the current source under the',
             '    repository; do not edit.  A function that could not be translated gets the suffix',
             '    _UNTRANSLATED, which breaks every lemma that mentions the expected name. *)',
             'From PV Require Import FormatSrc.', 'Open Scope string_scope.', '']
    status = {}
    try:
        unit = Unit(ast.parse((REPO / 'pypyr' / 'formatting.py').read_text()))
    except (Untranslatable, OSError, SyntaxError) as ex:
        lines.append(f'(* pypyr/formatting.py could not be read: {ex} *)')
        lines.append('Definition gen_formatting_UNTRANSLATED : unit := tt.')
        text = '\n'.join(lines) + '\n'
        if not OUT.exists() or OUT.read_text() != text:
            OUT.write_text(text)
        return {'formatting.py': f'untranslated: {ex}'}

    def rspec():
        body = unit.recursion_spec()
        unit.defined.add('gen_RecursionSpec')
        return body
    status['gen_RecursionSpec'] = emit(lines, 'pypyr/formatting.py :: RecursionSpec.__init__', 'gen_RecursionSpec', rspec)
    lines.append('')

    def consts():
        return '\n'.join(f'Definition gen{n} : Z := {v}%Z.' for n, v in unit.class_consts())
    status['class constants'] = emit(lines, 'pypyr/formatting.py :: RecursiveFormatter, class attributes',
                                     'gen_FORMAT_SPEC_RECURSION_DEPTH', consts, raw=True)
    lines.append('')
    init_names = []

    def init():
        init_names.extend(unit.init_attrs())
        if init_names != ['passthrough_types', 'special_types']:
            raise Untranslatable(f'attributes of RecursiveFormatter: {init_names}')
        return ': list string := [' + '; '.join(coq_str(n) for n in init_names) + ']'
    status['gen_formatter_attrs'] = emit(lines, 'pypyr/formatting.py :: RecursiveFormatter.__init__ stores its '
                                         'parameters (default None) as', 'gen_formatter_attrs', init)
    lines += ['', 'Section GenFormatter.',
              '  (* self.passthrough_types / self.special_types: None, or the class names *)',
              '  Variable passthrough_types : option (list string).',
              '  Variable special_types : option (list string).',
              '  (* string.Formatter (CPython), not overridden by RecursiveFormatter: left abstract *)',
              '  Variable prim_parse : string -> list item * ptail.',
              '  Variable prim_get_field : string -> res (val * val).',
              '  Variable prim_vformat : string -> Z -> autoidx -> res (string * autoidx).',
              '  Variable prim_convert_field : val -> option ascii -> res val.',
              '  Variable prim_format_field : val -> string -> res string.',
              '  (* obj.get_value(kwargs) of a special tag *)',
              '  Variable prim_get_value : val -> res val.',
              '  (* self._get_formatted_iterable(obj, args, kwargs, used_args, memo, is_recursive): the knot *)',
              '  Variable rec_get_formatted_iterable : val -> bool -> res val.', '']
    for name in ORDER:
        status[SIGS[name]['coq']] = emit(lines, f'pypyr/formatting.py :: RecursiveFormatter.{name}', SIGS[name]['coq'],
                                         lambda n=name: unit.method(n), indent='  ', raw=True)
        lines.append('')
    lines += ['End GenFormatter.', '']
    for name in ORDER:
        gname = SIGS[name]['coq'] + '_isinstance_tests'
        status[gname] = emit(lines, f'pypyr/formatting.py :: RecursiveFormatter.{name}: the isinstance tests, in source '
                             'order (on the first parameter, on anything else)', gname,
                             lambda n=name: unit.isinstance_tests(n))
    lines.append('')

    lines += ['Section GenTags.',
              '  (* context.get_eval_string / context.get_formatted_value / json.dumps: left abstract *)',
              '  Variable prim_get_eval_string : string -> res val.',
              '  Variable prim_get_formatted_value : val -> res val.',
              '  Variable prim_json_dumps : val -> res string.', '']
    for cname in TAGS:
        status[f'gen_{cname}_get_value'] = emit(lines, f'pypyr/dsl.py :: {cname}.get_value', f'gen_{cname}_get_value',
                                                lambda c=cname: translate_tag(c), indent='  ')
    lines += ['End GenTags.', '']

    ctx = {}

    def ctx_attr(attr):
        if not ctx:
            vals, cls = context_formatter(init_names)
            ctx['vals'], ctx['cls'] = vals, cls
        return f': option (list string) := {ctx["vals"][attr]}'
    for attr in ('passthrough_types', 'special_types'):
        status[f'gen_context_{attr}'] = emit(
            lines, f'pypyr/context.py :: Context.formatter = RecursiveFormatter(...): {attr}',
            f'gen_context_{attr}', lambda a=attr: ctx_attr(a))
    lines.append('')
    for m in ('get_formatted_value', 'get_formatted', 'get_formatted_as_type', 'iter_formatted_strings'):
        status[f'gen_context_{m}_call'] = emit(
            lines, f'pypyr/context.py :: Context.{m}: self.formatter.vformat(value, None, self)',
            f'gen_context_{m}_call', lambda mm=m: (ctx_attr('special_types'), context_call(ctx['cls'], mm))[1])
    lines.append('')
    text = '\n'.join(lines)
    OUT.parent.mkdir(exist_ok=True)
    if not OUT.exists() or OUT.read_text() != text:
        OUT.write_text(text)
    return status


def main():
    try:
        status = translate_all()
    except Exception as ex:      # never leave a stale generated file behind
        msg = str(ex).replace('*)', '* )').replace('(*', '( *')
        text = (f'(* Gen/GenC08.v: tools/py2coq_c08.py failed: {type(ex).__name__}: {msg} *)\n'
                'Definition gen_formatting_UNTRANSLATED : unit := tt.\n')
        OUT.parent.mkdir(exist_ok=True)
        if not OUT.exists() or OUT.read_text() != text:
            OUT.write_text(text)
        status = {'pypyr/formatting.py': f'untranslated: {ex}'}
    for k, v in status.items():
        print(k, v)
    return 0


if __name__ == '__main__':
    sys.exit(main())
