"""Tie B for C08/C09 (placeholder until the translator is written): writes an empty
coq/theories/Gen/GenC08.v so that the project builds."""
from pathlib import Path
OUT = Path(__file__).resolve().parent.parent / 'coq' / 'theories' / 'Gen' / 'GenC08.v'
TEXT = '(* Gen/GenC08.v - placeholder *)\n'
if not OUT.exists() or OUT.read_text() != TEXT:
    OUT.write_text(TEXT)
