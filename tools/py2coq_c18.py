"""Tie B for C18: regenerate coq/theories/Gen/GenC18.v from the CURRENT source (under $VERIF_REPO,
default /repo) of

  * every built-in context parser, completely:
      pypyr/parser/{keyvaluepairs,keys,list,string,dict,argskwargs,json}.py :: get_parsed_context
  * pypyr/cli.py :: main — the try/except ladder with its return codes, and the keyword
    arguments of the call into pypyr.pipelinerunner.run.

Proofs/GenC18Proofs.v proves each generated definition equal to the hand-written model
(Model/Parsers.v, Model/Cli.v) for all inputs, so an edit to one of those functions re-checks —
or breaks — those lemmas.

Fail-closed: a statement or expression outside the subset below makes the definition come out
under the name <gen_name>_UNTRANSLATED (reason in a comment); every lemma that mentions the
expected name then stops compiling.

Parser functions (`def get_parsed_context(args)`, args : None or a list of str):
  dropped: docstrings, logger.* calls, annotations (trusted: effect-free)
  x = e / x: T = e            let x1 := e in ...                    (fresh name per binding)
  a, b, c = e                 let '(a1, b1, c1) := e in ...
  d[k] = v                    let d2 := dict_set k v d1 in ...      (d : dict)
  l.append(e)                 let l2 := l1 ++ [e] in ...
  if c: A else: B ; K         if c then [A;K] else [B;K]            (continuation duplicated)
     c = `args` / `not args` narrows args to a non-empty list in the truthy branch;
     c = `[not] isinstance(x, Mapping)` narrows x : val to a dict
  for x in xs: B              fold_left over the tuple of the variables B rebinds (sorted by name)
  return e / return None      Some e / None     (Ok … when the function can raise)
  raise TypeError("…")        Err "TypeError" "…"
  x = json.loads(e)           let* x := prim_json_loads e in …     (Section variable)
  expressions: names, module-level string constants, str/bool/None literals, [] {} {k: v, …},
     s.partition('c'), 'sep'.join(l), not e, truthiness by type, dict(pairs), generator
     expressions / list comprehensions (map, filter), dict comprehensions with tuple targets.
  Aliasing: a list/dict that is mutated in place may not be read (stored, returned, rebound)
  before its last in-place mutation — value semantics would be wrong there: untranslatable.

main: statements before the `try` may only be assignments (argument parsing); the try body is
abstract (its outcome = the exception it raised, if any); handlers must name classes from
BaseException / Exception / KeyboardInterrupt / SystemExit / GeneratorExit; in a handler,
sys.stdout.write / sys.stderr.write / traceback.print_exc and `if`s containing only those are
dropped (what is printed is out of scope), what remains must be `return <int expr>`, `raise`
or nothing; `signal.SIGINT` is 2.  The runner call: keyword values must be
`parsed_args.<dest>` (dest -> model field by the table DEST), True/False/None.
"""
import ast
import os
import sys
from pathlib import Path

REPO = Path(os.environ.get('VERIF_REPO', '/repo'))
OUT = Path(__file__).resolve().parent.parent / 'coq' / 'theories' / 'Gen' / 'GenC18.v'


class Untranslatable(Exception):
    pass


def coq_str(s):
    """Python str constant -> Coq string term (printable ASCII literal pieces, chr n for the rest)."""
    parts, cur = [], []

    def flush():
        if cur:
            parts.append('"' + ''.join(cur) + '"')
            cur.clear()
    for b in s.encode('utf-8'):
        if b == 0x22:
            cur.append('""')
        elif 0x20 <= b < 0x7f:
            cur.append(chr(b))
        else:
            flush()
            parts.append(f'chr {b}')
    flush()
    if not parts:
        return '""'
    if len(parts) == 1 and parts[0].startswith('"'):
        return parts[0]
    return '(' + ' ++ '.join(parts) + ')'


def coq_char(s):
    if len(s) != 1 or not (0x20 <= ord(s) < 0x7f) or s == '"':
        raise Untranslatable(f'separator {s!r}')
    return f'"{s}"%char'


def is_logging(st):
    return (isinstance(st, ast.Expr) and isinstance(st.value, ast.Call)
            and isinstance(st.value.func, ast.Attribute) and isinstance(st.value.func.value, ast.Name)
            and st.value.func.value.id == 'logger')


def is_doc(st):
    return isinstance(st, ast.Expr) and isinstance(st.value, ast.Constant) and isinstance(st.value.value, str)


def strip(body):
    return [st for st in body if not is_doc(st) and not is_logging(st)]


# ---------------------------------------------------------------- types
STR, BOOL, VAL, DICT = 'string', 'bool', 'val', 'dict'
LSTR = ('list', STR)
OARGS = ('option', LSTR)
UNKNOWN = '?'


def ty_str(t):
    if isinstance(t, str):
        return t
    if t[0] == 'tuple':
        return '(' + ' * '.join(ty_str(x) for x in t[1]) + ')'
    return f'({t[0]} {ty_str(t[1])})'


def to_val(term, ty):
    if ty == VAL:
        return term
    if ty == STR:
        return f'(VStr {term})'
    if ty == BOOL:
        return f'(VBool {term})'
    if ty == DICT:
        return f'(VDict {term})'
    if isinstance(ty, tuple) and ty[0] == 'list':
        if ty[1] == UNKNOWN:
            if term != '[]':
                raise Untranslatable('list of unknown element type')
            return '(VList [])'
        if ty[1] == VAL:
            return f'(VList {term})'
        if ty[1] == STR:
            return f'(VList (map VStr {term}))'
        return f'(VList (map (fun x_ => {to_val("x_", ty[1])}) {term}))'
    raise Untranslatable(f'no value injection for {ty_str(ty)}')


# ---------------------------------------------------------------- aliasing pre-pass

def check_aliasing(fn, params):
    """Reject reads of an in-place-mutated name before its last in-place mutation."""
    muts, loads = [], []
    counter = [0]

    def mutation_target(st):
        """-> (name, receiver Name node) for `x[k] = v` / `x.append(e)` statements"""
        if isinstance(st, ast.Assign) and len(st.targets) == 1 and isinstance(st.targets[0], ast.Subscript) \
                and isinstance(st.targets[0].value, ast.Name):
            return st.targets[0].value.id, st.targets[0].value
        if isinstance(st, ast.Expr) and isinstance(st.value, ast.Call) and isinstance(st.value.func, ast.Attribute) \
                and st.value.func.attr in ('append', 'extend', 'update', 'insert', 'pop', 'clear', 'setdefault',
                                           'remove', 'sort', 'reverse') \
                and isinstance(st.value.func.value, ast.Name):
            return st.value.func.value.id, st.value.func.value
        return None

    def walk(stmts, loops):
        for st in stmts:
            counter[0] += 1
            no = counter[0]
            recv = None
            mt = mutation_target(st)
            if mt:
                muts.append((mt[0], no, loops))
                recv = mt[1]
            if isinstance(st, (ast.For, ast.While)):
                for n in ast.walk(st.iter if isinstance(st, ast.For) else st.test):
                    if isinstance(n, ast.Name) and isinstance(n.ctx, ast.Load):
                        loads.append((n.id, no, loops))
                walk(st.body, loops + (no,))
                walk(st.orelse, loops + (no,))
            elif isinstance(st, ast.If):
                for n in ast.walk(st.test):
                    if isinstance(n, ast.Name) and isinstance(n.ctx, ast.Load):
                        loads.append((n.id, no, loops))
                walk(st.body, loops)
                walk(st.orelse, loops)
            elif isinstance(st, (ast.Try, ast.With)):
                raise Untranslatable(type(st).__name__)
            else:
                for n in ast.walk(st):
                    if isinstance(n, ast.Name) and isinstance(n.ctx, ast.Load) and n is not recv:
                        loads.append((n.id, no, loops))
    walk(fn.body, ())
    mutated = {m[0] for m in muts}
    if mutated & set(params):
        raise Untranslatable('a parameter is mutated in place')
    for name, no, loops in loads:
        for mname, mno, mloops in muts:
            if mname != name:
                continue
            if mno >= no or (set(loops) & set(mloops)):
                raise Untranslatable(f'{name} is read before its last in-place mutation (aliasing)')


# ---------------------------------------------------------------- parser functions

class FnTr:
    def __init__(self, consts, can_raise):
        self.consts = consts            # module-level NAME = 'str'
        self.can_raise = can_raise
        self.n = 0

    def fresh(self, base):
        self.n += 1
        return f'{base}{self.n}'

    # ------------------------------------------------------------ expressions
    def expr(self, e, env, want=None):
        """-> (coq term, type)"""
        if isinstance(e, ast.Name):
            if e.id in env:
                return env[e.id]
            if e.id in self.consts:
                return coq_str(self.consts[e.id]), STR
            raise Untranslatable(f'unknown name {e.id}')
        if isinstance(e, ast.Constant):
            v = e.value
            if isinstance(v, bool):
                return ('true' if v else 'false'), BOOL
            if isinstance(v, str):
                return coq_str(v), STR
            raise Untranslatable(f'constant {v!r}')
        if isinstance(e, ast.List):
            if not e.elts:
                return '[]', ('list', UNKNOWN)
            items = [self.expr(x, env) for x in e.elts]
            tys = {ty_str(t) for _, t in items}
            if len(tys) != 1:
                items = [(to_val(t, ty), VAL) for t, ty in items]
            return '[' + '; '.join(t for t, _ in items) + ']', ('list', items[0][1])
        if isinstance(e, ast.Tuple):
            items = [self.expr(x, env) for x in e.elts]
            return '(' + ', '.join(t for t, _ in items) + ')', ('tuple', tuple(ty for _, ty in items))
        if isinstance(e, ast.Dict):
            if any(k is None for k in e.keys):
                raise Untranslatable('dict unpacking')
            if not e.keys:
                return '[]', DICT
            pairs = []
            for k, v in zip(e.keys, e.values):
                kt, kty = self.expr(k, env)
                vt, vty = self.expr(v, env)
                pairs.append(f'({to_val(kt, kty)}, {to_val(vt, vty)})')
            return f'(dict_update [] [{"; ".join(pairs)}])', DICT
        if isinstance(e, ast.UnaryOp) and isinstance(e.op, ast.Not):
            return f'(negb {self.truth(e.operand, env)})', BOOL
        if isinstance(e, ast.BoolOp):
            ts = [self.truth(v, env) for v in e.values]
            op = 'andb' if isinstance(e.op, ast.And) else 'orb'
            acc = ts[-1]
            for t in reversed(ts[:-1]):
                acc = f'({op} {t} {acc})'
            return acc, BOOL
        if isinstance(e, (ast.GeneratorExp, ast.ListComp)):
            return self.comprehension(e.elt, e.generators, env, lambda sub: self.expr(e.elt, sub))
        if isinstance(e, ast.DictComp):
            def pair(sub):
                kt, kty = self.expr(e.key, sub)
                vt, vty = self.expr(e.value, sub)
                return f'({to_val(kt, kty)}, {to_val(vt, vty)})', ('tuple', (VAL, VAL))
            t, ty = self.comprehension(None, e.generators, env, pair)
            return f'(dict_update [] {t})', DICT
        if isinstance(e, ast.Call):
            return self.call(e, env)
        raise Untranslatable(type(e).__name__)

    def comprehension(self, elt, generators, env, body):
        if len(generators) != 1:
            raise Untranslatable('nested comprehension clauses')
        g = generators[0]
        if g.is_async:
            raise Untranslatable('async comprehension')
        it, ity = self.expr(g.iter, env)
        if not (isinstance(ity, tuple) and ity[0] == 'list') or ity[1] == UNKNOWN:
            raise Untranslatable(f'iteration over {ty_str(ity)}')
        x = self.fresh('x')
        sub, pat = self.bind_target(g.target, x, ity[1], env)
        for cond in g.ifs:
            c = self.truth(cond, sub)
            it = f'(filter (fun {x} => {pat}{c}) {it})'
        bt, bty = body(sub)
        return f'(map (fun {x} => {pat}{bt}) {it})', ('list', bty)

    def bind_target(self, target, x, ty, env):
        """bind a for/comprehension target to the element variable x : ty -> (env, let-prefix)"""
        if isinstance(target, ast.Name):
            return {**env, target.id: (x, ty)}, ''
        if isinstance(target, ast.Tuple) and isinstance(ty, tuple) and ty[0] == 'tuple' \
                and len(target.elts) == len(ty[1]) and all(isinstance(t, ast.Name) for t in target.elts):
            names, sub = [], dict(env)
            for t, tty in zip(target.elts, ty[1]):
                if t.id == '_':
                    names.append('_')
                else:
                    nm = self.fresh(t.id)
                    names.append(nm)
                    sub[t.id] = (nm, tty)
            return sub, f"let '({', '.join(names)}) := {x} in "
        raise Untranslatable('loop target')

    def call(self, e, env):
        f = e.func
        if e.keywords:
            raise Untranslatable('keyword arguments')
        if isinstance(f, ast.Attribute) and f.attr == 'partition' and len(e.args) == 1 \
                and isinstance(e.args[0], ast.Constant) and isinstance(e.args[0].value, str):
            t, ty = self.expr(f.value, env)
            if ty != STR:
                raise Untranslatable('partition on non-string')
            # (before, separator found?, after): the separator component is only ever tested
            return f'(partition_first {coq_char(e.args[0].value)} {t})', ('tuple', (STR, BOOL, STR))
        if isinstance(f, ast.Attribute) and f.attr == 'join' and len(e.args) == 1:
            s, sty = self.expr(f.value, env)
            l, lty = self.expr(e.args[0], env)
            if sty != STR or lty != LSTR:
                raise Untranslatable('join types')
            return f'(join {s} {l})', STR
        if isinstance(f, ast.Name) and f.id == 'dict' and len(e.args) == 1:
            t, ty = self.expr(e.args[0], env)
            if not (isinstance(ty, tuple) and ty[0] == 'list' and isinstance(ty[1], tuple)
                    and ty[1][0] == 'tuple' and len(ty[1][1]) == 2):
                raise Untranslatable('dict() of a non-pair iterable')
            if ty[1][1] != (VAL, VAL):
                kt, vt = ty[1][1]
                t = f"(map (fun p_ => let '(k_, v_) := p_ in ({to_val('k_', kt)}, {to_val('v_', vt)})) {t})"
            return f'(dict_update [] {t})', DICT
        if isinstance(f, ast.Name) and f.id == 'dict' and not e.args:
            return '[]', DICT
        if isinstance(f, ast.Name) and f.id == 'list' and len(e.args) == 1:
            t, ty = self.expr(e.args[0], env)
            if isinstance(ty, tuple) and ty[0] == 'list':
                return t, ty
        raise Untranslatable('call ' + ast.dump(f)[:60])

    def truth(self, e, env):
        if isinstance(e, ast.Call) and isinstance(e.func, ast.Name) and e.func.id == 'isinstance':
            nm, _ = self.isinstance_mapping(e, env)
            t, _ = env[nm]
            return f'(match {t} with VDict _ => true | _ => false end)'
        t, ty = self.expr(e, env)
        if ty == BOOL:
            return t
        if ty == STR:
            return f'(negb (String.eqb {t} ""))'
        if ty == VAL:
            return f'(py_truth {t})'
        if ty == DICT or (isinstance(ty, tuple) and ty[0] == 'list'):
            return f'(negb (is_nil {t}))'
        if ty == OARGS:
            return f'(match {t} with Some (_ :: _) => true | _ => false end)'
        raise Untranslatable(f'truthiness of {ty_str(ty)}')

    def isinstance_mapping(self, e, env):
        if len(e.args) == 2 and isinstance(e.args[0], ast.Name) and isinstance(e.args[1], ast.Name) \
                and e.args[1].id in ('Mapping', 'dict') and e.args[0].id in env and env[e.args[0].id][1] == VAL:
            return e.args[0].id, True
        raise Untranslatable('isinstance form')

    # ------------------------------------------------------------ statements
    def ret(self, term):
        return f'(Ok {term})' if self.can_raise else term

    def stmts(self, body, env, kont):
        body = strip(body)
        if not body:
            return kont(env)
        st, rest = body[0], body[1:]
        go = lambda env2: self.stmts(rest, env2, kont)     # noqa: E731
        if isinstance(st, ast.Return):
            if not isinstance(kont, FunctionEnd):
                raise Untranslatable('return inside a loop')
            if st.value is None or (isinstance(st.value, ast.Constant) and st.value.value is None):
                return self.ret('None')
            t, ty = self.expr(st.value, env)
            if ty != DICT:
                raise Untranslatable(f'returns {ty_str(ty)}')
            return self.ret(f'(Some {t})')
        if isinstance(st, ast.Raise):
            if not self.can_raise:
                raise Untranslatable('raise in a function declared pure')
            x = st.exc
            if isinstance(x, ast.Call) and isinstance(x.func, ast.Name) and len(x.args) == 1 \
                    and not x.keywords and x.func.id in ('TypeError', 'ValueError', 'KeyError', 'RuntimeError') \
                    and isinstance(x.args[0], ast.Constant) and isinstance(x.args[0].value, str) \
                    and st.cause is None and x.func.id != 'KeyError':
                return f'(Err {coq_str(x.func.id)} {coq_str(x.args[0].value)})'
            raise Untranslatable('raise form')
        if isinstance(st, ast.AnnAssign) and st.value is not None and isinstance(st.target, ast.Name):
            st = ast.Assign(targets=[st.target], value=st.value)
        if isinstance(st, ast.Assign) and len(st.targets) == 1:
            tg = st.targets[0]
            if isinstance(tg, ast.Name):
                v = st.value
                if isinstance(v, ast.Call) and isinstance(v.func, ast.Attribute) and v.func.attr == 'loads' \
                        and isinstance(v.func.value, ast.Name) and v.func.value.id == 'json' \
                        and len(v.args) == 1 and not v.keywords:
                    if not self.can_raise:
                        raise Untranslatable('json.loads in a function declared pure')
                    a, aty = self.expr(v.args[0], env)
                    if aty != STR:
                        raise Untranslatable('json.loads of a non-string')
                    nm = self.fresh(tg.id)
                    return f'(let* {nm} := prim_json_loads {a} in {go({**env, tg.id: (nm, VAL)})})'
                t, ty = self.expr(v, env)
                nm = self.fresh(tg.id)
                return f'(let {nm} := {t} in {go({**env, tg.id: (nm, ty)})})'
            if isinstance(tg, ast.Tuple):
                t, ty = self.expr(st.value, env)
                x = self.fresh('t')
                sub, pat = self.bind_target(tg, x, ty, env)
                return f'(let {x} := {t} in {pat}{go(sub)})'
            if isinstance(tg, ast.Subscript) and isinstance(tg.value, ast.Name) and tg.value.id in env \
                    and env[tg.value.id][1] == DICT:
                d, _ = env[tg.value.id]
                k, kty = self.expr(tg.slice, env)
                v, vty = self.expr(st.value, env)
                nm = self.fresh(tg.value.id)
                return (f'(let {nm} := dict_set {to_val(k, kty)} {to_val(v, vty)} {d} in '
                        f'{go({**env, tg.value.id: (nm, DICT)})})')
            raise Untranslatable('assignment target')
        if isinstance(st, ast.Expr) and isinstance(st.value, ast.Call) and isinstance(st.value.func, ast.Attribute) \
                and st.value.func.attr == 'append' and isinstance(st.value.func.value, ast.Name) \
                and len(st.value.args) == 1 and not st.value.keywords:
            lname = st.value.func.value.id
            if lname not in env or not (isinstance(env[lname][1], tuple) and env[lname][1][0] == 'list'):
                raise Untranslatable('append on a non-list')
            l, lty = env[lname]
            x, xty = self.expr(st.value.args[0], env)
            if lty[1] not in (UNKNOWN, xty):
                raise Untranslatable('append element type')
            nm = self.fresh(lname)
            return f'(let {nm} := ({l} ++ [{x}])%list in {go({**env, lname: (nm, ("list", xty))})})'
        if isinstance(st, ast.If):
            return self.if_stmt(st, rest, env, kont)
        if isinstance(st, ast.For):
            return self.for_stmt(st, rest, env, kont)
        if isinstance(st, ast.Pass):
            return go(env)
        raise Untranslatable(type(st).__name__)

    def if_stmt(self, st, rest, env, kont):
        then = lambda e2: self.stmts(list(st.body) + rest, e2, kont)       # noqa: E731
        other = lambda e2: self.stmts(list(st.orelse) + rest, e2, kont)    # noqa: E731
        test, neg = st.test, False
        if isinstance(test, ast.UnaryOp) and isinstance(test.op, ast.Not):
            test, neg = test.operand, True
        if isinstance(test, ast.Name) and test.id in env and env[test.id][1] == OARGS:
            t, _ = env[test.id]
            nm = self.fresh(test.id)
            truthy_env = {**env, test.id: (nm, LSTR)}
            a, b = (other(truthy_env), then(env)) if neg else (then(truthy_env), other(env))
            return f'(match {t} with Some ((_ :: _) as {nm}) => {a} | _ => {b} end)'
        if isinstance(test, ast.Call) and isinstance(test.func, ast.Name) and test.func.id == 'isinstance':
            name, _ = self.isinstance_mapping(test, env)
            t, _ = env[name]
            nm = self.fresh(name)
            yes_env = {**env, name: (nm, DICT)}
            a, b = (other(yes_env), then(env)) if neg else (then(yes_env), other(env))
            return f'(match {t} with VDict {nm} => {a} | _ => {b} end)'
        c = self.truth(st.test, env)
        return f'(if {c} then {then(env)} else {other(env)})'

    def for_stmt(self, st, rest, env, kont):
        if st.orelse:
            raise Untranslatable('for/else')
        it, ity = self.expr(st.iter, env)
        if not (isinstance(ity, tuple) and ity[0] == 'list') or ity[1] == UNKNOWN:
            raise Untranslatable(f'iteration over {ty_str(ity)}')
        carried = sorted(n for n in rebound_names(st.body) if n in env)
        target_names = {n.id for n in ast.walk(st.target) if isinstance(n, ast.Name)}
        if target_names & set(carried):
            raise Untranslatable('loop target shadows an outer variable')
        for _ in range(3):      # settle the element types of lists that start as []
            x = self.fresh('x')
            names = [self.fresh(n) for n in carried]
            inner = {**env, **{n: (nm, env[n][1]) for n, nm in zip(carried, names)}}
            sub, pat = self.bind_target(st.target, x, ity[1], inner)
            end = LoopEnd(carried)
            body = self.stmts(list(st.body), sub, end)
            changed = False
            for n in carried:
                seen = {ty_str(t) for t in end.types.get(n, [])} - {ty_str(env[n][1])}
                if seen:
                    if len(seen) == 1 and env[n][1] == ('list', UNKNOWN):
                        env = {**env, n: (env[n][0], end.types[n][0] if ty_str(end.types[n][0]) in seen
                                          else [t for t in end.types[n] if ty_str(t) in seen][0])}
                        changed = True
                    else:
                        raise Untranslatable(f'{n} changes type in the loop')
            if not changed:
                break
        else:
            raise Untranslatable('loop types do not settle')
        if not carried:
            return self.stmts(rest, env, kont)          # a loop that rebinds nothing: no effect
        outs = [self.fresh(n) for n in carried]
        tup = lambda ns: ns[0] if len(ns) == 1 else '(' + ', '.join(ns) + ')'      # noqa: E731
        pre = f"let '{tup(names)} := st_ in " if len(names) > 1 else f'let {names[0]} := st_ in '
        after = {**env, **{n: (o, env[n][1]) for n, o in zip(carried, outs)}}
        init = tup([env[n][0] for n in carried])
        bind = f"let '{tup(outs)}" if len(outs) > 1 else f'let {outs[0]}'
        return (f'({bind} := fold_left (fun st_ {x} => {pre}{pat}{body}) {it} {init} in '
                f'{self.stmts(rest, after, kont)})')


class FunctionEnd:
    """falling off the end of the function: return None"""

    def __init__(self, tr):
        self.tr = tr

    def __call__(self, env):
        return self.tr.ret('None')


class LoopEnd:
    """end of a loop body: yield the current values of the carried variables"""

    def __init__(self, carried):
        self.carried = carried
        self.types = {}

    def __call__(self, env):
        for n in self.carried:
            self.types.setdefault(n, []).append(env[n][1])
        ts = [env[n][0] for n in self.carried]
        return ts[0] if len(ts) == 1 else '(' + ', '.join(ts) + ')'


def rebound_names(body):
    out = set()
    for st in body:
        for n in ast.walk(st):
            if isinstance(n, (ast.Assign, ast.AnnAssign)):
                tgs = n.targets if isinstance(n, ast.Assign) else [n.target]
                for tg in tgs:
                    if isinstance(tg, ast.Subscript) and isinstance(tg.value, ast.Name):
                        out.add(tg.value.id)
                    for m in ast.walk(tg):
                        if isinstance(m, ast.Name) and isinstance(m.ctx, ast.Store):
                            out.add(m.id)
            if isinstance(n, ast.AugAssign):
                raise Untranslatable('augmented assignment')
            if isinstance(n, ast.Call) and isinstance(n.func, ast.Attribute) and n.func.attr == 'append' \
                    and isinstance(n.func.value, ast.Name):
                out.add(n.func.value.id)
    return out


PARSERS = [
    # module, generated name, can raise / uses json.loads
    ('keyvaluepairs', 'gen_parse_keyvaluepairs', False),
    ('keys', 'gen_parse_keys', False),
    ('list', 'gen_parse_list', False),
    ('string', 'gen_parse_string', False),
    ('dict', 'gen_parse_dict', False),
    ('argskwargs', 'gen_parse_argskwargs', False),
    ('json', 'gen_parse_json', True),
]


def module_consts(tree):
    out = {}
    for st in tree.body:
        if isinstance(st, ast.Assign) and len(st.targets) == 1 and isinstance(st.targets[0], ast.Name) \
                and isinstance(st.value, ast.Constant) and isinstance(st.value.value, str):
            out[st.targets[0].id] = st.value.value
    return out


def translate_parser(mod, can_raise):
    tree = ast.parse((REPO / 'pypyr' / 'parser' / f'{mod}.py').read_text())
    fn = next((n for n in tree.body if isinstance(n, ast.FunctionDef) and n.name == 'get_parsed_context'), None)
    if fn is None:
        raise Untranslatable('get_parsed_context not found')
    a = fn.args
    if len(a.args) != 1 or a.vararg or a.kwarg or a.kwonlyargs or a.posonlyargs or a.defaults or fn.decorator_list:
        raise Untranslatable('signature')
    p = a.args[0].arg
    check_aliasing(fn, [p])
    tr = FnTr(module_consts(tree), can_raise)
    body = tr.stmts(list(fn.body), {p: (p, OARGS)}, FunctionEnd(tr))
    rty = 'res (option dict)' if can_raise else 'option dict'
    return f'({p} : option (list string)) : {rty} :=\n  {body}'


# ---------------------------------------------------------------- cli.main

CLASSES = ('BaseException', 'Exception', 'KeyboardInterrupt', 'SystemExit', 'GeneratorExit')
INT_CONSTS = {('signal', 'SIGINT'): 2}

# argparse dest (read through parsed_args.<dest>) -> term of the model's cli_args record [a]
DEST = {
    'pipeline_name': 'a_name a',
    'context_args': 'Some (a_ctx a)',
    'groups': 'a_groups a',
    'success_group': 'a_success a',
    'failure_group': 'a_failure a',
    'py_dir': '(match a_dir a with Some d => d | None => cwd end)',     # default=config.cwd
}
# parameters of pypyr.pipelinerunner.run in the order of the model's run_call record
RUN_FIELDS = ['pipeline_name', 'args_in', 'parse_args', 'dict_in', 'groups', 'success_group',
              'failure_group', 'loader', 'py_dir']


def int_expr(e):
    if isinstance(e, ast.Constant) and isinstance(e.value, int) and not isinstance(e.value, bool):
        return f'{e.value}' if e.value >= 0 else f'({e.value})'
    if isinstance(e, ast.Attribute) and isinstance(e.value, ast.Name) and (e.value.id, e.attr) in INT_CONSTS:
        return str(INT_CONSTS[(e.value.id, e.attr)])
    if isinstance(e, ast.BinOp) and isinstance(e.op, (ast.Add, ast.Sub, ast.Mult)):
        op = {ast.Add: '+', ast.Sub: '-', ast.Mult: '*'}[type(e.op)]
        return f'({int_expr(e.left)} {op} {int_expr(e.right)})'
    raise Untranslatable('exit code expression')


def attr_chain(e):
    parts = []
    while isinstance(e, ast.Attribute):
        parts.append(e.attr)
        e = e.value
    if isinstance(e, ast.Name):
        parts.append(e.id)
        return '.'.join(reversed(parts))
    return None


def is_printing(st):
    """what main prints is out of scope: these statements are dropped"""
    if isinstance(st, ast.Expr) and isinstance(st.value, ast.Call):
        return attr_chain(st.value.func) in ('sys.stdout.write', 'sys.stderr.write', 'traceback.print_exc',
                                             'sys.stdout.flush', 'sys.stderr.flush', 'print')
    if isinstance(st, ast.If):
        return all(is_printing(s) for s in st.body) and all(is_printing(s) for s in st.orelse)
    return False


def after_handler(stmts, fallthrough):
    """body of a handler / statements after the try -> term of type (option Z + exn)"""
    stmts = [s for s in strip(stmts) if not is_printing(s)]
    if not stmts:
        return fallthrough
    if len(stmts) == 1 and isinstance(stmts[0], ast.Return):
        v = stmts[0].value
        if v is None or (isinstance(v, ast.Constant) and v.value is None):
            return '(inl None)'
        return f'(inl (Some {int_expr(v)}%Z))'
    if len(stmts) == 1 and isinstance(stmts[0], ast.Raise) and stmts[0].exc is None:
        return '(inr e)'
    raise Untranslatable('handler body')


def find_main():
    tree = ast.parse((REPO / 'pypyr' / 'cli.py').read_text())
    fn = next((n for n in tree.body if isinstance(n, ast.FunctionDef) and n.name == 'main'), None)
    if fn is None:
        raise Untranslatable('main not found')
    body = strip(fn.body)
    tries = [i for i, s in enumerate(body) if isinstance(s, ast.Try)]
    if len(tries) != 1:
        raise Untranslatable('expected exactly one try statement')
    i = tries[0]
    for s in body[:i]:
        ok = isinstance(s, ast.Assign) or (isinstance(s, ast.If) and not s.orelse
                                           and all(isinstance(x, ast.Assign) for x in s.body))
        if not ok:
            raise Untranslatable('statement before the try')
    return tree, body[i], body[i + 1:]


def translate_ladder():
    _, tr, tail = find_main()
    if tr.finalbody:
        raise Untranslatable('finally')
    for s in ast.walk(ast.Module(body=tr.body, type_ignores=[])):
        if isinstance(s, (ast.Return, ast.Raise, ast.Try)):
            raise Untranslatable('return/raise/try inside the try body')
    end = after_handler(tail, '(inl None)')
    no_exc = after_handler(list(tr.orelse) + tail, '(inl None)') if tr.orelse else end
    ladder = '(inr e)'
    for h in reversed(tr.handlers):
        if h.type is None:
            cond = 'true'
        else:
            ts = h.type.elts if isinstance(h.type, ast.Tuple) else [h.type]
            names = []
            for t in ts:
                if not (isinstance(t, ast.Name) and t.id in CLASSES):
                    raise Untranslatable('handler class')
                names.append(f'isinst e {coq_str(t.id)}')
            cond = names[0] if len(names) == 1 else '(' + ' || '.join(names) + ')'
        ladder = f'(if {cond} then {after_handler(h.body, end)} else {ladder})'
    return (f'(body : option exn) : (option Z + exn) :=\n'
            f'    match body with\n    | None => {no_exc}\n    | Some e => {ladder}\n    end')


def translate_call():
    tree, tr, _ = find_main()
    calls = [n for s in tr.body for n in ast.walk(s)
             if isinstance(n, ast.Call) and attr_chain(n.func) == 'pypyr.pipelinerunner.run']
    if len(calls) != 1:
        raise Untranslatable('expected exactly one call of pypyr.pipelinerunner.run in the try body')
    c = calls[0]
    given = {}
    for i, a in enumerate(c.args):
        if isinstance(a, ast.Starred) or i >= len(RUN_FIELDS):
            raise Untranslatable('positional arguments')
        given[RUN_FIELDS[i]] = a
    for k in c.keywords:
        if k.arg is None or k.arg not in RUN_FIELDS or k.arg in given:
            raise Untranslatable(f'keyword {k.arg}')
        given[k.arg] = k.value
    # defaults of run() itself: every parameter but the first must default to None
    rtree = ast.parse((REPO / 'pypyr' / 'pipelinerunner.py').read_text())
    run = next((n for n in rtree.body if isinstance(n, ast.FunctionDef) and n.name == 'run'), None)
    if run is None or [a.arg for a in run.args.args] != RUN_FIELDS or run.args.vararg or run.args.kwarg \
            or run.args.kwonlyargs or len(run.args.defaults) != len(RUN_FIELDS) - 1 \
            or not all(isinstance(d, ast.Constant) and d.value is None for d in run.args.defaults):
        raise Untranslatable('signature of pypyr.pipelinerunner.run')
    terms = []
    for f in RUN_FIELDS:
        if f not in given:
            if f == 'pipeline_name':
                raise Untranslatable('pipeline_name not passed')
            terms.append('None')
            continue
        v = given[f]
        if isinstance(v, ast.Constant) and v.value is None:
            terms.append('None')
        elif isinstance(v, ast.Constant) and isinstance(v.value, bool):
            terms.append(f'(Some {"true" if v.value else "false"})')
        elif isinstance(v, ast.Attribute) and isinstance(v.value, ast.Name) and v.value.id == 'parsed_args' \
                and v.attr in DEST:
            terms.append('(' + DEST[v.attr] + ')')
        else:
            raise Untranslatable(f'value of {f}')
    return '(cwd : string) (a : cli_args) : run_call :=\n    mk_run_call ' + ' '.join(terms)


# ---------------------------------------------------------------- output

def emit(lines, header, name, fn, indent=''):
    try:
        body = fn()
        lines.append(f'{indent}(* {header} *)')
        lines.append(f'{indent}Definition {name} {body}.')
        return 'ok'
    except (Untranslatable, OSError, SyntaxError, KeyError, AttributeError, IndexError, TypeError) as ex:
        msg = str(ex).replace('*)', '* )').replace('(*', '( *').replace('"', "'")
        lines.append(f'{indent}(* {header} could not be translated: {msg} *)')
        lines.append(f'{indent}Definition {name}_UNTRANSLATED : unit := tt.')
        return f'untranslated: {ex}'


def translate_all():
    lines = ['(** Gen/GenC18.v — GENERATED by tools/py2coq_c18.py from the current source under the',
             '    repository; do not edit.  A function that could not be translated gets the suffix',
             '    _UNTRANSLATED, which breaks every lemma that mentions the expected name. *)',
             'From PV Require Import PyVal Cli.', 'Open Scope string_scope.', '']
    status = {}
    for mod, cname, can_raise in PARSERS:
        if can_raise:
            continue
        status[cname] = emit(lines, f'pypyr/parser/{mod}.py: get_parsed_context', cname,
                             lambda m=mod: translate_parser(m, False))
        lines.append('')
    lines += ['Section Json.', '  (* json.loads: standard library, left abstract *)',
              '  Variable prim_json_loads : string -> res val.', '']
    for mod, cname, can_raise in PARSERS:
        if can_raise:
            status[cname] = emit(lines, f'pypyr/parser/{mod}.py: get_parsed_context', cname,
                                 lambda m=mod: translate_parser(m, True), '  ')
    lines += ['End Json.', '', 'Section MainLadder.',
              '  (* the exceptions the try body of main can raise, and Python isinstance against the',
              '     class named by a string: left abstract *)',
              '  Variable exn : Type.', '  Variable isinst : exn -> string -> bool.', '']
    status['gen_main_ladder'] = emit(
        lines, 'pypyr/cli.py: main — try/except ladder; inl code = main returns code, inr e = e escapes',
        'gen_main_ladder', translate_ladder, '  ')
    lines += ['End MainLadder.', '']
    status['gen_call_of'] = emit(lines, 'pypyr/cli.py: main — arguments of pypyr.pipelinerunner.run(...)',
                                 'gen_call_of', translate_call)
    lines.append('')
    text = '\n'.join(lines)
    OUT.parent.mkdir(exist_ok=True)
    if not OUT.exists() or OUT.read_text() != text:
        OUT.write_text(text)
    return status


if __name__ == '__main__':
    for k, v in translate_all().items():
        print(k, v)
    sys.exit(0)
